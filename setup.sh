#!/bin/sh
# Overlay venv for the PyVC verifier: python 3.12 (same interpreter as /venv, so the
# ast grammar is the one the repository runs under) + z3-solver/cvc5/jsonschema/hypothesis
# from the offline wheelhouse + a .pth that makes /venv's site-packages (h11, h2, anyio,
# trio, socksio and the editable httpcore) importable for replays and audits.
# Idempotent; offline; everything lives under /verif/.venv (git-ignored).
set -e
cd "$(dirname "$0")"
V=.venv
if [ -x "$V/bin/python" ] && "$V/bin/python" -c "import z3, jsonschema" 2>/dev/null; then
  exit 0
fi
rm -rf "$V"
/venv/bin/python -m venv "$V"
PIP_NO_INDEX=1 "$V/bin/python" -m pip install -q --no-index --find-links /opt/veriftools/wheels \
    z3-solver cvc5 jsonschema hypothesis >/dev/null
SP=$("$V/bin/python" -c "import sysconfig;print(sysconfig.get_paths()['purelib'])")
echo "import site; site.addsitedir('/venv/lib/python3.12/site-packages')" > "$SP/zz_repo_venv.pth"
"$V/bin/python" -c "import z3, jsonschema, h11, h2, httpcore; print('pyvc venv ok', z3.get_version_string())"
