"""Replay of refuted obligations against the real code (evidence, not the deciding step)."""
from __future__ import annotations

import json
import os
import subprocess
import sys

HERE = os.path.dirname(os.path.dirname(os.path.abspath(__file__)))

# property -> callable(obligation, witness, repo, seed) -> (confirmed: bool, detail: dict)
HARNESSES: dict = {}


def harness(*props):
    def deco(fn):
        for p in props:
            HARNESSES.setdefault(p, []).append(fn)
        return fn

    return deco


def run_native(script: str, repo: str, args=(), timeout=120):
    """run a replay script with the overlay interpreter, cwd = the tree under test"""
    py = os.path.join(HERE, ".venv", "bin", "python")
    env = dict(os.environ)
    env["PYTHONPATH"] = repo
    env["PYTHONDONTWRITEBYTECODE"] = "1"
    p = subprocess.run([py, script, *args], cwd=repo, env=env, capture_output=True, text=True, timeout=timeout)
    return p.returncode, (p.stdout + p.stderr)[-4000:]


def try_replay(prop, obligation, witness, repo, seed):
    for h in HARNESSES.get(prop, []):
        r = h(obligation, witness, repo, seed)
        if r is None:
            continue
        confirmed, detail = r
        if confirmed:
            return True, detail
        last = detail
    else:
        last = {"note": "no replay harness applies to this obligation"} if not HARNESSES.get(prop) else locals().get("last", {})
    return False, last
