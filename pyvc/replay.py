"""Replay of refuted obligations against the real code (evidence, not the deciding step)."""
from __future__ import annotations

import json
import os
import subprocess

HERE = os.path.dirname(os.path.dirname(os.path.abspath(__file__)))


def run_native(script: str, repo: str, args=(), timeout=120):
    """run a replay script with the overlay interpreter, cwd = the tree under test"""
    py = os.path.join(HERE, ".venv", "bin", "python")
    env = dict(os.environ)
    env["PYTHONPATH"] = repo
    env["PYTHONDONTWRITEBYTECODE"] = "1"
    p = subprocess.run([py, script, *args], cwd=repo, env=env, capture_output=True, text=True, timeout=timeout)
    return p.returncode, p.stdout[-4000:], p.stderr[-2000:]


def try_replay(prop, obligation, witness, repo, seed):
    """-> (confirmed, detail).  Pure-function obligations: the real function is executed on the
    counter-model / a seeded input family and compared with a concrete spec (replay/pure_oracle.py).
    Known-finding probes are replayed by their own scripts.  Everything else: no harness."""
    oid = obligation["oid"]
    # oid = <prop>:<function key>:<kind>:<label>[tree]
    try:
        func = oid.split(":")[1]
        tree = "sync" if oid.endswith("[sync]") else "async"
    except Exception:
        return False, {"note": "unparsable obligation id"}
    if oid.split(":")[1] in ("twin", "frame"):
        w = (witness or {})
        return False, {"note": "structural obligation: the witness names the diverging lines / stores", "witness": w}
    script = os.path.join(HERE, "replay", "pure_oracle.py")
    model = json.dumps((witness or {}).get("model") or {})
    try:
        rc, out, err = run_native(script, repo, [func, tree, str(seed), model])
    except subprocess.TimeoutExpired:
        return False, {"note": "native replay timed out"}
    try:
        res = json.loads(out.strip().splitlines()[-1])
    except Exception:
        return False, {"note": "native replay produced no result", "stderr": err[-500:]}
    if not res.get("applies"):
        return False, {"note": "no native replay harness for this function (stateful / concurrent obligation)"}
    if rc == 1 and res.get("failing_input") is not None:
        res["how_to_replay"] = f"cd {repo} && PYTHONPATH={repo} {os.path.join(HERE, '.venv/bin/python')} {script} {func} {tree} {seed}"
        return True, res
    return False, {"note": "native oracle ran the real function on the seeded input family and found no failing input", **res}
