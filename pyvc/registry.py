"""Registry of sidecar knowledge: contracts, field kinds, intrinsic stubs, axioms."""
from __future__ import annotations

import z3

from .values import *  # noqa: F401,F403


class Registry:
    def __init__(self):
        self.contracts: dict = {}
        self.intrinsics: dict = {}  # dotted name -> fn(it, st, args, kwargs, node) -> V
        self.methods: dict = {}  # (class, method) -> fn(it, st, self_v, args, kwargs, node) -> V
        self.attrs: dict = {}  # (class, attr) -> fn(it, st, self_v) -> V
        self.consts: dict = {}  # dotted -> V
        self.field_keys: dict = {}  # heap key -> kind
        self.class_fields: dict = {}  # class dotted -> {field: heap key}
        self.const_keys: set = set()
        self.ghost_keys: set = set()
        self.shared_keys: set = set()  # fields other tasks may change at a suspension point
        self.ctx_by_class: dict = {}  # class dotted -> factory(it, st, ref) -> CtxHandler
        self.iter_by_class: dict = {}  # class dotted -> factory(it, st, v) -> IterHandler
        self.ext_classes: dict = {}
        self.axioms: list = []
        self.ref_truthiness: dict = {}
        self.ref_eq: dict = {}
        self.rely_hooks: list = []
        self.trusted_notes: list = []  # strings for the evidence trusted_base
        self.inline_ok: set = set()  # repo function keys that callers may inline
        self._async_names: set = set()
        self.annotation_kinds: dict = {}  # annotation source text -> kind

    # -- declarations
    def ext_class(self, name, *bases):
        self.ext_classes[name] = list(bases)

    def fields(self, cls: str, short: str, const=(), ghost=(), shared=(), **kinds):
        table = self.class_fields.setdefault(cls, {})
        self._async_names.add(cls)
        for f, kind in kinds.items():
            key = f"{short}.{f}"
            table[f] = key
            self.field_keys[key] = kind
            if f in const:
                self.const_keys.add(key)
            if f in ghost:
                self.ghost_keys.add(key)
            if f in shared:
                self.shared_keys.add(key)
        return table

    def contract(self, cls):
        """class decorator: register a Contract subclass instance under cls.key"""
        inst = cls()
        self.contracts[inst.key] = inst
        self._async_names.add(inst.key)
        parts = inst.key.split(".")
        # also register owning class / module names for alias building
        for i in range(2, len(parts)):
            self._async_names.add(".".join(parts[:i]))
        return cls

    def intrinsic(self, *names, suspends=False):
        def deco(fn):
            fn.suspends = suspends
            for n in names:
                self.intrinsics[n] = fn
                self._async_names.add(n)
            return fn

        return deco

    def method(self, cls, *names):
        def deco(fn):
            for n in names:
                self.methods[(cls, n)] = fn
            self._async_names.add(cls)
            return fn

        return deco

    def attr(self, cls, *names):
        def deco(fn):
            for n in names:
                self.attrs[(cls, n)] = fn
            self._async_names.add(cls)
            return fn

        return deco

    def allow_inline(self, *keys):
        """repository helpers whose real body callers may inline (listed in the evidence)"""
        for k in keys:
            self.inline_ok.add(k)
            self._async_names.add(k)
            parts = k.split(".")
            for i in range(2, len(parts)):
                self._async_names.add(".".join(parts[:i]))

    def all_async_names(self):
        return set(self._async_names)

    # -- lookups
    def kind_of_key(self, key: str) -> str:
        return self.field_keys[key]

    def field_kind(self, eng, cls: str, name: str):
        """-> (heap key, kind) or None, walking the repo MRO of cls (canonical async names)."""
        for k in self._mro(eng, cls):
            t = self.class_fields.get(k)
            if t and name in t:
                key = t[name]
                return key, self.field_keys[key]
        return None

    def _mro(self, eng, cls):
        # canonical (async) class key -> tree-specific key for ast lookup -> back to canonical
        out = []
        tree_cls = eng.tree_name(cls)
        for k in eng.repo.mro(tree_cls):
            out.append(eng.canon(k))
        if cls not in out:
            out.insert(0, cls)
        # external bases declared by sidecars
        todo = list(out)
        while todo:
            k = todo.pop(0)
            for b in self.ext_classes.get(k, []):
                if b not in out:
                    out.append(b)
                    todo.append(b)
        return out

    def mutable_keys(self):
        for key, kind in self.field_keys.items():
            if key in self.const_keys:
                continue
            yield key, kind

    def parts_cache(self, keys):
        """[(array name, sort, class short)] for the mutable keys in `keys` (None = all); memoised"""
        ck = None if keys is None else frozenset(keys)
        cache = self.__dict__.setdefault("_parts_cache", {})
        if ck not in cache:
            out = []
            for key, kind in self.mutable_keys():
                if keys is not None and key not in keys:
                    continue
                for sub, sort in self.array_parts(key, kind):
                    out.append((sub, sort, key.split(".", 1)[0]))
            cache[ck] = out
        return cache[ck]

    def array_parts(self, key, kind):
        if kind.startswith("opt:"):
            return [(key + "#none", BoolS), (key + "#val", sort_of_kind(kind[4:]))]
        if kind.startswith("dict:"):
            _, kk, vk = kind.split(":", 2)
            return [
                (key + "#has", z3.ArraySort(sort_of_kind(kk), BoolS)),
                (key + "#val", z3.ArraySort(sort_of_kind(kk), sort_of_kind(vk))),
                (key + "#size", IntS),
            ]
        return [(key, sort_of_kind(kind))]

    def find_method_stub(self, eng, cls: str, name: str):
        for k in self._mro(eng, cls):
            h = self.methods.get((k, name))
            if h is not None:
                return h
        return None

    def find_attr_stub(self, eng, cls: str, name: str):
        for k in self._mro(eng, cls):
            h = self.attrs.get((k, name))
            if h is not None:
                return h
        return None


class CtxHandler:
    """Context manager protocol for `with` items."""

    def enter(self, it, st):
        return NONE

    def exit(self, it, st, exc):
        """exc: VExc or None. Return True to suppress. May raise PyRaise."""
        return False


class IterHandler:
    """Iterator protocol for `for` loops over opaque iterables.
    next(it, st) -> V for one more element, or None when exhausted.  The engine forks."""

    elem_kind = "val"

    def has_next_choices(self, it, st):
        return 2

    def next(self, it, st):
        raise NotImplementedError
