"""Python builtin operations over symbolic values (the part of Python's semantics the
encoding assumes; each case mirrors CPython for the kinds it supports and raises
Unsupported otherwise)."""
from __future__ import annotations

import ast

import z3

from .values import *  # noqa: F401,F403
from .engine import Unsupported, PyRaise, VHeapDict, Infeasible


def py_key(v: V):
    """concrete python key of a literal used as dict key"""
    if isinstance(v, VStr) and z3.is_string_value(v.t):
        return v.t.as_string()
    if isinstance(v, VBytes):
        b = const_bytes(v.t)
        if b is not None:
            return b
    if isinstance(v, VInt) and z3.is_int_value(v.t):
        return v.t.as_long()
    if isinstance(v, VClass):
        return ("class", v.name)
    if isinstance(v, VVal):
        return ("val", str(v.t))
    raise Unsupported(f"non-literal dict key {v!r}")


def const_bytes(t):
    """python bytes of a constant Seq(BV8) term, else None"""
    t = z3.simplify(t)
    out = []

    def walk(x):
        if z3.is_app(x):
            k = x.decl().kind()
            if k == z3.Z3_OP_SEQ_EMPTY:
                return True
            if k == z3.Z3_OP_SEQ_UNIT:
                c = x.arg(0)
                if z3.is_bv_value(c):
                    out.append(c.as_long())
                    return True
                return False
            if k == z3.Z3_OP_SEQ_CONCAT:
                return all(walk(x.arg(i)) for i in range(x.num_args()))
        return False

    return bytes(out) if walk(t) else None


def const_str(t):
    t = z3.simplify(t)
    return t.as_string() if z3.is_string_value(t) else None


# ------------------------------------------------------------------------------ arithmetic


def binop(it, st, op, a: V, b: V, node) -> V:
    eng = it.eng
    a = eng.unbox(st, a)
    b = eng.unbox(st, b)
    # arithmetic between a number and an opaque value (a timeout read from the request extensions, say): the opaque
    # operand is taken to be a number, as in comparisons and min / max
    if isinstance(op, (ast.Add, ast.Sub, ast.Mult)):
        if isinstance(a, VVal) and isinstance(b, (VInt, VReal)):
            a = eng.coerce(st, a, "real")
        elif isinstance(b, VVal) and isinstance(a, (VInt, VReal)):
            b = eng.coerce(st, b, "real")
    if isinstance(op, ast.Add):
        if isinstance(a, VInt) and isinstance(b, VInt):
            return VInt(a.t + b.t)
        if isinstance(a, (VInt, VReal)) and isinstance(b, (VInt, VReal)):
            return VReal(eng.coerce(st, a, "real").t + eng.coerce(st, b, "real").t)
        if isinstance(a, VBytes) and isinstance(b, VBytes):
            return VBytes(z3.Concat(a.t, b.t))
        if isinstance(a, VStr) and isinstance(b, VStr):
            return VStr(z3.Concat(a.t, b.t))
        if isinstance(a, VList) and isinstance(b, VList):
            return VList(a.items + b.items)
        if isinstance(a, (VList, VSeq)) and isinstance(b, (VList, VSeq)):
            elem = a.elem if isinstance(a, VSeq) else b.elem
            sa = eng.coerce(st, a, "seq:" + elem)
            sb = eng.coerce(st, b, "seq:" + elem)
            return VSeq(z3.Concat(sa.t, sb.t), elem)
        if isinstance(a, VTuple) and isinstance(b, VTuple):
            return VTuple(a.items + b.items)
        if isinstance(a, VOpt) or isinstance(b, VOpt):
            # arithmetic on an Optional whose None-ness the path has excluded
            if isinstance(a, VOpt):
                if eng.branch(st, a.none, f"none-operand@{node.lineno}"):
                    eng.raise_(st, "TypeError")
                return binop(it, st, op, a.val, b, node)
            if eng.branch(st, b.none, f"none-operand@{node.lineno}"):
                eng.raise_(st, "TypeError")
            return binop(it, st, op, a, b.val, node)
    if isinstance(op, ast.Sub):
        if isinstance(a, VInt) and isinstance(b, VInt):
            return VInt(a.t - b.t)
        if isinstance(a, (VInt, VReal)) and isinstance(b, (VInt, VReal)):
            return VReal(eng.coerce(st, a, "real").t - eng.coerce(st, b, "real").t)
    if isinstance(op, ast.Mult):
        if isinstance(a, VInt) and isinstance(b, VInt):
            return VInt(a.t * b.t)
        if isinstance(a, (VInt, VReal)) and isinstance(b, (VInt, VReal)):
            return VReal(eng.coerce(st, a, "real").t * eng.coerce(st, b, "real").t)
    if isinstance(op, ast.Pow):
        if isinstance(a, VInt) and isinstance(b, VInt):
            az, bz = z3.simplify(a.t), z3.simplify(b.t)
            if z3.is_int_value(az) and z3.is_int_value(bz) and bz.as_long() >= 0:
                return VInt(az.as_long() ** bz.as_long())
            if z3.is_int_value(az) and az.as_long() == 2:
                return VInt(pow2(b.t))
    if isinstance(op, ast.Mod):
        if isinstance(a, VBytes):
            return bytes_format(it, st, a, b, node)
        if isinstance(a, VStr):
            st.counter += 1
            return VStr(z3.String(f"fmt!{st.counter}"))  # message text: contents dropped
        if isinstance(a, VInt) and isinstance(b, VInt):
            return VInt(a.t % b.t)
    if isinstance(op, ast.FloorDiv):
        if isinstance(a, VInt) and isinstance(b, VInt):
            return VInt(a.t / b.t)
    raise Unsupported(f"{it.site(node)}: binop {type(op).__name__} on {a!r}, {b!r}")


def bytes_format(it, st, fmt: VBytes, arg: V, node) -> VBytes:
    f = const_bytes(fmt.t)
    if f is None:
        raise Unsupported("non-constant bytes format")
    args = arg.items if isinstance(arg, VTuple) else [arg]
    out = []
    i = 0
    ai = 0
    lit = bytearray()
    while i < len(f):
        if f[i:i + 1] == b"%":
            spec = f[i + 1:i + 2]
            if spec == b"%":
                lit += b"%"
                i += 2
                continue
            if lit:
                out.append(bytes_lit(bytes(lit)))
                lit = bytearray()
            if ai >= len(args):
                raise Unsupported("bytes format: not enough arguments")
            a = it.eng.unbox(st, args[ai])
            ai += 1
            if spec in (b"b", b"s"):
                out.append(it.eng.coerce(st, a, "bytes").t)
            elif spec == b"d":
                out.append(encode_ascii(dec_s(it.eng.coerce(st, a, "int").t)))
            else:
                raise Unsupported(f"bytes format spec {spec!r}")
            i += 2
        else:
            lit += f[i:i + 1]
            i += 1
    if lit:
        out.append(bytes_lit(bytes(lit)))
    if not out:
        return VBytes(b"")
    return VBytes(out[0] if len(out) == 1 else z3.Concat(*out))


# ------------------------------------------------------------------------------ comparison


def compare(it, st, op, a: V, b: V, node):
    eng = it.eng
    a = eng.unbox(st, a)
    b = eng.unbox(st, b)
    if isinstance(op, ast.Eq):
        return eng.eq(st, a, b)
    if isinstance(op, ast.NotEq):
        return eng.z_not(eng.eq(st, a, b))
    if isinstance(op, (ast.Is, ast.IsNot)):
        r = identity(it, st, a, b, node)
        return r if isinstance(op, ast.Is) else eng.z_not(r)
    if isinstance(op, (ast.Lt, ast.LtE, ast.Gt, ast.GtE)):
        if isinstance(a, VOpt) and not isinstance(b, VOpt):
            if eng.branch(st, a.none, f"none-operand@{node.lineno}"):
                eng.raise_(st, "TypeError")
            a = a.val
        if isinstance(b, VOpt) and not isinstance(a, VOpt):
            if eng.branch(st, b.none, f"none-operand@{node.lineno}"):
                eng.raise_(st, "TypeError")
            b = b.val
        if isinstance(a, VVal) and isinstance(b, (VInt, VReal)):
            a = eng.coerce(st, a, b.kind)
        if isinstance(b, VVal) and isinstance(a, (VInt, VReal)):
            b = eng.coerce(st, b, a.kind)
        if isinstance(a, (VInt, VReal)) and isinstance(b, (VInt, VReal)):
            if isinstance(a, VInt) and isinstance(b, VInt):
                x, y = a.t, b.t
            else:
                x, y = eng.coerce(st, a, "real").t, eng.coerce(st, b, "real").t
            if isinstance(op, ast.Lt):
                return x < y
            if isinstance(op, ast.LtE):
                return x <= y
            if isinstance(op, ast.Gt):
                return x > y
            return x >= y
        raise Unsupported(f"{it.site(node)}: ordering on {a!r}, {b!r}")
    if isinstance(op, (ast.In, ast.NotIn)):
        r = contains(it, st, b, a, node)
        return r if isinstance(op, ast.In) else eng.z_not(r)
    raise Unsupported(f"{it.site(node)}: compare {type(op).__name__}")


def identity(it, st, a: V, b: V, node):
    eng = it.eng
    if isinstance(a, VNone) or isinstance(b, VNone):
        other = b if isinstance(a, VNone) else a
        return eng.is_none(st, other)
    if isinstance(a, VRef) and isinstance(b, VRef):
        return a.t == b.t
    if isinstance(a, VVal) or isinstance(b, VVal):
        return eng.to_val(st, a).t == eng.to_val(st, b).t
    if isinstance(a, VClass) and isinstance(b, VClass):
        return a.name == b.name
    if isinstance(a, VBool) and isinstance(b, VBool):
        return a.t == b.t
    if isinstance(a, VInt) and isinstance(b, VInt):
        return a.t == b.t  # enum members / small ints
    raise Unsupported(f"{it.site(node)}: identity on {a!r}, {b!r}")


def contains(it, st, container: V, x: V, node):
    eng = it.eng
    if isinstance(container, (VTuple, VList)):
        return eng.z_or([eng.eq(st, x, y) for y in container.items])
    if isinstance(container, VSet):
        return container.member(eng, st, x)
    if isinstance(container, VSeq):
        xv = eng.coerce(st, x, container.elem)
        return z3.Contains(container.t, z3.Unit(xv.t))
    if isinstance(container, VDict):
        try:
            return py_key(x) in container.items
        except Unsupported:
            pass
    if isinstance(container, VHeapDict):
        k = eng.coerce(st, x, container.kk)
        return container.has(eng, st, k.t)
    if isinstance(container, VVal):
        if isinstance(x, VStr):
            return dhas(container.t, x.t)
    if isinstance(container, VBytes) and isinstance(x, VBytes):
        return z3.Contains(container.t, x.t)
    if isinstance(container, VRef):
        h = eng.reg.find_method_stub(eng, container.cls, "__contains__")
        if h is not None:
            r = h(it, st, container, [x], {}, node)
            return eng.truthy(st, r)
    raise Unsupported(f"{it.site(node)}: `in` on {container!r}")


# ------------------------------------------------------------------------------ indexing


def py_slice_bounds(n, lo, hi):
    """z3 terms for python's slice clamping of [lo:hi] on length n (step 1)."""

    def clamp(x, default):
        if x is None:
            return default
        return z3.If(x < 0, z3.If(x + n < 0, z3.IntVal(0), x + n), z3.If(x > n, n, x))

    start = clamp(lo, z3.IntVal(0))
    stop = clamp(hi, n)
    return start, stop


def slice_(it, st, obj: V, lo, hi, node) -> V:
    eng = it.eng
    obj = eng.unbox(st, obj)
    lo_t = None if lo is None or isinstance(lo, VNone) else eng.coerce(st, lo, "int").t
    hi_t = None if hi is None or isinstance(hi, VNone) else eng.coerce(st, hi, "int").t
    if isinstance(obj, (VBytes, VStr, VSeq)):
        n = z3.Length(obj.t)
        start, stop = py_slice_bounds(n, lo_t, hi_t)
        length = z3.If(stop > start, stop - start, z3.IntVal(0))
        t = z3.SubSeq(obj.t, start, length)
        if isinstance(obj, VBytes):
            return VBytes(t)
        if isinstance(obj, VStr):
            return VStr(t)
        return VSeq(t, obj.elem)
    if isinstance(obj, (VList, VTuple)):
        lo_c = None if lo_t is None else _const_int(lo_t)
        hi_c = None if hi_t is None else _const_int(hi_t)
        if (lo_t is None or lo_c is not None) and (hi_t is None or hi_c is not None):
            items = obj.items[slice(lo_c, hi_c)]
            return VList(items) if isinstance(obj, VList) else VTuple(items)
    if isinstance(obj, VVal):
        # a slice of an opaque value (a memoryview, say): another opaque value, nothing assumed about it
        st.counter += 1
        return VVal(z3.Const(f"slice_of_opaque!{st.counter}", ValS))
    raise Unsupported(f"{it.site(node)}: slice of {obj!r}")


def _const_int(t):
    t = z3.simplify(t)
    return t.as_long() if z3.is_int_value(t) else None


def index(it, st, obj: V, idx: V, node) -> V:
    eng = it.eng
    obj = eng.unbox(st, obj)
    idx = eng.unbox(st, idx)
    if isinstance(obj, (VList, VTuple)):
        i = eng.coerce(st, idx, "int")
        c = _const_int(i.t)
        if c is None:
            raise Unsupported(f"{it.site(node)}: symbolic index into concrete list")
        if not (-len(obj.items) <= c < len(obj.items)):
            eng.raise_(st, "IndexError", tag={"site": it.site(node)})
        return obj.items[c]
    if isinstance(obj, VSeq):
        i = eng.coerce(st, idx, "int")
        n = z3.Length(obj.t)
        c = _const_int(i.t)
        if c is not None and c >= 0:
            ok = n > c
            pos = z3.IntVal(c)
        elif c is not None:
            ok = n >= -c
            pos = n + c
        else:
            ok = z3.And(i.t < n, i.t >= -n)
            pos = z3.If(i.t < 0, i.t + n, i.t)
        if not eng.branch(st, ok, f"index-in-range@{node.lineno}"):
            eng.raise_(st, "IndexError", tag={"site": it.site(node)})
        v = wrap(obj.elem, obj.t[pos])
        if isinstance(v, VRef):
            eng.assume(st, v.t != 0)  # lists of objects never hold None (list encoding)
            eng.assume_alive(st, v)
        return v
    if isinstance(obj, VBytes):
        # b[i] -> int in 0..255 (IndexError when out of range)
        i = eng.coerce(st, idx, "int")
        n = z3.Length(obj.t)
        ok = z3.And(i.t < n, i.t >= -n)
        if not eng.branch(st, ok, f"index-in-range@{node.lineno}"):
            eng.raise_(st, "IndexError", tag={"site": it.site(node)})
        pos = z3.If(i.t < 0, i.t + n, i.t)
        return VInt(z3.BV2Int(obj.t[pos]))
    if isinstance(obj, VDict):
        try:
            k = py_key(idx)
        except Unsupported:
            r = dict_lookup_symbolic(it, st, obj, idx, node)
            if eng.branch(st, r.none, f"key-missing@{node.lineno}"):
                eng.raise_(st, "KeyError", tag={"site": it.site(node)})
            return r.val
        if k not in obj.items:
            eng.raise_(st, "KeyError", tag={"site": it.site(node)})
        return obj.items[k]
    if isinstance(obj, VHeapDict):
        k = eng.coerce(st, idx, obj.kk)
        if not eng.branch(st, obj.has(eng, st, k.t), f"key-present@{node.lineno}"):
            eng.raise_(st, "KeyError", tag={"site": it.site(node)})
        lv = obj.get(eng, st, k.t)
        lv.loc = ("heapdict", obj, k.t)
        return lv
    if isinstance(obj, VVal):
        if isinstance(idx, VStr):
            if not eng.branch(st, dhas(obj.t, idx.t), f"key-present@{node.lineno}"):
                eng.raise_(st, "KeyError", tag={"site": it.site(node)})
            return VVal(dget(obj.t, idx.t, none_val))
        if isinstance(idx, VInt):
            f = z3.Function("val_item", ValS, IntS, ValS)
            return VVal(f(obj.t, idx.t))
    if isinstance(obj, VHdr):
        c = _const_int(eng.coerce(st, idx, "int").t)
        if c == 0:
            return VBytes(HdrS.hk(obj.t))
        if c == 1:
            return VBytes(HdrS.hv(obj.t))
    if isinstance(obj, VRef):
        h = eng.reg.find_method_stub(eng, obj.cls, "__getitem__")
        if h is not None:
            return h(it, st, obj, [idx], {}, node)
    raise Unsupported(f"{it.site(node)}: index {obj!r}[{idx!r}]")


# ------------------------------------------------------------------------------ comprehensions


def pure_eval(it, st, node) -> V:
    """Evaluate an expression that must not fork (used on generic elements)."""
    eng = it.eng
    saved = eng.oracle
    n0 = len(saved.trail)
    v = it.eval(st, node)
    if len(saved.trail) != n0:
        raise Unsupported(f"{it.site(node)}: comprehension body needs a case split on a generic element")
    return v


def pure_cond(it, st, node):
    """z3 Bool of a side-effect-free condition, without forking."""
    eng = it.eng
    if isinstance(node, ast.BoolOp):
        parts = [pure_cond(it, st, v) for v in node.values]
        return eng.z_and(parts) if isinstance(node.op, ast.And) else eng.z_or(parts)
    if isinstance(node, ast.UnaryOp) and isinstance(node.op, ast.Not):
        return eng.z_not(pure_cond(it, st, node.operand))
    v = pure_eval(it, st, node)
    return eng.truthy(st, v)


def comprehension(it, st, node, flavour: str) -> V:
    eng = it.eng
    if len(node.generators) != 1:
        raise Unsupported("nested comprehension")
    gen = node.generators[0]
    src = eng.unbox(st, it.eval(st, gen.iter))
    saved_env = dict(st.env)
    try:
        if isinstance(src, (VList, VTuple)):
            out = []
            for x in src.items:
                it.assign(st, gen.target, x)
                ok = True
                for cond in gen.ifs:
                    if not it.eval_cond(st, cond, label=f"comp-if@{node.lineno}"):
                        ok = False
                        break
                if ok:
                    out.append(it.eval(st, node.elt))
            if flavour == "set":
                return VTuple(out)
            return VList(out)
        if isinstance(src, VSeq):
            return symbolic_comprehension(it, st, node, gen, src, flavour)
        if isinstance(src, VHeapDict):
            raise Unsupported("comprehension over heap dict")
        if (isinstance(src, VGen) and src.name == "repo-generator" and getattr(src.payload, "contract", None) is not None
                and not gen.ifs and isinstance(gen.target, ast.Name) and isinstance(node.elt, ast.Name) and node.elt.id == gen.target.id and flavour == "list"):
            # [x for x in G()] / [x async for x in G()] over a generator of the repository that is under contract: the
            # generator is drained - the result is the (fresh) sequence of everything it yields, or it raises what the
            # generator's contract lets it raise.  One event `iter.drain` carries the sequence for the caller's contract.
            con = src.payload.contract
            fi = eng.repo.func(eng.tree_name(con.key))
            label = f"drain:{con.key.rsplit('.', 1)[-1]}@{node.lineno}"
            if (fi.is_async if fi is not None else True) and eng.tree == "async":
                it.suspend(st, label)
            raises = [r for r in (con.call_raises if con.call_raises is not None else (con.raises or [])) if r != "GeneratorExit"]
            if eng.tree != "async" or st.shield > 0:
                raises = [r for r in raises if r != "Cancelled"]
            names = ["drained"] + [r.rsplit(".", 1)[-1] for r in raises]
            k = eng.choose(st, len(names), label, names)
            if con.modifies:
                eng.havoc_heap(st, keys=set(con.modifies), keep_local=False)
            ev = it.emit(st, "iter.drain", node, source=con.key, generator=src)
            if k > 0:
                eng.raise_(st, raises[k - 1], tag={"from": label})
            r = eng.fresh(st, "seq:" + con.item_kind, "drained")
            ev.data["result"] = r
            return r
        raise Unsupported(f"{it.site(node)}: comprehension over {src!r}")
    finally:
        names = it.assigned_names([gen.target])
        for n in names:
            if n in saved_env:
                st.env[n] = saved_env[n]
            else:
                st.env.pop(n, None)


# keys of the request/response `extensions` mappings that contracts talk about; a filtered copy of an
# opaque mapping is described by ground facts at these keys (plus every string literal of the
# enclosing function), never by a quantified axiom
EXT_KEY_VOCAB = ["timeout", "trace", "sni_hostname", "target", "connect", "read", "write", "pool",
                 "http_version", "reason_phrase", "network_stream", "stream_id"]


def dict_comprehension(it, st, node) -> V:
    """{k: v for k, v in M.items() if COND(k)} over an opaque mapping M: a fresh mapping R with, for
    every key literal c of the vocabulary, `c in R` <=> `c in M` and COND(c), and
    R.get(c, d) == (M.get(c, d) if COND(c) else d) for d in {None, {}}.  Anything else is unsupported."""
    eng = it.eng
    if len(node.generators) != 1:
        raise Unsupported(f"{it.site(node)}: nested dict comprehension")
    gen = node.generators[0]
    tgt = gen.target
    if not (isinstance(tgt, ast.Tuple) and len(tgt.elts) == 2 and all(isinstance(e, ast.Name) for e in tgt.elts)
            and isinstance(node.key, ast.Name) and node.key.id == tgt.elts[0].id
            and isinstance(node.value, ast.Name) and node.value.id == tgt.elts[1].id
            and isinstance(gen.iter, ast.Call) and isinstance(gen.iter.func, ast.Attribute)
            and gen.iter.func.attr == "items" and not gen.iter.args):
        raise Unsupported(f"{it.site(node)}: dict comprehension other than a key-filtered copy")
    src = eng.unbox(st, it.eval(st, gen.iter.func.value))
    if isinstance(src, VDict):
        out = {}
        saved_env = dict(st.env)
        for k, v in src.items.items():
            st.env[tgt.elts[0].id] = _key_value(k)
            st.env[tgt.elts[1].id] = v
            if all(it.eval_cond(st, c, label=f"dictcomp-if@{node.lineno}") for c in gen.ifs):
                out[k] = v
        st.env.clear(); st.env.update(saved_env)
        return VDict(out)
    if not isinstance(src, VVal):
        raise Unsupported(f"{it.site(node)}: dict comprehension over {src!r}")
    st.counter += 1
    r = z3.Const(f"dictcomp!{st.counter}", ValS)
    eng.assume(st, r != none_val)  # a comprehension yields a dict object, never None
    vocab = list(EXT_KEY_VOCAB)
    fn = it.fi.node if getattr(it, "fi", None) is not None else None
    for n in ast.walk(fn) if fn is not None else []:
        if isinstance(n, ast.Constant) and isinstance(n.value, str) and n.value not in vocab and len(n.value) < 40:
            vocab.append(n.value)
    saved_env = dict(st.env)
    try:
        for c in vocab:
            st.env[tgt.elts[0].id] = VStr(z3.StringVal(c))
            st.counter += 1
            st.env[tgt.elts[1].id] = VVal(dget(src.t, z3.StringVal(c), none_val))
            cond = eng.z_and([pure_cond(it, st, ci) for ci in gen.ifs]) if gen.ifs else z3.BoolVal(True)
            cs = z3.StringVal(c)
            eng.assume(st, dhas(r, cs) == z3.And(dhas(src.t, cs), cond))
            for d in (none_val, empty_dict_val):
                eng.assume(st, dget(r, cs, d) == z3.If(cond, dget(src.t, cs, d), d))
    finally:
        st.env.clear(); st.env.update(saved_env)
    return VVal(r)


def _is_eta_hdr(t, x):
    """mk_hdr(hk(x), hv(x)) is x (datatype eta rule)"""
    t = z3.simplify(t)
    if z3.is_app(t) and t.decl().name() == "mk_hdr" and t.num_args() == 2:
        a, b = t.arg(0), t.arg(1)
        return (
            z3.is_app(a) and a.decl().name() == "hk" and z3.eq(a.arg(0), x)
            and z3.is_app(b) and b.decl().name() == "hv" and z3.eq(b.arg(0), x)
        )
    return False


class FilterMap:
    """Structural record of r = [E(x) for x in s if P(x)] (kept for contracts)."""

    def __init__(self, src, x, P, E, elem_kind):
        self.src = src
        self.x = x
        self.P = P
        self.E = E
        self.elem_kind = elem_kind


# -- named (uninterpreted) quantifier abstraction -----------------------------------------------
# `exists x in s. B(x, params)` and `[E(x) for x in s if P(x)]` are represented by uninterpreted
# functions named after the normalised body with its x-free maximal subterms abstracted as
# parameters.  Equal bodies (up to z3 simplification) give the same function symbol, so code and
# specification meet syntactically; different bodies are unrelated symbols (sound: only
# provability is lost).  Concat / Unit / Empty sources are unfolded by definition.

_NAMED: dict = {}


def _contains_const(t, x):
    if z3.eq(t, x):
        return True
    return any(_contains_const(c, x) for c in t.children())


def _abstract(body, x):
    """-> (canonical key, params list)"""
    params = []

    def find(t):
        if not _contains_const(t, x):
            if z3.is_int_value(t) or z3.is_true(t) or z3.is_false(t):
                return t  # tiny literals stay in the body
            for i, p in enumerate(params):
                if z3.eq(p, t):
                    return z3.Const(f"$p{i}", t.sort())
            params.append(t)
            return z3.Const(f"$p{len(params) - 1}", t.sort())
        if z3.eq(t, x):
            return z3.Const("$bx", x.sort())
        if z3.is_app(t) and t.num_args() > 0:
            kids = [find(c) for c in t.children()]
            try:
                return t.decl()(*kids)
            except Exception:
                return z3.substitute(t, *[(c, k) for c, k in zip(t.children(), kids)])
        return t

    canon = find(z3.simplify(body))
    return canon, params


def _named_fn(prefix, key, dom, rng):
    if key not in _NAMED:
        _NAMED[key] = z3.Function(f"{prefix}_{len(_NAMED)}", *dom, rng)
    return _NAMED[key]


def _seq_parts(t):
    """decompose a Seq term into ('concat', parts) / ('unit', elem) / ('empty',) / ('atom', t)"""
    if z3.is_app(t):
        k = t.decl().kind()
        if k == z3.Z3_OP_SEQ_CONCAT:
            return ("concat", list(t.children()))
        if k == z3.Z3_OP_SEQ_UNIT:
            return ("unit", t.arg(0))
        if k == z3.Z3_OP_SEQ_EMPTY:
            return ("empty",)
    return ("atom", t)


def exists_in(src_t, x, body):
    """z3 Bool for  exists x in src. body  (x: z3 const of the element sort)"""
    body = z3.simplify(body) if not isinstance(body, bool) else z3.BoolVal(body)
    if z3.is_false(body):
        return z3.BoolVal(False)
    # distribute over disjunction so that  any(a or b)  meets  has(a) or has(b)
    if z3.is_or(body):
        return z3.Or(*[exists_in(src_t, x, c) for c in body.children()])
    parts = _seq_parts(z3.simplify(src_t))
    if parts[0] == "concat":
        return z3.Or(*[exists_in(p, x, body) for p in parts[1]])
    if parts[0] == "unit":
        return z3.substitute(body, (x, parts[1]))
    if parts[0] == "empty":
        return z3.BoolVal(False)
    canon, params = _abstract(body, x)
    key = ("ex", canon.sexpr(), str(x.sort()), tuple(str(p.sort()) for p in params))
    f = _named_fn("ex", key, [src_t.sort()] + [p.sort() for p in params], BoolS)
    return f(parts[1], *params)


def filter_map(src_t, x, P, E, out_sort):
    """z3 Seq term for [E(x) for x in src if P(x)]"""
    P = z3.simplify(P) if not isinstance(P, bool) else z3.BoolVal(P)
    E = z3.simplify(E)
    if _is_eta_hdr(E, x):
        E = x
    if z3.is_true(P) and z3.eq(E, x):
        return src_t
    parts = _seq_parts(z3.simplify(src_t))
    if parts[0] == "concat":
        return z3.Concat(*[filter_map(p, x, P, E, out_sort) for p in parts[1]])
    if parts[0] == "unit":
        h = parts[1]
        return z3.If(z3.substitute(P, (x, h)), z3.Unit(z3.substitute(E, (x, h))), z3.Empty(z3.SeqSort(out_sort)))
    if parts[0] == "empty":
        return z3.Empty(z3.SeqSort(out_sort))
    pair = z3.If(P, z3.Unit(E), z3.Empty(z3.SeqSort(out_sort)))
    canon, params = _abstract(pair, x)
    key = ("fm", canon.sexpr(), str(x.sort()), tuple(str(p.sort()) for p in params))
    f = _named_fn("fm", key, [src_t.sort()] + [p.sort() for p in params], z3.SeqSort(out_sort))
    return f(parts[1], *params)


def filter_map_step(src_t, i, x, P, E, out_sort):
    """instance of the defining recursion of filter_map at index i (sound by definition):
    fm(src[0:i+1]) == fm(src[0:i]) ++ (P(src[i]) ? [E(src[i])] : [])"""
    P = z3.simplify(P) if not isinstance(P, bool) else z3.BoolVal(P)
    e = src_t[i]
    lhs = filter_map(z3.SubSeq(src_t, 0, i + 1), x, P, E, out_sort)
    rhs = z3.Concat(filter_map(z3.SubSeq(src_t, 0, i), x, P, E, out_sort), z3.If(z3.substitute(P, (x, e)), z3.Unit(z3.substitute(E, (x, e))), z3.Empty(z3.SeqSort(out_sort))))
    return lhs == rhs


def symbolic_comprehension(it, st, node, gen, src: VSeq, flavour: str) -> V:
    eng = it.eng
    st.counter += 1
    tag = st.counter
    x = z3.Const(f"cx!{tag}", sort_of_kind(src.elem))
    xv = wrap(src.elem, x)
    it.assign(st, gen.target, xv)
    npc = len(st.pc)
    P = eng.z_and([pure_cond(it, st, c) for c in gen.ifs]) if gen.ifs else True
    if isinstance(node.elt, (ast.BoolOp, ast.Compare)) or (isinstance(node.elt, ast.UnaryOp) and isinstance(node.elt.op, ast.Not)):
        ev = VBool(eng.z_bool(pure_cond(it, st, node.elt)))
    else:
        ev = pure_eval(it, st, node.elt)
    # facts assumed about the generic element (alive-ness etc.) mention only the bound placeholder,
    # which is abstracted away below: drop them instead of keeping facts about a free constant
    del st.pc[npc:]
    if flavour in ("gen", "set"):
        # consumed by any()/set(): hand back the structure
        return VGen("comp", FilterMap(src, x, P, ev, getattr(ev, "kind", "?")))
    # list result
    if isinstance(ev, VTuple) and len(ev.items) == 2:
        ev = eng.coerce(st, ev, "hdr")
    if not hasattr(ev, "t"):
        raise Unsupported(f"{it.site(node)}: comprehension element {ev!r}")
    ek = ev.kind
    Pz = eng.z_bool(P)
    r = filter_map(src.t, x, Pz, ev.t, sort_of_kind(ek))
    rv = VSeq(r, ek)
    fm = FilterMap(src, x, Pz, ev, ek)
    st.ghost.setdefault("fm", []).append((r, fm))
    # sound consequences of the definition that the callers in this package rely on
    facts = [z3.Length(r) <= z3.Length(src.t)]
    if z3.eq(z3.simplify(ev.t), x) or _is_eta_hdr(ev.t, x):
        # a filter: the first kept element is an element of the source that satisfies P;
        # an empty result means no element of interest satisfies P (instantiated on demand by
        # contracts through st.ghost['fm'])
        facts.append(
            z3.Implies(
                z3.Length(r) > 0,
                z3.And(z3.Contains(src.t, z3.Unit(r[0])), z3.substitute(Pz, (x, r[0]))),
            )
        )
        # a filter is empty exactly when no element satisfies the predicate (definition)
        facts.append((z3.Length(r) == 0) == z3.Not(exists_in(src.t, x, Pz)))
    elif z3.is_true(z3.simplify(Pz)):
        facts.append(z3.Length(r) == z3.Length(src.t))
    for f in facts:
        eng.assume(st, f)
    return rv


# ------------------------------------------------------------------------------ builtin functions


def bi_len(it, st, args, kwargs, node):
    eng = it.eng
    v = eng.unbox(st, args[0])
    if isinstance(v, (VBytes, VStr, VSeq)):
        return VInt(z3.Length(v.t))
    if isinstance(v, (VList, VTuple)):
        return VInt(len(v.items))
    if isinstance(v, VDict):
        return VInt(len(v.items))
    if isinstance(v, VHeapDict):
        return VInt(v.size(eng, st))
    if type(v).__name__ == "VHdr":
        return VInt(2)
    if isinstance(v, VVal):
        f = z3.Function("len_val", ValS, IntS)
        eng.assume(st, f(v.t) >= 0)
        return VInt(f(v.t))
    raise Unsupported(f"{it.site(node)}: len of {v!r}")


def _minmax(is_min):
    def f(it, st, args, kwargs, node):
        eng = it.eng
        if len(args) == 1:
            raise Unsupported("min/max of iterable")
        vals = [eng.unbox(st, a) for a in args]
        if all(isinstance(v, VInt) for v in vals):
            r = vals[0].t
            for v in vals[1:]:
                r = z3.If(v.t < r, v.t, r) if is_min else z3.If(v.t > r, v.t, r)
            return VInt(r)
        if all(isinstance(v, (VInt, VReal)) for v in vals):
            ts = [eng.coerce(st, v, "real").t for v in vals]
            r = ts[0]
            for t in ts[1:]:
                r = z3.If(t < r, t, r) if is_min else z3.If(t > r, t, r)
            return VReal(r)
        if all(isinstance(v, (VInt, VReal, VVal)) for v in vals):
            # opaque operands are taken to be numbers (the code guards them with `is not None`);
            # the result is one of the operands, as in Python
            ts = [(eng.coerce(st, v, "real").t, eng.to_val(st, v).t) for v in vals]
            r, rv = ts[0]
            for t, tv in ts[1:]:
                c = (t < r) if is_min else (t > r)
                r, rv = z3.If(c, t, r), z3.If(c, tv, rv)
            eng.assume(st, z3.Function("real_of_val", ValS, RealS)(rv) == r)
            return VVal(rv)
        raise Unsupported(f"{it.site(node)}: min/max of {vals!r}")

    return f


def bi_isinstance(it, st, args, kwargs, node):
    eng = it.eng
    v = eng.unbox(st, args[0])
    cls = eng.unbox(st, args[1])
    classes = cls.items if isinstance(cls, VTuple) else [cls]
    names = []
    for c in classes:
        if isinstance(c, VRef):
            # sentinel "types" (h11.PAUSED / NEED_DATA are their own type): registered by sidecars
            sn = eng.reg.__dict__.get("sentinel_classes", {}).get(_const_int(c.t))
            if sn is None:
                raise Unsupported(f"{it.site(node)}: isinstance against {c!r}")
            names.append(sn)
            continue
        if not isinstance(c, VClass):
            raise Unsupported(f"{it.site(node)}: isinstance against {c!r}")
        names.append(c.name)
    pykinds = {
        "bytes": VBytes,
        "str": VStr,
        "int": (VInt, VBool),
        "bool": VBool,
        "float": VReal,
        "list": (VList, VSeq),
        "tuple": VTuple,
        "dict": (VDict, VHeapDict),
    }
    if isinstance(v, (VBytes, VStr, VInt, VBool, VReal, VList, VSeq, VTuple, VDict, VNone, VHeapDict)):
        res = False
        for n in names:
            k = pykinds.get(n)
            if k is not None and isinstance(v, k):
                res = True
            if n in ("typing.Sequence",) and isinstance(v, (VList, VSeq, VTuple)):
                res = True
            if n in ("typing.Mapping",) and isinstance(v, (VDict, VHeapDict)):
                res = True
            if n in ("typing.Iterable", "typing.AsyncIterable") and isinstance(v, (VList, VSeq, VTuple)) and n == "typing.Iterable":
                res = True
        return VBool(res)
    if isinstance(v, VExc):
        return VBool(any(eng.classes.issub(v.cls, n) for n in names))
    if isinstance(v, VRef):
        h = eng.reg.__dict__.get("isinstance_hooks", {})
        parts = []
        for n in names:
            hook = h.get(n)
            if hook is not None:
                parts.append(hook(it, st, v))
                continue
            if n in pykinds or n in ("typing.Mapping", "typing.Sequence"):
                parts.append(False)  # an object reference is not a builtin scalar / container
                continue
            # static class knowledge first
            if eng.classes.issub(v.cls, n):
                parts.append(v.t != 0)
                continue
            subs = [k for k in eng.classes.all_known() if eng.classes.issub(k, n)]
            if not subs:
                raise Unsupported(f"{it.site(node)}: isinstance({v!r}, {n}) without class knowledge")
            from .engine import typ

            parts.append(z3.And(v.t != 0, z3.Or(*[typ(v.t) == eng.classes.cid(k) for k in sorted(subs)])))
        return VBool(eng.z_bool(eng.z_or(parts)))
    if isinstance(v, VVal):
        parts = []
        for n in names:
            f = z3.Function("isinst_" + n.replace(".", "_"), ValS, BoolS)
            parts.append(f(v.t))
        return VBool(eng.z_bool(eng.z_or(parts)))
    raise Unsupported(f"{it.site(node)}: isinstance on {v!r}")


def bi_list(it, st, args, kwargs, node):
    eng = it.eng
    if not args:
        return VList([])
    v = eng.unbox(st, args[0])
    if isinstance(v, VList):
        return VList(v.items)
    if isinstance(v, VTuple):
        return VList(v.items)
    if isinstance(v, VSeq):
        return VSeq(v.t, v.elem)
    if isinstance(v, VVal):
        hint = kwargs.get("$elem")
        raise Unsupported(f"{it.site(node)}: list() of opaque value")
    raise Unsupported(f"{it.site(node)}: list({v!r})")


def bi_set(it, st, args, kwargs, node):
    eng = it.eng
    if not args:
        return VTuple([])
    v = eng.unbox(st, args[0])
    if isinstance(v, (VList, VTuple)):
        return VTuple(v.items)
    if isinstance(v, VGen) and v.name == "comp":
        fm = v.payload

        def member(eng_, st_, y, fm=fm):
            yv = eng_.coerce(st_, y, fm.E.kind)
            return exists_in(fm.src.t, fm.x, z3.And(eng_.z_bool(fm.P), fm.E.t == yv.t))

        s = VSet(member, fm.E.kind)
        s.fm = fm
        return s
    raise Unsupported(f"{it.site(node)}: set({v!r})")


def bi_any(it, st, args, kwargs, node):
    eng = it.eng
    v = eng.unbox(st, args[0])
    if isinstance(v, (VList, VTuple)):
        return VBool(eng.z_bool(eng.z_or([eng.truthy(st, x) for x in v.items])))
    if isinstance(v, VGen) and v.name == "comp":
        fm = v.payload
        t = eng.truthy(st, fm.E)
        return VBool(exists_in(fm.src.t, fm.x, z3.And(eng.z_bool(fm.P), eng.z_bool(t))))
    raise Unsupported(f"{it.site(node)}: any({v!r})")


def _bi_callable(it, st, args, node):
    v = it.eng.unbox(st, args[0])
    if isinstance(v, (VFunc, VClass)):
        return VBool(True)
    if isinstance(v, (VInt, VReal, VBool, VBytes, VStr, VNone, VList, VTuple, VDict, VSeq)):
        return VBool(False)
    raise Unsupported(f"{it.site(node)}: callable({v!r})")


def bi_getattr(it, st, args, kwargs, node):
    """getattr(obj, "literal"[, default]) on a module (feature test) or an object"""
    eng = it.eng
    obj = eng.unbox(st, args[0])
    name = const_str(args[1].t) if isinstance(args[1], VStr) else None
    if name is None:
        raise Unsupported(f"{it.site(node)}: getattr with a computed name")
    if isinstance(obj, VModule):
        dotted = obj.name + "." + name
        if dotted in eng.reg.intrinsics:
            return VFunc(dotted)
        if dotted in eng.reg.consts:
            return eng.reg.consts[dotted]
        if len(args) > 2:
            return args[2]
        raise Unsupported(f"{it.site(node)}: getattr({obj.name}, {name!r}) without default")
    return it.getattr(st, obj, name, node)


def bi_all(it, st, args, kwargs, node):
    """all(...) = not any(not ...)"""
    eng = it.eng
    v = eng.unbox(st, args[0])
    if isinstance(v, (VList, VTuple)):
        return VBool(eng.z_bool(eng.z_and([eng.truthy(st, x) for x in v.items])))
    if isinstance(v, VGen) and v.name == "comp":
        fm = v.payload
        t = eng.truthy(st, fm.E)
        return VBool(z3.Not(exists_in(fm.src.t, fm.x, z3.And(eng.z_bool(fm.P), z3.Not(eng.z_bool(t))))))
    raise Unsupported(f"{it.site(node)}: all({v!r})")


def count_in(src_t, x, body):
    """z3 Int: number of elements x of src with body(x) (named, unfolded over concat/unit/empty)"""
    body = z3.simplify(body) if not isinstance(body, bool) else z3.BoolVal(body)
    parts = _seq_parts(z3.simplify(src_t))
    if parts[0] == "concat":
        return z3.Sum([count_in(p, x, body) for p in parts[1]])
    if parts[0] == "unit":
        return z3.If(z3.substitute(body, (x, parts[1])), z3.IntVal(1), z3.IntVal(0))
    if parts[0] == "empty":
        return z3.IntVal(0)
    canon, params = _abstract(body, x)
    key = ("cnt", canon.sexpr(), str(x.sort()), tuple(str(p.sort()) for p in params))
    f = _named_fn("cnt", key, [src_t.sort()] + [p.sort() for p in params], IntS)
    return f(parts[1], *params)


def bi_sum(it, st, args, kwargs, node):
    eng = it.eng
    v = eng.unbox(st, args[0])
    if isinstance(v, VGen) and v.name == "comp":
        fm = v.payload
        if isinstance(fm.E, VBool):
            n = count_in(fm.src.t, fm.x, z3.And(eng.z_bool(fm.P), fm.E.t))
            eng.assume(st, z3.And(n >= 0, n <= z3.Length(fm.src.t)))
            return VInt(n)
    if isinstance(v, (VList, VTuple)) and all(isinstance(x, (VInt, VBool)) for x in v.items):
        return VInt(z3.Sum([eng.coerce(st, x, "int").t for x in v.items]) if v.items else z3.IntVal(0))
    raise Unsupported(f"{it.site(node)}: sum({v!r})")


def bi_str(it, st, args, kwargs, node):
    eng = it.eng
    if not args:
        return VStr("")
    v = eng.unbox(st, args[0])
    if isinstance(v, VInt):
        return VStr(dec_s(v.t))
    if isinstance(v, VStr):
        return v
    st.counter += 1
    return VStr(z3.String(f"str!{st.counter}"))


def bi_bytes(it, st, args, kwargs, node):
    eng = it.eng
    if not args:
        return VBytes(b"")
    v = eng.unbox(st, args[0])
    if isinstance(v, VBytes):
        return v
    if isinstance(v, VVal):
        return VBytes(bytes_of_val(v.t))
    if isinstance(v, VRef):
        h = eng.reg.find_method_stub(eng, v.cls, "__bytes__")
        if h is not None:
            return h(it, st, v, [], {}, node)
        tcls = eng.tree_name(v.cls)
        fi = eng.repo.find_method(tcls, "__bytes__")
        if fi is not None:
            return it.call_repo(st, eng.canon(fi.key), v, [], {}, node)
    raise Unsupported(f"{it.site(node)}: bytes({v!r})")


def bi_int(it, st, args, kwargs, node):
    eng = it.eng
    v = eng.unbox(st, args[0])
    if isinstance(v, VInt):
        return v
    if isinstance(v, VStr):
        # int(str): ValueError unless the text is a decimal literal
        ok = z3.Function("is_decimal_str", StrS, BoolS)(v.t)
        if not eng.branch(st, ok, f"int-parses@{node.lineno}"):
            eng.raise_(st, "ValueError", tag={"site": it.site(node), "why": "int() of non-numeric text"})
        return VInt(z3.Function("int_of_str", StrS, IntS)(v.t))
    if isinstance(v, VVal):
        return VInt(int_of_val(v.t))
    raise Unsupported(f"{it.site(node)}: int({v!r})")


def bi_float(it, st, args, kwargs, node):
    v = it.eng.unbox(st, args[0])
    if isinstance(v, VStr):
        s = const_str(v.t)
        if s == "inf":
            return VVal(z3.Const("float_inf", ValS))
    if isinstance(v, (VInt, VReal)):
        return it.eng.coerce(st, v, "real")
    raise Unsupported(f"{it.site(node)}: float({v!r})")


def bi_range(it, st, args, kwargs, node):
    eng = it.eng
    if len(args) != 1:
        raise Unsupported("range with start/step")
    n = eng.coerce(st, args[0], "int")
    c = _const_int(n.t)
    if c is not None and c <= 8:
        return VList([VInt(i) for i in range(c)])
    from .registry import IterHandler

    class RangeIter(IterHandler):
        def __init__(self):
            self.i_name = None

        def next(self_h, it_, st_):
            # arbitrary iteration i with 0 <= i < n
            i = eng.fresh(st_, "int", "range_i")
            more = eng.choose(st_, 2, f"range-more@{node.lineno}", ["more", "done"]) == 0
            if not more:
                return None
            eng.assume(st_, z3.And(i.t >= 0, i.t < n.t))
            return i

    return VGen("range", RangeIter())


def bi_hasattr(it, st, args, kwargs, node):
    eng = it.eng
    v = eng.unbox(st, args[0])
    name = const_str(args[1].t)
    if isinstance(v, VRef):
        if eng.field_kind(v.cls, name) is not None:
            hk = eng.reg.__dict__.get("hasattr_hooks", {}).get((v.cls, name))
            if hk is not None:
                return hk(it, st, v)
            return VBool(True)
        tcls = eng.tree_name(v.cls)
        if eng.repo.find_method(tcls, name) is not None or eng.reg.find_method_stub(eng, v.cls, name):
            return VBool(True)
        hk = eng.reg.__dict__.get("hasattr_hooks", {}).get((v.cls, name))
        if hk is not None:
            return hk(it, st, v)
        return VBool(False)
    if isinstance(v, VVal):
        f = z3.Function("hasattr_" + name, ValS, BoolS)
        return VBool(f(v.t))
    raise Unsupported(f"{it.site(node)}: hasattr({v!r}, {name})")


def bi_next(it, st, args, kwargs, node):
    eng = it.eng
    v = eng.unbox(st, args[0])
    if isinstance(v, VGen):
        h = v.payload
        nx = getattr(h, "next_value", None)
        if nx is not None:
            return nx(it, st)
    raise Unsupported(f"{it.site(node)}: next({v!r})")


def bi_type(it, st, args, kwargs, node):
    v = it.eng.unbox(st, args[0])
    names = {VBytes: "bytes", VStr: "str", VInt: "int", VBool: "bool", VReal: "float", VNone: "NoneType", VList: "list", VTuple: "tuple", VDict: "dict"}
    for k, n in names.items():
        if type(v) is k:
            return VClass(n)
    if isinstance(v, VRef):
        return VClass(v.cls)
    if isinstance(v, VSeq):
        return VClass("list")  # symbolic sequences stand for python lists
    if type(v).__name__ == "VHdr":
        return VClass("tuple")  # an element of a header list is a (bytes, bytes) pair
    # the class of an opaque value is not known: refusing is sound, answering with a fresh class name made every
    # `type(x) is C` test False (found with seed C03-w4-1, whose new fast path was silently treated as dead code)
    raise Unsupported(f"{it.site(node)}: type() of {v!r}")


def bi_repr(it, st, args, kwargs, node):
    st.counter += 1
    return VStr(z3.String(f"repr!{st.counter}"))


def bi_bool(it, st, args, kwargs, node):
    if not args:
        return VBool(False)
    return VBool(it.eng.z_bool(it.eng.truthy(st, args[0])))


BUILTIN_FUNCS = {
    "len": bi_len,
    "min": _minmax(True),
    "max": _minmax(False),
    "isinstance": bi_isinstance,
    "any": bi_any,
    "range": bi_range,
    "hasattr": bi_hasattr,
    "all": bi_all,
    "getattr": bi_getattr,
    "callable": lambda it, st, args, kwargs, node: _bi_callable(it, st, args, node),
    "next": bi_next,
    "type": bi_type,
    "repr": bi_repr,
    "sum": bi_sum,
}

BUILTIN_CLASSES = {
    "list": bi_list,
    "set": bi_set,
    "str": bi_str,
    "bytes": bi_bytes,
    "int": bi_int,
    "float": bi_float,
    "bool": bi_bool,
    "tuple": lambda it, st, a, k, n: VTuple(it.eng.unbox(st, a[0]).items) if a else VTuple([]),
    "dict": lambda it, st, a, k, n: VDict({}),
}


# ------------------------------------------------------------------------------ builtin methods


def call_builtin_method(it, st, recv: V, name: str, args, kwargs, node) -> V:
    eng = it.eng
    if isinstance(recv, VBytes):
        if name == "decode":
            enc = const_str(args[0].t) if args else "utf-8"
            if enc not in ("ascii", "utf-8"):
                raise Unsupported(f"decode({enc})")
            lenient = "errors" in kwargs or len(args) > 1
            if enc == "ascii" and not lenient:
                ok = z3.Function("is_ascii_bytes", BytesS, BoolS)(recv.t)
                lit = const_bytes(recv.t)
                if lit is not None:
                    ok = all(b < 128 for b in lit)
                if not eng.branch(st, ok, f"decodes-as-ascii@{node.lineno}"):
                    eng.raise_(st, "UnicodeDecodeError", tag={"site": it.site(node)})
            # instance of the ASCII round-trip law for this term (decoding is injective)
            eng.assume(st, encode_ascii(decode_ascii(recv.t)) == recv.t)
            return VStr(decode_ascii(recv.t))
        if name == "lower":
            return VBytes(lower_b(recv.t))
        if name == "startswith":
            p = eng.coerce(st, args[0], "bytes")
            return VBool(z3.PrefixOf(p.t, recv.t))
        if name == "join":
            v = eng.unbox(st, args[0])
            if isinstance(v, VList):
                out = None
                sep = recv.t
                for i, x in enumerate(v.items):
                    xt = eng.coerce(st, x, "bytes").t
                    out = xt if out is None else z3.Concat(out, sep, xt)
                return VBytes(out if out is not None else z3.Empty(BytesS))
            if isinstance(v, VSeq) and v.elem == "bytes":
                f = z3.Function("join_bytes", BytesS, z3.SeqSort(BytesS), BytesS)
                return VBytes(f(recv.t, v.t))
    if isinstance(recv, VStr):
        if name == "encode":
            enc = const_str(args[0].t) if args else "utf-8"
            if enc is None:
                raise Unsupported("encode(<computed codec>)")
            if enc.lower().replace("_", "-") != "ascii":
                # any other codec: agrees with ascii on ascii text; on other text it either raises UnicodeEncodeError
                # (never for utf-8) or yields codec-specific bytes (uninterpreted)
                codec = enc.lower().replace("-", "").replace("_", "")
                lit = const_str(recv.t)
                if lit is not None:
                    try:
                        return VBytes(lit.encode(enc))
                    except UnicodeEncodeError:
                        eng.raise_(st, "UnicodeEncodeError")
                is_ascii = z3.Function("is_ascii_str", StrS, BoolS)(recv.t)
                if eng.branch(st, is_ascii, f"is-ascii@{node.lineno}"):
                    return VBytes(encode_ascii(recv.t))
                if codec not in ("utf8",):
                    encodable = z3.Function(f"encodable_{codec}", StrS, BoolS)(recv.t)
                    if not eng.branch(st, encodable, f"encodable-{codec}@{node.lineno}"):
                        eng.raise_(st, "UnicodeEncodeError")
                return VBytes(z3.Function(f"encode_{codec}", StrS, BytesS)(recv.t))
            lit = const_str(recv.t)
            if lit is not None:
                is_ascii = all(ord(ch) < 128 for ch in lit)
                if is_ascii:
                    return VBytes(lit.encode("ascii"))
            else:
                is_ascii = z3.Function("is_ascii_str", StrS, BoolS)(recv.t)
            if not eng.branch(st, is_ascii, f"is-ascii@{node.lineno}"):
                eng.raise_(st, "UnicodeEncodeError")
            return VBytes(encode_ascii(recv.t))
        if name == "split":
            st.counter += 1
            return VVal(z3.Const(f"split!{st.counter}", ValS))
    if isinstance(recv, VVal):
        if name == "get":
            k = args[0]
            if not isinstance(k, VStr):
                k = eng.coerce(st, k, "str") if isinstance(k, VVal) else k
            if not isinstance(k, VStr):
                # non-string key into an opaque mapping: uninterpreted lookup by boxed key
                kv = eng.to_val(st, k)
                f = z3.Function("dget_v", ValS, ValS, ValS, ValS)
                d = eng.to_val(st, args[1]) if len(args) > 1 else VVal(none_val)
                return VVal(f(recv.t, kv.t, d.t))
            d = args[1] if len(args) > 1 else kwargs.get("default", NONE)
            dv = eng.to_val(st, d)
            return VVal(dget(recv.t, k.t, dv.t))
        if name == "decode":
            return call_builtin_method(it, st, VBytes(bytes_of_val(recv.t)), name, args, kwargs, node)
        if name == "lower":
            return VBytes(lower_b(bytes_of_val(recv.t)))
        h = eng.reg.__dict__.get("val_methods", {}).get(name)
        if h is not None:
            return h(it, st, recv, args, kwargs, node)
        if name == "items":
            raise Unsupported("items() of opaque mapping")
    if isinstance(recv, VDict):
        if name == "get":
            try:
                k = py_key(args[0])
            except Unsupported:
                r = dict_lookup_symbolic(it, st, recv, args[0], node)
                if len(args) > 1 and not isinstance(args[1], VNone):
                    d = args[1]
                    if d.kind != r.val.kind:
                        raise Unsupported("dict.get default of another kind")
                    return wrap(d.kind, z3.If(r.none, d.t, r.val.t))
                return r
            if k in recv.items:
                return recv.items[k]
            return args[1] if len(args) > 1 else NONE
        if name == "items":
            return VList([VTuple([_key_value(k), v]) for k, v in recv.items.items()])
        if name == "values":
            return VList(list(recv.items.values()))
        if name == "keys":
            return VList([_key_value(k) for k in recv.items])
    if isinstance(recv, VHeapDict):
        if name == "get":
            k = eng.coerce(st, args[0], recv.kk)
            has = recv.has(eng, st, k.t)
            if eng.branch(st, has, f"dict-get-hit@{node.lineno}"):
                lv = recv.get(eng, st, k.t)
                lv.loc = ("heapdict", recv, k.t)
                return lv
            return args[1] if len(args) > 1 else NONE
    if isinstance(recv, (VList, VSeq)):
        return list_method(it, st, recv, name, args, kwargs, node)
    if isinstance(recv, VOpt):
        if eng.branch(st, recv.none, f"none-receiver@{node.lineno}"):
            eng.raise_(st, "AttributeError")
        return call_builtin_method(it, st, recv.val, name, args, kwargs, node)
    raise Unsupported(f"{it.site(node)}: method {name} on {recv!r}")


def dict_lookup_symbolic(it, st, d: VDict, key: V, node) -> VOpt:
    """lookup of a symbolic key in a dict with concrete keys: Optional(ite chain)"""
    eng = it.eng
    vals = list(d.items.values())
    if not vals:
        return VOpt(True, VInt(0))
    kind = vals[0].kind
    if any(v.kind != kind for v in vals) or not hasattr(vals[0], "t"):
        raise Unsupported(f"{it.site(node)}: symbolic key into heterogeneous dict")
    res = None
    conds = []
    for k, v in reversed(list(d.items.items())):
        c = eng.z_bool(eng.eq(st, key, _key_value(k)))
        conds.append(c)
        res = v.t if res is None else z3.If(c, v.t, res)
    none = z3.Not(z3.Or(*conds)) if conds else z3.BoolVal(True)
    # first match wins: rebuild in forward order
    res = None
    for k, v in reversed(list(d.items.items())):
        c = eng.z_bool(eng.eq(st, key, _key_value(k)))
        res = v.t if res is None else z3.If(c, v.t, res)
    return VOpt(none, wrap(kind, res))


def _key_value(k):
    if isinstance(k, str):
        return VStr(k)
    if isinstance(k, bytes):
        return VBytes(k)
    if isinstance(k, int):
        return VInt(k)
    if isinstance(k, tuple) and k[0] == "class":
        return VClass(k[1])
    raise Unsupported(f"dict key {k!r}")


def list_method(it, st, recv, name, args, kwargs, node):
    """Mutating list methods write back through the receiver expression (value semantics;
    aliasing of list objects is outside the supported subset)."""
    eng = it.eng
    target = node.func.value  # ast of the receiver

    def note(op, value=None):
        it.emit(st, "list." + op, node, target=it.target_key(st, target, recv), target_src=ast.unparse(target), value=value, held=list(st.held), before=recv)

    def writeback(newv):
        loc = getattr(recv, "loc", None)
        if loc is not None and loc[0] == "heapdict":
            loc[1].set(eng, st, loc[2], newv)
            return
        it.assign(st, _as_store(target), newv)

    if name == "append":
        x = args[0]
        note("append", x)
        if isinstance(recv, VList):
            writeback(VList(recv.items + [x]))
        else:
            xv = eng.coerce(st, x, recv.elem)
            if isinstance(x, VRef):
                eng.escape(st, x)
            writeback(VSeq(z3.Concat(recv.t, z3.Unit(xv.t)), recv.elem))
        return NONE
    if name == "remove":
        x = args[0]
        if isinstance(recv, VList):
            raise Unsupported("remove on concrete list")
        xv = eng.coerce(st, x, recv.elem)
        note("remove", x)
        present = z3.Contains(recv.t, z3.Unit(xv.t))
        if not eng.branch(st, present, f"remove-present@{node.lineno}"):
            eng.raise_(st, "ValueError", tag={"site": it.site(node), "why": "list.remove(x): x not in list"})
        st.counter += 1
        a = z3.Const(f"rm_a!{st.counter}", z3.SeqSort(sort_of_kind(recv.elem)))
        b = z3.Const(f"rm_b!{st.counter}", z3.SeqSort(sort_of_kind(recv.elem)))
        eng.assume(st, z3.And(recv.t == z3.Concat(a, z3.Unit(xv.t), b), z3.Not(z3.Contains(a, z3.Unit(xv.t)))))
        writeback(VSeq(z3.Concat(a, b), recv.elem))
        return NONE
    if name == "pop":
        if isinstance(recv, VList):
            raise Unsupported("pop on concrete list")
        idx = _const_int(eng.coerce(st, args[0], "int").t) if args else -1
        note("pop", VInt(idx))
        n = z3.Length(recv.t)
        if not eng.branch(st, n > 0, f"pop-nonempty@{node.lineno}"):
            eng.raise_(st, "IndexError", tag={"site": it.site(node)})
        if idx == 0:
            v = wrap(recv.elem, recv.t[0])
            writeback(VSeq(z3.SubSeq(recv.t, 1, n - 1), recv.elem))
        elif idx == -1:
            v = wrap(recv.elem, recv.t[n - 1])
            writeback(VSeq(z3.SubSeq(recv.t, 0, n - 1), recv.elem))
        else:
            raise Unsupported("pop(i)")
        if isinstance(v, VRef):
            eng.assume(st, v.t != 0)  # lists of objects never hold None (list encoding)
            eng.assume_alive(st, v)
        return v
    if name == "count":
        x = args[0]
        if isinstance(recv, VList):
            parts = [z3.If(eng.z_bool(eng.eq(st, y, x)), 1, 0) for y in recv.items]
            return VInt(z3.Sum(parts) if parts else z3.IntVal(0))
        f = z3.Function("count_" + recv.elem.replace(":", "_"), z3.SeqSort(sort_of_kind(recv.elem)), sort_of_kind(recv.elem), IntS)
        return VInt(f(recv.t, eng.coerce(st, x, recv.elem).t))
    if name == "extend":
        other = eng.unbox(st, args[0])
        writeback(binop(it, st, ast.Add(), recv, other, node))
        return NONE
    raise Unsupported(f"{it.site(node)}: list method {name}")


def _as_store(node):
    import copy

    n = copy.copy(node)
    n.ctx = ast.Store()
    return n
