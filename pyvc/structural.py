"""Obligations decided on the ast without the solver (DESIGN 2.4 frames, C18 twin).

Each generator returns a list of {oid, kind, status, witness?}.  They are global scans over
the whole package, not only over functions under contract.
"""
from __future__ import annotations

import ast
import copy
import os
import re

from .source import Repo

ASYNC_DIR = "httpcore/_async"
SYNC_DIR = "httpcore/_sync"


# ------------------------------------------------------------------------------ C18: twin


class _EraseAsync(ast.NodeTransformer):
    """async def -> def, async with -> with, async for -> for, await x -> x, async comprehensions"""

    def visit_AsyncFunctionDef(self, node):
        self.generic_visit(node)
        new = ast.FunctionDef(**{f: getattr(node, f) for f in node._fields if hasattr(node, f)})
        return ast.copy_location(new, node)

    def visit_AsyncFor(self, node):
        self.generic_visit(node)
        return ast.copy_location(ast.For(**{f: getattr(node, f) for f in node._fields if hasattr(node, f)}), node)

    def visit_AsyncWith(self, node):
        self.generic_visit(node)
        return ast.copy_location(ast.With(**{f: getattr(node, f) for f in node._fields if hasattr(node, f)}), node)

    def visit_Await(self, node):
        self.generic_visit(node)
        return node.value

    def visit_comprehension(self, node):
        self.generic_visit(node)
        node.is_async = 0
        return node


def _func_index(tree):
    out = {}

    def visit(body, prefix):
        for n in body:
            if isinstance(n, (ast.FunctionDef, ast.AsyncFunctionDef)):
                out[prefix + n.name] = n
            elif isinstance(n, ast.ClassDef):
                out[prefix + n.name + " (class header)"] = ast.ClassDef(name=n.name, bases=n.bases, keywords=n.keywords, body=[x for x in n.body if not isinstance(x, (ast.FunctionDef, ast.AsyncFunctionDef))], decorator_list=n.decorator_list)
                visit(n.body, prefix + n.name + ".")

    visit(tree.body, "")
    return out


def _module_level(tree):
    return [n for n in tree.body if not isinstance(n, (ast.FunctionDef, ast.AsyncFunctionDef, ast.ClassDef))]


def _dump(n):
    return ast.dump(n, include_attributes=False)


def twin_obligations(repo: Repo, reg, prop):
    """sync f == erase_async(unasync(async f)) for every function of every twin file, plus file
    level: same files, same line count, every line equals the translated line, same module level."""
    out = []
    ua = repo.unasync
    adir = os.path.join(repo.root, ASYNC_DIR)
    sdir = os.path.join(repo.root, SYNC_DIR)
    afiles = sorted(f for f in os.listdir(adir) if f.endswith(".py"))
    sfiles = sorted(f for f in os.listdir(sdir) if f.endswith(".py"))
    out.append({"oid": "twin:file-sets-equal", "kind": "twin", "status": "discharged" if afiles == sfiles else "refuted", "witness": {"async_only": sorted(set(afiles) - set(sfiles)), "sync_only": sorted(set(sfiles) - set(afiles))}})
    out.append({"oid": "twin:substitution-table-read-from-scripts/unasync.py", "kind": "twin", "status": "discharged" if ua.from_script else "refuted", "witness": {"note": "scripts/unasync.py missing or SUBS not a literal"}})
    for fn in afiles:
        if fn not in sfiles:
            continue
        atext = open(os.path.join(adir, fn)).read()
        stext = open(os.path.join(sdir, fn)).read()
        alines = atext.splitlines(keepends=True)
        slines = stext.splitlines(keepends=True)
        translated = [ua.line(l) for l in alines]
        base = f"twin:{fn}"
        bad = [(i + 1, translated[i], slines[i]) for i in range(min(len(translated), len(slines))) if translated[i] != slines[i]]
        out.append({"oid": f"{base}:same-number-of-lines", "kind": "twin", "status": "discharged" if len(alines) == len(slines) else "refuted", "witness": {"async": len(alines), "sync": len(slines)}})
        out.append({"oid": f"{base}:every-line-is-the-translated-line", "kind": "twin", "status": "discharged" if not bad else "refuted", "witness": {"first_differences": [{"line": b[0], "expected": b[1], "actual": b[2]} for b in bad[:3]]}})
        # per function, on normal forms (so that one obligation names the function that diverged)
        try:
            ttree = _EraseAsync().visit(ast.parse("".join(translated)))
            stree = ast.parse(stext)
        except SyntaxError as e:
            out.append({"oid": f"{base}:parses", "kind": "twin", "status": "refuted", "witness": {"error": str(e)}})
            continue
        tf, sf = _func_index(ttree), _func_index(stree)
        out.append({"oid": f"{base}:same-functions-in-same-order", "kind": "twin", "status": "discharged" if list(tf) == list(sf) else "refuted", "witness": {"translated_only": [k for k in tf if k not in sf], "sync_only": [k for k in sf if k not in tf]}})
        out.append({"oid": f"{base}:module-level-statements-equal", "kind": "twin", "status": "discharged" if [_dump(x) for x in _module_level(ttree)] == [_dump(x) for x in _module_level(stree)] else "refuted"})
        for name in tf:
            if name in sf:
                ok = _dump(tf[name]) == _dump(sf[name])
                out.append({"oid": f"{base}:{name}", "kind": "twin", "status": "discharged" if ok else "refuted", "witness": None if ok else {"function": name, "file": fn}})
    out.extend(_paired_methods(repo))
    return out


# async/sync method pairs that live in ONE file (hand written, outside the translated trees)
PAIRS = [
    ("httpcore/_models.py", "Response.aread", "Response.read"),
    ("httpcore/_models.py", "Response.aiter_stream", "Response.iter_stream"),
    ("httpcore/_models.py", "Response.aclose", "Response.close"),
    ("httpcore/_models.py", "ByteStream.__aiter__", "ByteStream.__iter__"),
    ("httpcore/_backends/mock.py", "AsyncMockStream.read", "MockStream.read"),
    ("httpcore/_backends/mock.py", "AsyncMockStream.write", "MockStream.write"),
    ("httpcore/_backends/mock.py", "AsyncMockStream.aclose", "MockStream.close"),
    ("httpcore/_backends/mock.py", "AsyncMockStream.start_tls", "MockStream.start_tls"),
    ("httpcore/_backends/mock.py", "AsyncMockStream.get_extra_info", "MockStream.get_extra_info"),
    ("httpcore/_backends/mock.py", "AsyncMockBackend.connect_tcp", "MockBackend.connect_tcp"),
    ("httpcore/_backends/mock.py", "AsyncMockBackend.connect_unix_socket", "MockBackend.connect_unix_socket"),
    ("httpcore/_synchronization.py", "AsyncThreadLock.__enter__", "ShieldCancellation.__enter__"),
]


class _Normalise(ast.NodeTransformer):
    """identifier renaming through the unasync table; message strings and annotations dropped"""

    def __init__(self, ua):
        self.ua = ua

    def visit_Name(self, node):
        node.id = self.ua.line(node.id)
        return node

    def visit_Attribute(self, node):
        self.generic_visit(node)
        node.attr = self.ua.line(node.attr)
        return node

    def visit_FunctionDef(self, node):
        self.generic_visit(node)
        node.name = "f"
        node.returns = None
        for a in node.args.args + node.args.kwonlyargs:
            a.annotation = None
        return node

    def visit_Constant(self, node):
        if isinstance(node.value, str):
            node.value = "<str>"
        return node


def _paired_methods(repo: Repo):
    out = []
    ua = repo.unasync
    for file, aname, sname in PAIRS:
        path = os.path.join(repo.root, file)
        if not os.path.exists(path):
            continue
        tree = ast.parse(open(path).read())
        idx = {}
        for n in tree.body:
            if isinstance(n, ast.ClassDef):
                for m in n.body:
                    if isinstance(m, (ast.FunctionDef, ast.AsyncFunctionDef)):
                        idx[f"{n.name}.{m.name}"] = m
        a, s = idx.get(aname), idx.get(sname)
        oid = f"twin:{os.path.basename(file)}:{aname}~{sname}"
        if a is None or s is None:
            out.append({"oid": oid, "kind": "twin", "status": "refuted", "witness": {"missing": aname if a is None else sname}})
            continue
        na = _Normalise(ua).visit(_EraseAsync().visit(copy.deepcopy(a)))
        ns = _Normalise(ua).visit(copy.deepcopy(s))
        ok = _dump(na) == _dump(ns)
        out.append({"oid": oid, "kind": "twin", "status": "discharged" if ok else "refuted", "witness": None if ok else {"pair": [aname, sname], "file": file}})
    return out


# ------------------------------------------------------------------------------ frames


def _stores(fnode):
    """(attr name, receiver source, node) for attribute stores / del / augmented assignment"""
    for n in ast.walk(fnode):
        targets = []
        if isinstance(n, ast.Assign):
            targets = n.targets
        elif isinstance(n, (ast.AugAssign, ast.AnnAssign)):
            targets = [n.target]
        elif isinstance(n, ast.Delete):
            targets = n.targets
        for t in targets:
            for sub in ast.walk(t):
                if isinstance(sub, ast.Attribute) and isinstance(sub.ctx, (ast.Store, ast.Del)):
                    yield sub.attr, ast.unparse(sub.value), sub


def const_field_frames(repo: Repo, reg, prop):
    """fields declared `const` in the sidecars are written only by the __init__ of their class
    (scan of every function of the package, both trees)."""
    from .engine import Engine

    out = []
    decl = {}  # attr -> {class canonical: is_const}
    for cls, table in reg.class_fields.items():
        for f, key in table.items():
            if key in reg.ghost_keys:
                continue
            decl.setdefault(f, {})[cls] = key in reg.const_keys
    const_attrs = {a for a, m in decl.items() if any(m.values())}
    offenders = {}
    for tree in ("async", "sync"):
        eng = Engine(repo, reg, tree=tree)
        for fi in repo.all_funcs():
            in_tree = ("/_sync/" in "/" + fi.file) == (tree == "sync") or ("/_async/" not in "/" + fi.file and "/_sync/" not in "/" + fi.file)
            if not in_tree:
                continue
            cls_key = eng.canon(f"{fi.module}.{fi.cls}") if fi.cls else None
            for attr, recv, node in _stores(fi.node):
                if attr not in const_attrs:
                    continue
                m = decl[attr]
                if recv == "self" and cls_key is not None:
                    is_const = None
                    for k in reg._mro(eng, cls_key):
                        if k in m:
                            is_const = m[k]
                            break
                    if is_const is None:
                        continue
                    if is_const and fi.qualname.rsplit(".", 1)[-1] != "__init__":
                        offenders.setdefault(attr, []).append(f"{fi.file}:{node.lineno} {fi.qualname}")
                elif recv != "self":
                    if all(m.values()):
                        offenders.setdefault(attr, []).append(f"{fi.file}:{node.lineno} {fi.qualname} (via {recv})")
    for attr in sorted(const_attrs):
        bad = offenders.get(attr)
        out.append({"oid": f"frame:const-field:{attr}", "kind": "frame", "status": "refuted" if bad else "discharged", "witness": {"stores_outside_init": bad} if bad else None})
    return out


MUTATORS = {"append", "remove", "pop", "clear", "extend", "insert", "sort", "reverse"}


def _list_mutations(fnode, attr):
    for n in ast.walk(fnode):
        if isinstance(n, ast.Call) and isinstance(n.func, ast.Attribute) and n.func.attr in MUTATORS:
            v = n.func.value
            if isinstance(v, ast.Attribute) and v.attr == attr:
                yield n
    for a, recv, node in _stores(fnode):
        if a == attr:
            yield node


def pool_list_frames(repo: Repo, reg, prop):
    """only the assignment pass, handle_request, aclose/close, __init__ and PoolByteStream.close
    mutate the pool's connection list / request queue"""
    allowed = {
        "_connections": {"AsyncConnectionPool.__init__", "AsyncConnectionPool._assign_requests_to_connections", "AsyncConnectionPool.aclose",
                         # only ever removes (contract: pool_untouched_when_nothing_is_released / released_connection_gives_its_slot_back)
                         "AsyncConnectionPool._release_unused_connection"},
        "_requests": {"AsyncConnectionPool.__init__", "AsyncConnectionPool.handle_async_request", "PoolByteStream.aclose"},
    }
    out = []
    ua = repo.unasync
    for attr, ok in allowed.items():
        ok_all = set(ok) | {ua.name(x) for x in ok}
        bad = []
        for fi in repo.all_funcs():
            if any(True for _ in _list_mutations(fi.node, attr)) and fi.qualname not in ok_all:
                bad.append(f"{fi.file} {fi.qualname}")
        out.append({"oid": f"frame:only-the-pool-mutates:{attr}", "kind": "frame", "status": "refuted" if bad else "discharged", "witness": {"other_mutators": bad} if bad else None})
    return out


def connect_site_frames(repo: Repo, reg, prop):
    """streams are opened only by AsyncHTTPConnection._connect, AsyncSocks5Connection.handle_request
    and the backends themselves (auto backend delegation)"""
    allowed_files = ("httpcore/_backends/",)
    allowed_funcs = {"AsyncHTTPConnection._connect", "HTTPConnection._connect", "AsyncSocks5Connection.handle_async_request", "Socks5Connection.handle_request"}
    bad = []
    for fi in repo.all_funcs():
        for n in ast.walk(fi.node):
            if isinstance(n, ast.Call) and isinstance(n.func, ast.Attribute) and n.func.attr in ("connect_tcp", "connect_unix_socket"):
                if fi.file.startswith(allowed_files) or fi.qualname in allowed_funcs:
                    continue
                bad.append(f"{fi.file}:{n.lineno} {fi.qualname}")
    return [{"oid": "frame:streams-opened-only-by-the-establishment-functions", "kind": "frame", "status": "refuted" if bad else "discharged", "witness": {"other_sites": bad} if bad else None}]


ALLOWED_DECORATORS = {"property", "staticmethod", "classmethod", "contextmanager", "asynccontextmanager",
                      "contextlib.contextmanager", "contextlib.asynccontextmanager", "typing.overload",
                      # markers without run-time effect on what a call does
                      "typing.final", "final", "typing.override", "override", "typing_extensions.final", "typing_extensions.override",
                      "typing.no_type_check", "no_type_check", "abc.abstractmethod", "abstractmethod"}


def decorator_frames(repo: Repo, reg, prop):
    """A contract is proved about a function's BODY; a decorator that wraps the function (a cache, a retry wrapper, a
    `functools.wraps` shim) changes what a call does without changing that body.  Obligation per function under contract of
    this property: its decorators are among the semantic no-ops the verifier understands (property, static/classmethod,
    [async]contextmanager).  (Wave-4 seed C10-w4-2: `@functools.lru_cache` on default_ssl_context makes every pool share -
    and mutate - one SSLContext.)"""
    from .engine import Engine

    out = []
    for tree in ("async", "sync"):
        eng = Engine(repo, reg, tree=tree)
        for key, c in sorted(reg.contracts.items()):
            if prop not in c.props or c.trusted or tree not in getattr(c, "trees", ("async", "sync")):
                continue
            fi = repo.func(eng.tree_name(key))
            if fi is None:
                continue
            bad = [d for d in fi.decorators if d not in ALLOWED_DECORATORS]
            out.append({"oid": f"{key}:frame:decorators[{tree}]", "kind": "frame", "status": "refuted" if bad else "discharged",
                        "witness": {"decorators": bad} if bad else None})
    return out


# the documented exception hierarchy (docs/exceptions.md of the package; the property C15 quotes it: "a TimeoutException,
# NetworkError, ProtocolError or ProxyError (sub)class, or UnsupportedProtocol - whose class matches the cause")
DOCUMENTED_EXCEPTIONS = {
    "ConnectionNotAvailable": ["Exception"], "ProxyError": ["Exception"], "UnsupportedProtocol": ["Exception"],
    "ProtocolError": ["Exception"], "RemoteProtocolError": ["ProtocolError"], "LocalProtocolError": ["ProtocolError"],
    "TimeoutException": ["Exception"], "PoolTimeout": ["TimeoutException"], "ConnectTimeout": ["TimeoutException"],
    "ReadTimeout": ["TimeoutException"], "WriteTimeout": ["TimeoutException"],
    "NetworkError": ["Exception"], "ConnectError": ["NetworkError"], "ReadError": ["NetworkError"], "WriteError": ["NetworkError"],
}


def exception_hierarchy_frames(repo: Repo, reg, prop):
    """Every `except X` clause and every exception map of the package is verified against the class table READ FROM
    httpcore/_exceptions.py; the callers' view ("class matches the cause", what `except httpcore.ReadError` catches) is the
    documented table.  Obligation per class: its bases are the documented ones - a timeout that also IS a network error is
    swallowed by `except WriteError: pass` in the HTTP/1.1 send path (seed C16-w5-1) and answers the wrong handler of a caller."""
    out = []
    mod = repo.modules.get("httpcore._exceptions")
    have = {}
    if mod is not None:
        for name, ci in mod.classes.items():
            have[name] = [b.rsplit(".", 1)[-1] for b in ci.bases]
    for name, bases in sorted(DOCUMENTED_EXCEPTIONS.items()):
        got = have.get(name)
        ok = got is not None and got == bases
        out.append({"oid": f"httpcore._exceptions.{name}:frame:documented_bases", "kind": "frame", "status": "discharged" if ok else "refuted",
                    "witness": None if ok else {"documented_bases": bases, "bases_in_this_tree": got}})
    def is_exception(name, seen=()):
        if name in ("Exception", "BaseException") or name in DOCUMENTED_EXCEPTIONS:
            return True
        return any(b not in seen and is_exception(b, seen + (name,)) for b in have.get(name, []))

    # only exception classes count: a helper class or a type alias added to the module is none of the callers' business
    extra = sorted(n for n in set(have) - set(DOCUMENTED_EXCEPTIONS) if is_exception(n))
    out.append({"oid": "httpcore._exceptions:frame:no_undocumented_exception_class", "kind": "frame", "status": "discharged" if not extra else "refuted",
                "witness": {"classes": extra} if extra else None})
    return out
