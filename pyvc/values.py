"""Symbolic values and z3 sorts used by PyVC."""
from __future__ import annotations

import z3

Byte = z3.BitVecSort(8)
BytesS = z3.SeqSort(Byte)
StrS = z3.StringSort()
IntS = z3.IntSort()
RealS = z3.RealSort()
BoolS = z3.BoolSort()
ValS = z3.DeclareSort("Val")  # opaque universal python value
RefSeqS = z3.SeqSort(IntS)

_Hdr = z3.Datatype("Hdr")
_Hdr.declare("mk_hdr", ("hk", BytesS), ("hv", BytesS))
HdrS = _Hdr.create()
HdrsS = z3.SeqSort(HdrS)

# --- uninterpreted vocabulary shared by engine, stubs and specs ------------------
none_val = z3.Const("none_val", ValS)
empty_dict_val = z3.Const("empty_dict_val", ValS)
dget = z3.Function("dget", ValS, StrS, ValS, ValS)  # d.get(key, default)
dhas = z3.Function("dhas", ValS, StrS, BoolS)  # key in d
truthy_val = z3.Function("truthy_val", ValS, BoolS)
val_of_int = z3.Function("val_of_int", IntS, ValS)
int_of_val = z3.Function("int_of_val", ValS, IntS)
val_of_real = z3.Function("val_of_real", RealS, ValS)
val_of_bytes = z3.Function("val_of_bytes", BytesS, ValS)
bytes_of_val = z3.Function("bytes_of_val", ValS, BytesS)
val_of_str = z3.Function("val_of_str", StrS, ValS)
str_of_val = z3.Function("str_of_val", ValS, StrS)
val_of_ref = z3.Function("val_of_ref", IntS, ValS)
ref_of_val = z3.Function("ref_of_val", ValS, IntS)
val_of_bool = z3.Function("val_of_bool", BoolS, ValS)
lower_b = z3.Function("lower_b", BytesS, BytesS)  # bytes.lower()
decode_ascii = z3.Function("decode_ascii", BytesS, StrS)
encode_ascii = z3.Function("encode_ascii", StrS, BytesS)
dec_s = z3.Function("dec_s", IntS, StrS)  # str(int) / %d
pow2 = z3.Function("pow2", IntS, IntS)
b64 = z3.Function("b64", BytesS, BytesS)


typ = z3.Function("typ", IntS, IntS)  # dynamic class id of an object reference (immutable)
CLASS_IDS: dict = {}


def cid(name: str) -> int:
    """integer id of a dotted class name (stable within one process)"""
    if name not in CLASS_IDS:
        CLASS_IDS[name] = 1000 + len(CLASS_IDS)
    return CLASS_IDS[name]


def bytes_lit(b: bytes):
    if len(b) == 0:
        return z3.Empty(BytesS)
    units = [z3.Unit(z3.BitVecVal(x, 8)) for x in b]
    return units[0] if len(units) == 1 else z3.Concat(*units)


def str_lit(s: str):
    return z3.StringVal(s)


class V:
    """Base class of symbolic python values."""

    kind = "?"


class VNone(V):
    kind = "none"

    def __repr__(self):
        return "None"


NONE = VNone()


class VInt(V):
    kind = "int"

    def __init__(self, t):
        self.t = z3.IntVal(t) if isinstance(t, int) else t

    def __repr__(self):
        return f"Int({self.t})"


class VReal(V):
    kind = "real"

    def __init__(self, t):
        self.t = z3.RealVal(t) if isinstance(t, (int, float)) else t

    def __repr__(self):
        return f"Real({self.t})"


class VBool(V):
    kind = "bool"

    def __init__(self, t):
        self.t = z3.BoolVal(t) if isinstance(t, bool) else t

    def __repr__(self):
        return f"Bool({self.t})"


class VBytes(V):
    kind = "bytes"

    def __init__(self, t):
        self.t = bytes_lit(t) if isinstance(t, bytes) else t

    def __repr__(self):
        return f"Bytes({self.t})"


class VStr(V):
    kind = "str"

    def __init__(self, t):
        self.t = str_lit(t) if isinstance(t, str) else t

    def __repr__(self):
        return f"Str({self.t})"


class VRef(V):
    """Object reference; the integer 0 is None."""

    def __init__(self, t, cls: str):
        self.t = z3.IntVal(t) if isinstance(t, int) else t
        self.cls = cls

    @property
    def kind(self):
        return "ref:" + self.cls

    def __repr__(self):
        return f"Ref<{self.cls}>({self.t})"


class VVal(V):
    kind = "val"

    def __init__(self, t):
        self.t = t

    def __repr__(self):
        return f"Val({self.t})"


class VOpt(V):
    """Optional scalar: (is_none, payload)."""

    def __init__(self, none, val: V):
        self.none = z3.BoolVal(none) if isinstance(none, bool) else none
        self.val = val

    @property
    def kind(self):
        return "opt:" + self.val.kind

    def __repr__(self):
        return f"Opt({self.none},{self.val})"


class VTuple(V):
    kind = "tuple"

    def __init__(self, items):
        self.items = list(items)

    def __repr__(self):
        return f"Tuple{self.items}"


class VList(V):
    """List with a concrete number of symbolic elements."""

    kind = "list"

    def __init__(self, items):
        self.items = list(items)

    def __repr__(self):
        return f"List{self.items}"


class VDict(V):
    """Dict with concrete (python) keys."""

    kind = "dict"

    def __init__(self, items: dict):
        self.items = dict(items)

    def __repr__(self):
        return f"Dict{self.items}"


class VSeq(V):
    """List of symbolic length: z3 sequence + element kind ('ref:C', 'hdr', 'int', 'bytes')."""

    def __init__(self, t, elem: str):
        self.t = t
        self.elem = elem

    @property
    def kind(self):
        return "seq:" + self.elem

    def __repr__(self):
        return f"Seq<{self.elem}>({self.t})"


class VSet(V):
    """Set given by a membership predicate over z3 terms of sort `sort` (python callable term -> Bool)."""

    kind = "set"

    def __init__(self, member, elem: str):
        self.member = member
        self.elem = elem


class VHdr(V):
    kind = "hdr"

    def __init__(self, t):
        self.t = t


class VClass(V):
    kind = "class"

    def __init__(self, name: str):
        self.name = name

    def __repr__(self):
        return f"Class({self.name})"


class VFunc(V):
    kind = "func"

    def __init__(self, name: str, bound: V | None = None, info=None):
        self.name = name
        self.bound = bound
        self.info = info

    def __repr__(self):
        return f"Func({self.name})"


class VModule(V):
    kind = "module"

    def __init__(self, name: str):
        self.name = name


class VExc(V):
    kind = "exc"

    def __init__(self, cls: str, args=(), cause=None, tag=None):
        self.cls = cls  # dotted class name known to the class table
        self.args = list(args)
        self.cause = cause
        self.tag = tag or {}

    def __repr__(self):
        return f"Exc({self.cls})"


class VGen(V):
    """A generator / iterator object described by a python-side iterator protocol handler."""

    kind = "gen"

    def __init__(self, name: str, payload=None):
        self.name = name
        self.payload = payload


def sort_of_kind(kind: str):
    if kind == "int":
        return IntS
    if kind == "real":
        return RealS
    if kind == "bool":
        return BoolS
    if kind == "bytes":
        return BytesS
    if kind == "str":
        return StrS
    if kind == "val":
        return ValS
    if kind == "hdr":
        return HdrS
    if kind.startswith("ref:"):
        return IntS
    if kind.startswith("seq:"):
        return z3.SeqSort(sort_of_kind(kind[4:]))
    raise KeyError(kind)


def wrap(kind: str, t) -> V:
    if kind == "int":
        return VInt(t)
    if kind == "real":
        return VReal(t)
    if kind == "bool":
        return VBool(t)
    if kind == "bytes":
        return VBytes(t)
    if kind == "str":
        return VStr(t)
    if kind == "val":
        return VVal(t)
    if kind == "hdr":
        return VHdr(t)
    if kind.startswith("ref:"):
        return VRef(t, kind[4:])
    if kind.startswith("seq:"):
        return VSeq(t, kind[4:])
    raise KeyError(kind)
