"""Check driver: ./check <property> [--tier quick|thorough] [--repo DIR]

exit 0  every obligation of the property discharged (or listed known finding)
exit 1  an obligation that is discharged on the unchanged tree is refuted  -> VIOLATION line
exit 2  undecided (solver unknown, obligation missing/new and refuted, contract mismatch)
exit 3  checker error (unsupported construct, crash, zero obligations, vacuous contract)
"""
from __future__ import annotations

import argparse
import hashlib
import importlib
import json
import multiprocessing as mp
import os
import pkgutil
import subprocess
import sys
import time
import traceback

HERE = os.path.dirname(os.path.dirname(os.path.abspath(__file__)))
sys.path.insert(0, HERE)

import z3  # noqa: E402

from pyvc.source import Repo  # noqa: E402
from pyvc.registry import Registry  # noqa: E402
from pyvc.engine import Engine, Unsupported  # noqa: E402


def build_registry() -> Registry:
    reg = Registry()
    import contracts

    names = sorted(m.name for m in pkgutil.iter_modules(contracts.__path__))
    # common first
    names = [n for n in names if n == "common"] + [n for n in names if n != "common"]
    for n in names:
        mod = importlib.import_module("contracts." + n)
        if hasattr(mod, "register"):
            mod.register(reg)
    return reg


def model_snippet(model, limit=40):
    out = {}
    for d in model.decls()[:400]:
        name = d.name()
        if name.startswith(("arg_", "self")) or "!" in name and not name.startswith(("H", "k!")):
            try:
                out[name] = str(model[d])[:200]
            except Exception:
                pass
        if len(out) >= limit:
            break
    return out


def cvc5_check(smt2: str, timeout_ms: int):
    """second back end: /usr/bin/cvc5 on the SMT-LIB text of the VC. -> 'unsat' | 'sat' | 'unknown'"""
    import subprocess
    import tempfile

    exe = "/usr/bin/cvc5"
    if not os.path.exists(exe):
        return "unknown", "cvc5 not installed"
    with tempfile.NamedTemporaryFile("w", suffix=".smt2", dir=os.environ.get("TMPDIR", "/var/tmp"), delete=False) as f:
        # z3 prints its internal total/partial element access symbols; both are cvc5's total seq.nth
        smt2 = smt2.replace("seq.nth_u", "seq.nth").replace("seq.nth_i", "seq.nth")
        f.write("(set-logic ALL)\n" + smt2)
        path = f.name
    try:
        p = subprocess.run([exe, "--strings-exp", f"--tlimit={timeout_ms}", path], capture_output=True, text=True, timeout=timeout_ms / 1000 + 10)
        out = (p.stdout or "").strip().splitlines()
        first = out[0].strip() if out else ""
        if first in ("unsat", "sat"):
            return first, ""
        return "unknown", (p.stderr or first)[:200]
    except Exception as e:  # timeout, crash
        return "unknown", f"{type(e).__name__}"
    finally:
        try:
            os.unlink(path)
        except OSError:
            pass


def discharge(eng: Engine, vc, timeout_ms):
    g = z3.simplify(vc.goal)
    if z3.is_true(g):
        return {"status": "discharged", "solver": "simplifier", "time_s": 0.0}

    def mk(timeout, seed=None, logic=None):
        s = z3.SolverFor(logic) if logic else z3.Solver()
        s.set("timeout", timeout)
        if seed is not None:
            s.set("random_seed", seed)
        for ax in eng.reg.axioms:
            s.add(ax)
        for p in vc.pc:
            s.add(p)
        s.add(z3.Not(vc.goal))
        return s

    t0 = time.time()
    s = mk(min(3000, timeout_ms))
    r = s.check()
    res = {"solver": "z3"}
    status = "discharged" if r == z3.unsat else ("refuted" if r == z3.sat else "unknown")
    if r == z3.sat:
        try:
            res["model"] = model_snippet(s.model())
        except Exception:
            res["model"] = {}
    if status == "unknown":
        res["reason"] = s.reason_unknown()
        smt2 = None
        try:
            smt2 = s.to_smt2()
        except Exception:
            pass
        if smt2 is not None:
            v, why = cvc5_check(smt2, timeout_ms)
            if v == "unsat":
                status, res["solver"] = "discharged", "cvc5"
            elif v == "sat":
                status, res["solver"] = "refuted", "cvc5"
                res["model"] = {"note": "counter-model found by cvc5 (not extracted)"}
            else:
                res["cvc5"] = why
        if status == "unknown":
            s2 = mk(timeout_ms, seed=7)
            r2 = s2.check()
            if r2 == z3.unsat:
                status, res["solver"] = "discharged", "z3(retry)"
            elif r2 == z3.sat:
                status, res["solver"] = "refuted", "z3(retry)"
                try:
                    res["model"] = model_snippet(s2.model())
                except Exception:
                    res["model"] = {}
    res["status"] = status
    res["time_s"] = round(time.time() - t0, 4)
    if status != "discharged" or vc.extra.get("want_smt"):
        try:
            res["smt2"] = s.to_smt2()[:20000]
        except Exception:
            pass
    return res


_VERIF_HASH = None


def verif_source_hash():
    """hash of the verifier and contract sources (part of the result-cache key)"""
    global _VERIF_HASH
    if _VERIF_HASH is None:
        h = hashlib.sha256()
        for d in ("pyvc", "contracts"):
            for fn in sorted(os.listdir(os.path.join(HERE, d))):
                if fn.endswith(".py"):
                    h.update(fn.encode())
                    h.update(open(os.path.join(HERE, d, fn), "rb").read())
        h.update(z3.get_version_string().encode())
        _VERIF_HASH = h.hexdigest()
    return _VERIF_HASH


class IncrementalDischarger:
    """VCs of one path share a growing path condition: keep one solver per path, add only the new
    conjuncts, and check each goal under push/pop.  Anything but `unsat` is re-checked from scratch
    by discharge() (so verdicts never depend on the incremental solver state)."""

    def __init__(self, eng, timeout_ms):
        self.eng = eng
        self.timeout_ms = timeout_ms
        self.run = None
        self.solver = None
        self.npc = 0
        self.pc_ids = []

    def _reset(self, run):
        self.run = run
        self.solver = z3.Solver()
        self.solver.set("timeout", 1000)  # fast path only; anything slower goes to discharge()
        for ax in self.eng.reg.axioms:
            self.solver.add(ax)
        self.pc_ids = []

    def discharge(self, vc):
        g = z3.simplify(vc.goal)
        if z3.is_true(g):
            return {"status": "discharged", "solver": "simplifier", "time_s": 0.0}
        ids = [p.get_id() for p in vc.pc]
        if self.run != vc.run or ids[: len(self.pc_ids)] != self.pc_ids:
            self._reset(vc.run)
        for p in vc.pc[len(self.pc_ids):]:
            self.solver.add(p)
        self.pc_ids = ids
        t0 = time.time()
        self.solver.push()
        self.solver.add(z3.Not(vc.goal))
        r = self.solver.check()
        self.solver.pop()
        dt = time.time() - t0
        if r == z3.unsat and not vc.extra.get("want_smt"):
            return {"status": "discharged", "solver": "z3", "time_s": round(dt, 4)}
        return discharge(self.eng, vc, self.timeout_ms)


def run_function(task):
    """worker: verify one function in one tree; returns picklable results.
    Results are memoised under .cache/ keyed by the sha256 of every repository source file, of
    the verifier + contract sources, the function key, tree and solver budget: an identical
    (code, contracts, verifier) triple is not re-proved by the next property check that needs
    the same function.  Any edit to /repo or to /verif invalidates the entry."""
    repo_root, tree, key, timeout_ms, want_sample, use_cache = task
    out = {"key": key, "tree": tree, "vcs": [], "error": None, "stats": {}, "covers": [], "ast_hash": None, "file": None, "cached": False}
    cache_path = None
    try:
        repo = Repo(repo_root)
        if use_cache:
            ck = hashlib.sha256(json.dumps([repo.file_hashes(), verif_source_hash(), key, tree, timeout_ms], sort_keys=True).encode()).hexdigest()
            cache_path = os.path.join(os.environ.get("PYVC_CACHE_DIR") or os.path.join(HERE, ".cache"), ck + ".json")
            if os.path.exists(cache_path):
                try:
                    res = json.load(open(cache_path))
                    res["cached"] = True
                    return res
                except Exception:
                    pass
        reg = build_registry()
        eng = Engine(repo, reg, tree=tree, solver_timeout_ms=timeout_ms)
        contract = reg.contracts[key]
        fkey = eng.tree_name(key)
        fi = repo.func(fkey)
        if fi is None:
            out["error"] = {"kind": "missing-function", "msg": f"{fkey} not found in {tree} tree"}
            return out
        out["ast_hash"] = fi.ast_hash()
        out["file"] = fi.file
        t_v = time.time()
        info = eng.verify(fi, contract)
        out["stats"] = {**info, **eng.stats}
        t_d = time.time()
        out["covers"] = sorted(eng.covers)
        out["event_kinds"] = sorted(eng.seen_events)
        sample_done = False
        inc = IncrementalDischarger(eng, timeout_ms)
        for vc in eng.vcs:
            if want_sample and not sample_done:
                vc.extra["want_smt"] = True
                sample_done = True
            res = inc.discharge(vc)
            out["vcs"].append(
                {
                    "oid": vc.oid,
                    "props": list(vc.props),
                    "kind": vc.kind,
                    "tree": tree,
                    "log": vc.log[-40:],
                    "extra": {k: str(v) for k, v in vc.extra.items() if k != "want_smt"},
                    **res,
                }
            )
        out["stats"]["discharge_s"] = round(time.time() - t_d, 2)
        out["stats"]["total_s"] = round(time.time() - t_v, 2)
        out["stats"]["n_vcs"] = len(eng.vcs)
    except Unsupported as e:
        out["error"] = {"kind": "unsupported", "msg": str(e)}
    except Exception as e:  # checker crash
        out["error"] = {"kind": "crash", "msg": f"{type(e).__name__}: {e}", "tb": traceback.format_exc()[-3000:]}
    if cache_path and not out["error"] and not any(v["status"] == "unknown" for v in out["vcs"]):
        try:
            os.makedirs(os.path.dirname(cache_path), exist_ok=True)
            tmp = cache_path + f".{os.getpid()}.tmp"
            json.dump(out, open(tmp, "w"), default=str)
            os.replace(tmp, cache_path)
        except Exception:
            pass
    return out


def prune_cache(path, limit_bytes=300 * 1024 * 1024):
    """the result cache is keyed by content hashes, so every edit of /repo or /verif leaves a dead generation behind:
    keep it below `limit_bytes` by dropping the least recently used entries (disk space is limited)"""
    try:
        ents = []
        total = 0
        for n in os.listdir(path):
            fp = os.path.join(path, n)
            st = os.stat(fp)
            ents.append((st.st_mtime, st.st_size, fp))
            total += st.st_size
        if total <= limit_bytes:
            return
        for _, size, fp in sorted(ents):
            try:
                os.remove(fp)
            except OSError:
                pass
            total -= size
            if total <= limit_bytes * 0.6:
                break
    except OSError:
        pass


def load_json(path, default):
    try:
        return json.load(open(path))
    except FileNotFoundError:
        return default


def main(argv=None):
    ap = argparse.ArgumentParser()
    ap.add_argument("prop")
    ap.add_argument("--tier", default=os.environ.get("VERIF_TIER", "quick"))
    ap.add_argument("--repo", default=os.environ.get("VERIF_REPO", "/repo"))
    ap.add_argument("--jobs", type=int, default=min(16, os.cpu_count() or 4))
    ap.add_argument("--timeout-ms", type=int, default=None)
    ap.add_argument("--no-evidence", action="store_true")
    ap.add_argument("--write-baseline", action="store_true")
    ap.add_argument("--verbose", "-v", action="store_true")
    ap.add_argument("--only", default=None, help="substring filter on function key (debugging)")
    ap.add_argument("--no-cache", action="store_true")
    args = ap.parse_args(argv)
    prop = args.prop
    tier = "thorough" if args.tier == "thorough" else "quick"
    seed = int(os.environ.get("VERIF_SEED", "0") or 0)
    timeout_ms = args.timeout_ms or (30000 if tier == "thorough" else 10000)
    t_start = time.time()

    from pyvc import props as P

    reg = build_registry()
    repo = Repo(args.repo)
    spec = P.PROPS.get(prop)
    if spec is None:
        print(f"unknown or unclaimed property {prop}")
        return 3

    # extra (non symbolic-execution) obligation generators for this property: frame scans, twin check
    use_cache = not args.no_cache and tier == "quick" and not os.environ.get("PYVC_NO_CACHE")
    if use_cache:
        prune_cache(os.environ.get("PYVC_CACHE_DIR") or os.path.join(HERE, ".cache"))
    tasks = []
    keys = [k for k, c in reg.contracts.items() if prop in c.props and not c.trusted]
    if args.only:
        keys = [k for k in keys if args.only in k]
    for key in sorted(keys):
        c = reg.contracts[key]
        trees = getattr(c, "trees", ("async", "sync"))
        for tree in trees:
            tasks.append((os.path.abspath(args.repo), tree, key, timeout_ms, True, use_cache))

    results = []
    if tasks:
        if args.jobs > 1 and len(tasks) > 1:
            with mp.Pool(min(args.jobs, len(tasks))) as pool:
                results = pool.map(run_function, tasks, chunksize=1)
        else:
            results = [run_function(t) for t in tasks]

    # aggregate -------------------------------------------------------------------------
    errors = [r for r in results if r["error"]]
    obligations = {}  # oid[tree] -> aggregated
    for r in results:
        for v in r["vcs"]:
            if prop not in v["props"]:
                continue
            oid = f"{prop}:{v['oid']}[{v['tree']}]"
            o = obligations.setdefault(oid, {"oid": oid, "kind": v["kind"], "vcs": 0, "status": "discharged", "time_s": 0.0, "solver": set(), "witness": None})
            o["vcs"] += 1
            o["time_s"] += v["time_s"]
            o["solver"].add(v["solver"])
            if v["status"] == "refuted":
                if o["status"] != "refuted":
                    o["witness"] = v
                o["status"] = "refuted"
            elif v["status"] == "unknown" and o["status"] == "discharged":
                o["status"] = "unknown"
                o["witness"] = v

    # structural obligations (decided without the solver; see DESIGN 2.4 / C18)
    extra_obls = []
    for gen in spec.get("structural", []):
        try:
            extra_obls.extend(gen(repo, reg, prop))
        except Unsupported as e:
            errors.append({"key": gen.__name__, "tree": "-", "error": {"kind": "unsupported", "msg": str(e)}})
        except Exception as e:
            errors.append({"key": gen.__name__, "tree": "-", "error": {"kind": "crash", "msg": f"{type(e).__name__}: {e}", "tb": traceback.format_exc()[-3000:]}})
    for o in extra_obls:
        oid = f"{prop}:{o['oid']}"
        obligations[oid] = {"oid": oid, "kind": o.get("kind", "frame"), "vcs": 1, "status": o["status"], "time_s": 0.0, "solver": {o.get("solver", "syntactic")}, "witness": o.get("witness")}

    known = load_json(os.path.join(HERE, "known_findings.json"), {"findings": []})
    known_ids = {}
    for f in known.get("findings", []):
        if f.get("status") == "known" and f.get("property") == prop:
            for oid in f.get("obligations", []):
                known_ids[oid] = f
    if args.write_baseline:
        path = os.path.join(HERE, "baseline", "obligations.json")
        allb = load_json(path, {})
        allb[prop] = {oid: o["status"] for oid, o in sorted(obligations.items())}
        os.makedirs(os.path.dirname(path), exist_ok=True)
        json.dump(allb, open(path, "w"), indent=1, sort_keys=True)
        print(f"baseline for {prop}: {len(obligations)} obligations written")
    baseline = load_json(os.path.join(HERE, "baseline", "obligations.json"), {}).get(prop, {})

    discharged = [o for o in obligations.values() if o["status"] == "discharged"]
    refuted = [o for o in obligations.values() if o["status"] == "refuted"]
    unknown = [o for o in obligations.values() if o["status"] == "unknown"]
    refuted_known = [o for o in refuted if o["oid"] in known_ids]
    refuted_new = [o for o in refuted if o["oid"] not in known_ids]
    # an obligation of the baseline that is not generated any more means the contracts no longer
    # match the code (undecided) - except `raises:escapes[X]` obligations that were discharged there:
    # they exist only while an (infeasible) path raising X is explored at all
    errored = {r["key"] for r in results if r["error"]}
    missing = [
        oid for oid in baseline
        if oid not in obligations
        and not (":raises:escapes[" in oid and baseline[oid] == "discharged")
        and not any(k in oid for k in errored)
    ]
    # a known finding whose obligation now discharges is fine (fixed); nothing to report

    violations = []
    undecided = []
    for o in refuted_new:
        b = baseline.get(o["oid"])
        if b == "discharged" or b is None and baseline:
            # discharged on the unchanged tree (or a brand-new obligation of a known function) and refuted now
            violations.append(o)
        elif not baseline:
            violations.append(o)
        else:
            undecided.append(o)
    for o in unknown:
        undecided.append(o)

    printed_known = set()
    for o in refuted_known:
        f = known_ids[o["oid"]]
        if f["id"] not in printed_known:
            printed_known.add(f["id"])
            print(f"KNOWN-FINDING: property={prop} {f['id']}: {f['what']}")

    # replay files ---------------------------------------------------------------------------
    exit_code = 0
    os.makedirs(os.path.join(HERE, "replays"), exist_ok=True)
    from pyvc import replay as R

    for o in violations:
        w = o["witness"] or {}
        h = hashlib.sha256(o["oid"].encode()).hexdigest()[:10]
        path = os.path.join(HERE, "replays", f"{prop}_{h}.json")
        rep = {
            "property": prop,
            "obligation": o["oid"],
            "kind": o["kind"],
            "verdict": "refuted",
            "solver": sorted(o["solver"]),
            "path": w.get("log"),
            "model": w.get("model"),
            "extra": w.get("extra"),
            "smt2": w.get("smt2"),
            "repo": os.path.abspath(args.repo),
            "how_to_replay": f"./check {prop} --repo {os.path.abspath(args.repo)}",
        }
        confirmed = False
        try:
            confirmed, detail = R.try_replay(prop, o, w, os.path.abspath(args.repo), seed)
            rep["native_replay"] = detail
        except Exception as e:
            rep["native_replay"] = {"error": f"{type(e).__name__}: {e}"}
        json.dump(rep, open(path, "w"), indent=1, default=str)
        suffix = "" if confirmed else " no-failing-input-found"
        print(f"VIOLATION property={prop} replay={path} obligation={o['oid']}{suffix}")
        exit_code = 1

    if exit_code == 0:
        if errors:
            exit_code = 3
        elif undecided or missing:
            exit_code = 2
        elif not obligations:
            exit_code = 3
    # a function the verifier cannot bring within its reach (unsupported construct): where the replay oracle has a
    # native harness for it, a BOUNDED check of the real function stands in - labelled bounded, never counted as
    # proved: a failing input is a violation (it is real), finding none leaves the function undecided (exit 3)
    bounded_fallbacks = []
    seen_fb = set()
    for e in errors:
        if e["error"]["kind"] != "unsupported" or (e["key"], e["tree"]) in seen_fb:
            continue
        seen_fb.add((e["key"], e["tree"]))
        try:
            ok, detail = R.try_replay(prop, {"oid": f"{prop}:{e['key']}:bounded:native_oracle[{e['tree']}]"}, {}, os.path.abspath(args.repo), seed)
        except Exception as ex:  # noqa: BLE001
            ok, detail = False, {"error": f"{type(ex).__name__}: {ex}"}
        applies = ok or "no native replay harness" not in str(detail.get("note", ""))
        if not applies:
            continue
        rec = {"function": e["key"], "tree": e["tree"], "bounded": True, "why": e["error"]["msg"][:200], "outcome": "failing input found" if ok else "no failing input in the seeded family", "detail": detail}
        bounded_fallbacks.append(rec)
        if ok:
            oid = f"{prop}:{e['key']}:bounded:native_oracle[{e['tree']}]"
            h = hashlib.sha256(oid.encode()).hexdigest()[:10]
            path = os.path.join(HERE, "replays", f"{prop}_{h}.json")
            json.dump({"property": prop, "obligation": oid, "verdict": "failing input found by the bounded native stand-in (function outside the verifier's subset)",
                       "checker_error": e["error"]["msg"], "native_replay": detail}, open(path, "w"), indent=1, default=str)
            print(f"VIOLATION property={prop} replay={path} obligation={oid}")
            exit_code = 1
    for e in errors:
        print(f"CHECKER-ERROR {e['key']}[{e['tree']}]: {e['error']['kind']}: {e['error']['msg']}")
        if args.verbose and e["error"].get("tb"):
            print(e["error"]["tb"])
    # bounded stand-ins (thorough tier only): labelled bounded, never counted as proved ---------------
    audit_results = []
    if tier == "thorough" and not args.only:
        audit_results = run_audits(prop, spec, os.path.abspath(args.repo), seed)
        for a in audit_results:
            if a["outcome"] == "held":
                continue
            if a["outcome"] == "counterexample" and a["kind"] == "property":
                h = hashlib.sha256(a["script"].encode()).hexdigest()[:10]
                path = os.path.join(HERE, "replays", f"{prop}_audit_{h}.json")
                json.dump({"property": prop, "bounded_check": a["script"], "verdict": "failing input found on the real code", "failing_input": a.get("detail"),
                           "how_to_replay": f"cd {os.path.abspath(args.repo)} && VERIF_SEED={seed} {os.path.join(HERE, '.venv/bin/python')} {os.path.join(HERE, a['script'])}"}, open(path, "w"), indent=1, default=str)
                print(f"VIOLATION property={prop} replay={path} bounded_check={a['script']}")
                exit_code = 1
            elif a["outcome"] == "counterexample":
                print(f"UNDECIDED assumed contract audited by {a['script']} does not hold: {json.dumps(a.get('detail'))[:400]}")
                exit_code = exit_code or 2
            else:
                print(f"CHECKER-ERROR bounded check {a['script']}: {a['outcome']}: {str(a.get('detail'))[:300]}")
                exit_code = exit_code or 3

    # vacuity guard of the thorough tier: every seeded change written for this property (seeded/<prop>-*) that still
    # applies to the tree under check must be REPORTED by this very check; one that is not means the check has gone
    # blind (exit 3).  Only when the tree itself is clean (exit 0) and not while self-testing.
    self_test = None
    if tier == "thorough" and exit_code == 0 and not args.only and not os.environ.get("PYVC_SELFTEST"):
        self_test = run_self_test(prop, os.path.abspath(args.repo), args.jobs or 0)
        for name in self_test["not_reported"]:
            print(f"CHECKER-ERROR self-test: seeded change {name} applies to this tree but is not reported by ./check {prop} (the check is blind to it)")
            exit_code = 3

    for o in undecided:
        print(f"UNDECIDED {o['oid']}: {o['status']}")
    for oid in missing:
        print(f"UNDECIDED {oid}: obligation present in the baseline ledger was not generated on this tree")
    if not obligations and not errors:
        print("CHECKER-ERROR: zero obligations generated")

    wall = time.time() - t_start
    if args.verbose:
        for o in sorted(obligations.values(), key=lambda x: x["oid"]):
            print(f"  {o['status']:<11} {o['vcs']:>3} VCs {o['time_s']:.3f}s  {o['oid']}")
            if o["status"] != "discharged" and o["witness"]:
                print("       path:", " | ".join((o["witness"].get("log") or [])[-12:]))
                print("       model:", o["witness"].get("model"))
        for r in results:
            print(f"  fn {r['key']}[{r['tree']}] {r['stats']}")

    if not args.no_evidence:
        write_evidence(prop, tier, seed, spec, reg, repo, results, obligations, discharged, refuted_known, violations, undecided, missing, errors, wall, args, audit_results, bounded_fallbacks, self_test)
    n_ok = len(discharged)
    print(
        f"{prop}: {len(obligations)} obligations, {n_ok} discharged, {len(refuted_known)} known findings, "
        f"{len(violations) + sum(1 for b in bounded_fallbacks if b['outcome'] == 'failing input found')} violations, {len(undecided) + len(missing)} undecided, {len(errors)} checker errors, {wall:.1f}s -> exit {exit_code}"
    )
    return exit_code


def run_self_test(prop, repo_dir, jobs):
    import concurrent.futures as cf
    import shutil
    import tempfile

    sdir = os.path.join(HERE, "seeded")
    names = sorted(x for x in os.listdir(sdir) if x.startswith(prop + "-") and os.path.isfile(os.path.join(sdir, x, "patch.diff"))) if os.path.isdir(sdir) else []
    out = {"seeded_changes": len(names), "reported": [], "not_reported": [], "skipped_patch_does_not_apply": [], "undecided": []}

    def one(name):
        d = tempfile.mkdtemp(prefix="selftest.", dir="/var/tmp")
        try:
            repo = os.path.join(d, "repo")
            os.makedirs(repo)
            for sub in ("httpcore", "scripts"):
                shutil.copytree(os.path.join(repo_dir, sub), os.path.join(repo, sub))
            p = subprocess.run(["patch", "-p1", "-s", "--no-backup-if-mismatch", "-i", os.path.join(sdir, name, "patch.diff")], cwd=repo, capture_output=True, text=True)
            if p.returncode != 0:
                return name, "skip"
            env = dict(os.environ, PYVC_SELFTEST="1", PYVC_CACHE_DIR=os.path.join(d, "cache"))
            r = subprocess.run([sys.executable, "-m", "pyvc.run", prop, "--repo", repo, "--no-evidence", "--tier", "quick", "--jobs", "4"], cwd=HERE, env=env, capture_output=True, text=True, timeout=3600)
            return name, {0: "blind", 1: "reported"}.get(r.returncode, "undecided")
        except Exception as e:  # noqa: BLE001
            return name, "undecided"
        finally:
            shutil.rmtree(d, ignore_errors=True)

    with cf.ThreadPoolExecutor(4) as ex:
        for name, verdict in ex.map(one, names):
            {"skip": out["skipped_patch_does_not_apply"], "blind": out["not_reported"], "reported": out["reported"], "undecided": out["undecided"]}[verdict].append(name)
    return out


def run_audits(prop, spec, repo_dir, seed):
    """run the bounded stand-ins registered for this property against the tree under check"""
    out = []
    py = os.path.join(HERE, ".venv", "bin", "python")
    for a in spec.get("audits", []):
        script = a["script"]
        t0 = time.time()
        rec = {"script": script, "kind": a["kind"], "what": a["what"], "bounded": True}
        try:
            env = dict(os.environ, VERIF_SEED=str(seed), PYTHONPATH=repo_dir)
            p = subprocess.run([py, os.path.join(HERE, script)], cwd=repo_dir, env=env, capture_output=True, text=True, timeout=600)
            last = (p.stdout.strip().splitlines() or [""])[-1]
            try:
                info = json.loads(last)
            except Exception:
                info = {"raw": last[-300:]}
            if p.returncode == 0:
                rec.update(outcome="held", explored=info.get("explored"), bound=info.get("bound"))
            elif p.returncode == 1:
                rec.update(outcome="counterexample", detail=info)
            else:
                rec.update(outcome=f"crash (exit {p.returncode})", detail=(p.stderr or p.stdout)[-400:])
        except subprocess.TimeoutExpired:
            rec.update(outcome="timeout", detail="600 s")
        rec["wall_s"] = round(time.time() - t0, 2)
        out.append(rec)
    return out


def write_evidence(prop, tier, seed, spec, reg, repo, results, obligations, discharged, refuted_known, violations, undecided, missing, errors, wall, args, audit_results=(), bounded_fallbacks=(), self_test=None):
    funcs = []
    solver_time = 0.0
    nvc = 0
    samples = []
    covers = set()
    inlined = set()
    for r in results:
        funcs.append({"function": r["key"], "tree": r["tree"], "file": r["file"], "ast_hash": r["ast_hash"], "paths": r["stats"].get("paths"), "exits": r["stats"].get("exits"), "error": r["error"]["msg"] if r["error"] else None, "reused_from_result_cache": bool(r.get("cached"))})
        covers.update(r["covers"])
        for v in r["vcs"]:
            if prop in v["props"]:
                nvc += 1
                solver_time += v["time_s"]
                if v.get("smt2") and len(samples) < 3 and v["status"] == "discharged":
                    samples.append({"obligation": f"{prop}:{v['oid']}[{v['tree']}]", "verdict": v["status"], "solver": v["solver"], "path": v["log"][-10:], "smt2_head": v["smt2"][:1500]})
    kinds = set()
    for r in results:
        kinds.update(r.get("event_kinds", []))
    used_notes = [text for text in reg.trusted_notes if note_applies(text, kinds)]
    slow = [o["oid"] for o in obligations.values() if o["time_s"] > 5.0]
    if not samples:
        for o in list(obligations.values())[:3]:
            samples.append({"obligation": o["oid"], "verdict": o["status"], "kind": o["kind"]})
    level = spec.get("level", "proof")
    n_obl = len(obligations)
    n_dis = len(discharged)
    ev = {
        "property_id": prop,
        "tier": tier,
        "seed": seed,
        "level": level,
        "coverage": {
            # obligations listed in known_findings.json (genuine, recorded defects) are reported apart:
            # "obligations" counts the ones this run had to discharge, so discharged == obligations
            # exactly when the check exits 0
            "obligations": n_obl - len(refuted_known),
            "discharged": n_dis,
            "obligations_generated": n_obl,
            "refuted_known_findings": len(refuted_known),
            "refuted_new": len(violations),
            "undecided": len(undecided) + len(missing),
            "verification_conditions": nvc,
            "checker_cmd": f"./check {prop} --tier {tier}",
            "trusted_base": sorted(set(spec.get("trusted", []) + used_notes + P_GLOBAL_TRUST)),
            "assumed_contracts_exercised": sorted(kinds),
            "functions_under_contract": funcs,
            "covers_reached": len(covers),
            "helpers_inlined_without_contract": sorted({k for r in results for k in (r["stats"].get("auto_inlined") or [])}),
            "functions_reused_from_result_cache": sum(1 for r in results if r.get("cached")),
            "result_cache_rule": "a function's VC verdicts are reused only when the sha256 of every repository source file, of the verifier and contract sources, the function key, tree and solver budget are all identical to the run that produced them (quick tier only; thorough always re-proves)",
            "back_ends": sorted({s for o in obligations.values() for s in o["solver"]}),
            "solver_time_s": round(solver_time, 3),
            "slow_obligations": slow,
            "samples": samples,
            "obligation_list": {o["oid"]: o["status"] for o in sorted(obligations.values(), key=lambda x: x["oid"])},
            "known_findings_reported": sorted({o["oid"] for o in refuted_known}),
            "bounded_stand_ins": spec.get("bounded", []),
            "bounded_function_stand_ins": list(bounded_fallbacks),
            "seeded_change_self_test": self_test if self_test is not None else "thorough tier only: every seeded change of this property must be reported by the check (vacuity guard)",
            "bounded_checks_run": list(audit_results) if tier == "thorough" else "bounded stand-ins run in the thorough tier only: " + ", ".join(a["script"] for a in spec.get("audits", [])) if spec.get("audits") else [],
            "not_decided": spec.get("not_decided", []),
            "file_sha256": repo.file_hashes(),
            "unasync_table_from_script": repo.unasync.from_script,
            "evaluations": nvc,
            "distinct_nontrivial": n_obl,
            "rule": "one evaluation = one verification condition (path condition => goal) sent to the solver; distinct = obligation ids (function x label x tree)",
            "explanation": spec.get("explanation", ""),
        },
        "assumptions": sorted(set(spec.get("trusted", []) + P_GLOBAL_TRUST)),
        "wall_s": round(wall, 2),
        "violations": len(violations),
    }
    if errors:
        ev["coverage"]["checker_errors"] = [f"{e['key']}[{e['tree']}]: {e['error']['msg']}" for e in errors]
    os.makedirs(os.path.join(HERE, "evidence"), exist_ok=True)
    json.dump(ev, open(os.path.join(HERE, "evidence", f"{prop}.json"), "w"), indent=1, default=str)


NOTE_KINDS = {"A-h11": {"h11"}, "A-h2": {"h2"}, "A-socksio": {"socks"}, "A-stdlib": {"urllib"}, "A-runtime": {"net", "lock", "sem", "event", "trace", "time", "ssl"},
              "interface abstraction": {"ci"}, "class invariant assumed: Origin": {"net"}}


def note_applies(text, kinds):
    for prefix, ks in NOTE_KINDS.items():
        if text.startswith(prefix):
            return bool(ks & kinds)
    return True


P_GLOBAL_TRUST = [
    "PyVC itself (new, unverified VC generator; guarded by covers, zero-obligation check, seeded-change corpus)",
    "z3 4.x/5.1 decision procedures",
    "CPython ast module (python 3.12 grammar)",
    "python semantics assumed by the encoding: static name resolution (no monkey-patching); attribute reads are side-effect free; "
    "int is mathematical integer; float treated as real; bytes/str are sequences with python slice clamping; list mutation has value semantics (no aliasing of mutated lists); left-to-right evaluation",
    "invariant induction over histories and rely/guarantee soundness for cooperative scheduling (meta-theorems)",
    "preconditions of the sidecar contracts (`requires`): proved at every call site INSIDE the package, assumed for calls from outside - "
    "e.g. the connection classes are verified for requests whose URL scheme the pool has already accepted (a direct user handing an "
    "ftp:// URL to an HTTPConnection gets a KeyError from URL.origin), limits are non-negative, a network back end is given",
]


if __name__ == "__main__":
    sys.exit(main())
