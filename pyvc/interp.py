"""Direct-style symbolic interpreter over the python ast (one path per run)."""
from __future__ import annotations

import ast

import z3

from .values import *  # noqa: F401,F403
from .engine import (
    BreakSig,
    ContinueSig,
    Ctx,
    Engine,
    Event,
    Infeasible,
    PathEnd,
    PyRaise,
    ReturnSig,
    State,
    Unsupported,
    VHeapDict,
    typ,
)
from .registry import CtxHandler, IterHandler
from .source import FuncInfo
from . import builtins_ as B


class VCtx(V):
    kind = "ctx"

    def __init__(self, handler: CtxHandler):
        self.handler = handler


class Loc:
    """An assignable location."""

    def __init__(self, kind, **kw):
        self.kind = kind
        self.__dict__.update(kw)


class Interp:
    def __init__(self, eng: Engine, fi: FuncInfo, depth=0):
        self.eng = eng
        self.fi = fi
        self.module = fi.module
        self.exc_stack: list = []
        self.depth = depth
        self.loop_ordinal = 0
        self.loop_ordinals: dict = {}
        self._number_loops(fi.node)
        self.contract = None
        self.ctx = None

    # ------------------------------------------------------------------ setup
    def _number_loops(self, fnode):
        n = 0
        for node in ast.walk(fnode):
            if isinstance(node, (ast.While, ast.For, ast.AsyncFor)):
                pass
        # deterministic source order
        class Vis(ast.NodeVisitor):
            def __init__(s):
                s.n = 0
                s.map = {}

            def generic_visit(s, node):
                if isinstance(node, (ast.While, ast.For, ast.AsyncFor)):
                    s.map[id(node)] = s.n
                    s.n += 1
                ast.NodeVisitor.generic_visit(s, node)

        v = Vis()
        v.visit(fnode)
        self.loop_ordinals = v.map

    def site(self, node) -> str:
        return f"{self.fi.file}:{getattr(node, 'lineno', 0)}"

    # kinds from annotations ------------------------------------------------------
    def kind_from_annotation(self, ann) -> str:
        if ann is None:
            return "val"
        src = ast.unparse(ann)
        if src in self.eng.reg.annotation_kinds:
            return self.eng.reg.annotation_kinds[src]
        simple = {"int": "int", "bytes": "bytes", "str": "str", "bool": "bool", "float": "real"}
        if src in simple:
            return simple[src]
        if isinstance(ann, ast.Constant) and isinstance(ann.value, str):
            try:
                return self.kind_from_annotation(ast.parse(ann.value, mode="eval").body)
            except SyntaxError:
                return "val"
        if isinstance(ann, ast.BinOp) and isinstance(ann.op, ast.BitOr):
            parts = []
            n = ann
            while isinstance(n, ast.BinOp) and isinstance(n.op, ast.BitOr):
                parts.append(n.right)
                n = n.left
            parts.append(n)
            non_none = [p for p in parts if not (isinstance(p, ast.Constant) and p.value is None)]
            if len(non_none) == 1:
                k = self.kind_from_annotation(non_none[0])
                if k.startswith("ref:"):
                    return k
                return "val"
            return "val"
        d = self.dotted(ann)
        if d is not None:
            g = self.resolve_global_name(d)
            if g is not None and (self.eng.classes.known(g) or g in self.eng.reg.class_fields):
                return "ref:" + g
        return "val"

    def dotted(self, node):
        if isinstance(node, ast.Name):
            return node.id
        if isinstance(node, ast.Attribute):
            b = self.dotted(node.value)
            return None if b is None else b + "." + node.attr
        return None

    def resolve_global_name(self, dotted: str):
        """local dotted name -> canonical global dotted name, or None."""
        mi = self.eng.repo.modules[self.module]
        head, _, rest = dotted.partition(".")
        if head in mi.imports:
            g = mi.imports[head] + ("." + rest if rest else "")
        elif head in mi.classes or head in mi.funcs or head in mi.consts:
            g = f"{self.module}.{dotted}"
        else:
            g = dotted  # builtin or unknown
        return self.eng.canon(g)

    # ------------------------------------------------------------------ top level
    def run_top(self, st: State, contract) -> str:
        eng = self.eng
        self.contract = contract
        fnode = self.fi.node
        args = {}
        a = fnode.args
        allargs = list(a.posonlyargs) + list(a.args) + list(a.kwonlyargs)
        self_v = None
        for i, arg in enumerate(allargs):
            name = arg.arg
            if i == 0 and self.fi.cls and name == "self":
                cls_key = eng.canon(f"{self.fi.module}.{self.fi.cls}")
                r = z3.Int("self")
                v = VRef(r, cls_key)
                eng.assume(st, r > 0)
                eng.assume_alive(st, v)
                self_v = v
            else:
                vp = eng.cur_variant_params or {}
                kind = vp.get(name) or contract.params.get(name) or self.kind_from_annotation(arg.annotation)
                if callable(kind):
                    v = kind(eng, st)
                    args[name] = v
                    st.env[name] = v
                    continue
                v = eng.mk(kind, f"arg_{name}")
                if isinstance(v, VRef):
                    eng.assume_alive(st, v)
                    nn = contract.params.get(name + "!nonnull", not self._annotation_optional(arg.annotation))
                    if nn:
                        eng.assume(st, v.t > 0)
            args[name] = v
            st.env[name] = v
        if a.vararg or a.kwarg:
            raise Unsupported(f"{self.fi.key}: *args/**kwargs parameters")
        old_heap = st.snapshot_heap()
        ctx = Ctx(eng, st, self.fi, args, old_heap, self_v)
        ctx.interp = self
        self.ctx = ctx
        eng.cur_ctx = ctx
        contract.setup(ctx)
        ctx.old_heap = st.snapshot_heap()
        for label, cond in contract.requires(ctx):
            eng.assume(st, eng.z_bool(cond))
        if not eng.feasible(st):
            raise Unsupported(f"{self.fi.key}: precondition is unsatisfiable (vacuous contract)")
        eng.cover(f"{eng.canon_func_key(self.fi.key)}:entry")
        try:
            self.exec_stmts(st, fnode.body)
            ctx.result = NONE
            outcome = "normal"
        except ReturnSig as r:
            ctx.result = r.value
            outcome = "normal"
        except PyRaise as pr:
            ctx.exc = pr.exc
            outcome = "raise"
        fkey = eng.canon_func_key(self.fi.key)
        if outcome == "normal":
            eng.cover(f"{fkey}:exit-normal")
            for label, props, goal in list(contract.ensures(ctx)) + list(contract.checks(ctx)):
                eng.oblige(st, label, goal, props=props, kind="post")
        else:
            exc = ctx.exc
            eng.cover(f"{fkey}:exit-raise:{exc.cls}")
            if contract.raises is not None and not exc.tag.get("assumed_absent"):
                ok = any(eng.classes.issub(exc.cls, c) for c in contract.raises)
                eng.oblige(
                    st,
                    f"escapes[{exc.cls}]",
                    ok,
                    props=getattr(contract, "raises_props", ("C15",)),
                    kind="raises",
                    extra={"exc": exc.cls},
                )
            for label, props, goal in list(contract.exc_ensures(ctx, exc)) + list(contract.exc_checks(ctx, exc)):
                eng.oblige(st, label, goal, props=props, kind="exc-post")
        return outcome

    @staticmethod
    def _annotation_optional(ann) -> bool:
        if ann is None:
            return True
        src = ast.unparse(ann)
        return "None" in src or "Optional" in src

    # ------------------------------------------------------------------ statements
    def exec_stmts(self, st, stmts):
        for s in stmts:
            self.exec_stmt(st, s)

    def exec_stmt(self, st, node):
        m = getattr(self, "s_" + type(node).__name__, None)
        if m is None:
            raise Unsupported(f"{self.site(node)}: statement {type(node).__name__}")
        return m(st, node)

    def s_Pass(self, st, node):
        pass

    def s_Import(self, st, node):
        pass

    def s_ImportFrom(self, st, node):
        pass

    def s_Expr(self, st, node):
        if isinstance(node.value, ast.Constant):
            return  # docstring
        self.eval(st, node.value)

    def s_Assign(self, st, node):
        v = self.eval(st, node.value)
        for t in node.targets:
            self.assign(st, t, v)

    def s_AnnAssign(self, st, node):
        if node.value is None:
            return
        v = self.eval(st, node.value)
        self.assign(st, node.target, v)

    def s_AugAssign(self, st, node):
        cur = self.eval(st, self._load_of(node.target))
        rhs = self.eval(st, node.value)
        v = B.binop(self, st, node.op, cur, rhs, node)
        self.assign(st, node.target, v)

    @staticmethod
    def _load_of(target):
        import copy

        t = copy.copy(target)
        t.ctx = ast.Load()
        return t

    def assign(self, st, target, v: V):
        eng = self.eng
        if isinstance(target, ast.Name):
            st.env[target.id] = v
            return
        if isinstance(target, (ast.Tuple, ast.List)):
            items = self.unpack(st, v, len(target.elts), target)
            for t, x in zip(target.elts, items):
                self.assign(st, t, x)
            return
        if isinstance(target, ast.Attribute):
            obj = self.eval(st, target.value)
            if isinstance(obj, VRef):
                fk = eng.field_kind(obj.cls, target.attr)
                if fk is None:
                    h = eng.reg.attrs.get((obj.cls, "set:" + target.attr))
                    if h is not None:
                        return h(self, st, obj, v)
                    # an attribute no sidecar declares (typically one a refactoring has just introduced): kept in a path-local
                    # side table keyed by the syntactic reference, valid until the next suspension point (then forgotten:
                    # a later read is refused, never guessed).  No obligation can talk about it; values flowing through it
                    # into declared fields are tracked exactly.
                    st.ghost.setdefault("extra_attrs", {})[(str(z3.simplify(obj.t)), target.attr)] = v
                    return
                key, kind = fk
                self.on_field_write(st, obj, key, v, target)
                eng.heap_write(st, obj, key, v, kind)
                return
            raise Unsupported(f"{self.site(target)}: attribute store on {obj!r}")
        if isinstance(target, ast.Subscript):
            obj = self.eval(st, target.value)
            idx = self.eval(st, target.slice)
            if isinstance(obj, VHeapDict):
                k = eng.coerce(st, idx, obj.kk)
                self.emit(st, "dict.set", target, dict_key=obj.key, owner=obj.ref, key=k, value=v, held=list(st.held))
                obj.set(eng, st, k.t, v)
                return
            if isinstance(obj, VDict):
                # local dict literal mutation: functional update through the variable
                key = B.py_key(idx)
                obj.items[key] = v
                return
            h = None
            if isinstance(obj, VRef):
                h = eng.reg.find_method_stub(eng, obj.cls, "__setitem__")
            if h is not None:
                return h(self, st, obj, [idx, v], {}, target)
            raise Unsupported(f"{self.site(target)}: subscript store on {obj!r}")
        raise Unsupported(f"{self.site(target)}: assignment target {type(target).__name__}")

    def on_field_write(self, st, obj, key, v, node):
        """hook: guarded_by / frame obligations are raised from here by the contract"""
        c = self.contract
        st.trace.append(Event("field.write", {"key": key, "obj": obj, "value": v, "held": list(st.held)}, self.site(node)))
        hook = getattr(c, "on_field_write", None)
        if hook is not None:
            for label, props, goal in hook(self.ctx, obj, key, v, node) or []:
                self.eng.oblige(st, label, goal, props=props, kind="call-pre", extra={"site": self.site(node)})
        for h in self.eng.reg.__dict__.get("field_write_hooks", []):
            h(self, st, obj, key, v, node)

    def on_field_read(self, st, obj, key, node):
        if key in self.eng.reg.__dict__.get("watch_reads", ()):
            st.trace.append(Event("field.read", {"key": key, "obj": obj, "held": list(st.held)}, self.site(node)))
        for h in self.eng.reg.__dict__.get("field_read_hooks", []):
            h(self, st, obj, key, node)

    def unpack(self, st, v: V, n: int, node):
        eng = self.eng
        v = eng.unbox(st, v)
        if isinstance(v, (VTuple, VList)):
            if len(v.items) != n:
                eng.raise_(st, "ValueError")
            return v.items
        if isinstance(v, VHdr) and n == 2:
            return [VBytes(HdrS.hk(v.t)), VBytes(HdrS.hv(v.t))]
        if isinstance(v, VVal):
            # opaque tuple: projections
            out = []
            for i in range(n):
                f = z3.Function(f"proj{i}of{n}", ValS, ValS)
                out.append(VVal(f(v.t)))
            return out
        if isinstance(v, VRef):
            h = eng.reg.find_method_stub(eng, v.cls, "__unpack__")
            if h is not None:
                return h(self, st, v, [VInt(n)], {}, node)
        raise Unsupported(f"{self.site(node)}: unpack {v!r}")

    def s_Return(self, st, node):
        v = NONE if node.value is None else self.eval(st, node.value)
        raise ReturnSig(v)

    def s_Break(self, st, node):
        raise BreakSig()

    def s_Continue(self, st, node):
        raise ContinueSig()

    def _try_merge_if(self, st, node) -> bool:
        """`if COND: x = E` (no else) with a side-effect-free condition and a scalar local `x`: join the two
        outcomes into x = If(COND, E, x) instead of forking the path.  Purely an optimisation (same semantics);
        anything that would fork, raise or touch the heap falls back to the ordinary branch."""
        if node.orelse or len(node.body) != 1:
            return False
        a = node.body[0]
        if not (isinstance(a, ast.Assign) and len(a.targets) == 1 and isinstance(a.targets[0], ast.Name)):
            return False
        name = a.targets[0].id
        old = st.env.get(name)
        if not isinstance(old, (VBytes, VInt, VBool, VStr, VReal)):
            return False
        eng = self.eng
        n_trail, n_pc, n_log, n_trace, n_vcs = len(eng.oracle.trail), len(st.pc), len(st.log), len(st.trace), len(eng.vcs)
        heap0 = dict(st.heap)
        try:
            cond = B.pure_cond(self, st, node.test)
            new = B.pure_eval(self, st, a.value)
        except (Unsupported, PyRaise, Infeasible):
            ok = False  # would fork / raise / be infeasible on one side: leave it to the ordinary branch
        else:
            ok = type(new) is type(old) and not isinstance(cond, bool)
        clean = (len(eng.oracle.trail), len(st.pc), len(st.trace), len(eng.vcs)) == (n_trail, n_pc, n_trace, n_vcs) and all(st.heap.get(k) is v for k, v in heap0.items()) and len(st.heap) == len(heap0)
        if not (ok and clean):
            if not clean:
                raise Unsupported(f"{self.site(node)}: conditional assignment with side effects during the merge attempt")
            del st.log[n_log:]
            return False
        st.env[name] = type(old)(z3.If(eng.z_bool(cond), new.t, old.t))
        st.log.append(f"if@{node.lineno}: merged into {name}")
        return True

    def s_If(self, st, node):
        if self.depth >= 0 and self._try_merge_if(st, node):
            return
        c = self.eval_cond(st, node.test, label=f"if@{node.lineno}")
        if c:
            self.exec_stmts(st, node.body)
        else:
            self.exec_stmts(st, node.orelse)

    def s_Assert(self, st, node):
        c = self.eval_cond(st, node.test, label=f"assert@{node.lineno}")
        if not c:
            self.eng.raise_(st, "AssertionError", tag={"site": self.site(node), "src": ast.unparse(node.test)})

    def s_Raise(self, st, node):
        if node.exc is None:
            if not self.exc_stack:
                raise Unsupported(f"{self.site(node)}: bare raise outside handler")
            raise PyRaise(self.exc_stack[-1])
        v = self.eval(st, node.exc)
        if isinstance(v, VClass):
            v = VExc(v.name)
        if isinstance(v, VVal):
            v = self.eng.unbox(st, v)
        if isinstance(v, VVal):
            # re-raise of a stored exception object whose class is not tracked: representative classes
            classes = getattr(self.contract, "opaque_raise_classes", None) or ["OtherException"]
            k = self.eng.choose(st, len(classes), f"opaque-raise@{node.lineno}", classes) if len(classes) > 1 else 0
            v = VExc(classes[k], tag={"opaque": True})
        if not isinstance(v, VExc):
            raise Unsupported(f"{self.site(node)}: raise of {v!r}")
        if node.cause is not None:
            cv = self.eval(st, node.cause)
            v.cause = cv
        v.tag.setdefault("held", list(st.held))
        v.tag.setdefault("shield", st.shield)
        v.tag.setdefault("trace_len", len(st.trace))
        v.tag.setdefault("raised_at", self.site(node))
        st.log.append(f"raise {v.cls} @{node.lineno}")
        raise PyRaise(v)

    def s_Delete(self, st, node):
        eng = self.eng
        for t in node.targets:
            if isinstance(t, ast.Subscript):
                obj = self.eval(st, t.value)
                idx = self.eval(st, t.slice)
                if isinstance(obj, VHeapDict):
                    k = eng.coerce(st, idx, obj.kk)
                    has = obj.has(eng, st, k.t)
                    if not eng.branch(st, has, f"del-key-present@{t.lineno}"):
                        eng.raise_(st, "KeyError", tag={"site": self.site(t)})
                    self.emit(st, "dict.del", t, dict_key=obj.key, owner=obj.ref, key=k, held=list(st.held))
                    obj.delete(eng, st, k.t)
                    continue
                if isinstance(obj, VRef):
                    h = eng.reg.find_method_stub(eng, obj.cls, "__delitem__")
                    if h is not None:
                        h(self, st, obj, [idx], {}, t)
                        continue
                raise Unsupported(f"{self.site(t)}: del on {obj!r}")
            elif isinstance(t, ast.Name):
                st.env.pop(t.id, None)
            else:
                raise Unsupported(f"{self.site(t)}: del target")

    # --- try / with -----------------------------------------------------------------
    def s_Try(self, st, node):
        pending = None
        try:
            try:
                self.exec_stmts(st, node.body)
            except PyRaise as pr:
                handled = False
                for h in node.handlers:
                    if h.type is None or self.eng.exc_matches(pr.exc, self.eval(st, h.type)):
                        handled = True
                        if h.name:
                            st.env[h.name] = pr.exc
                        self.exc_stack.append(pr.exc)
                        st.log.append(f"except {pr.exc.cls} @{h.lineno}")
                        st.trace.append(Event("except", {"exc": pr.exc, "cls": pr.exc.cls}, self.site(h)))
                        try:
                            self.exec_stmts(st, h.body)
                        finally:
                            self.exc_stack.pop()
                        break
                if not handled:
                    raise
            else:
                self.exec_stmts(st, node.orelse)
        except (PyRaise, ReturnSig, BreakSig, ContinueSig) as sig:
            pending = sig
        if node.finalbody:
            self.exec_stmts(st, node.finalbody)
        if pending is not None:
            raise pending

    def s_With(self, st, node):
        self._with(st, node.items, node.body, node, is_async=False)

    def s_AsyncWith(self, st, node):
        self._with(st, node.items, node.body, node, is_async=True)

    def _with(self, st, items, body, node, is_async):
        if not items:
            return self.exec_stmts(st, body)
        item = items[0]
        cm = self.eval(st, item.context_expr)
        handler = self.ctx_handler(st, cm, item.context_expr)
        handler.is_async = is_async
        handler.site = self.site(node)
        val = handler.enter(self, st)
        if item.optional_vars is not None:
            self.assign(st, item.optional_vars, val if val is not None else cm)
        try:
            self._with(st, items[1:], body, node, is_async)
        except PyRaise as pr:
            suppress = handler.exit(self, st, pr.exc)
            if not suppress:
                raise
            return
        except (ReturnSig, BreakSig, ContinueSig):
            handler.exit(self, st, None)
            raise
        handler.exit(self, st, None)

    def ctx_handler(self, st, cm: V, node) -> CtxHandler:
        if isinstance(cm, VCtx):
            return cm.handler
        if isinstance(cm, VRef):
            for k in self.eng.reg._mro(self.eng, cm.cls):
                f = self.eng.reg.ctx_by_class.get(k)
                if f is not None:
                    return f(self, st, cm)
        if isinstance(cm, VVal) and str(cm.t).startswith("attr!"):
            # `with self.<undeclared attribute>:` - an object no sidecar knows (a lock a change has just introduced, say).
            # It is entered and left like any context manager and counted as HELD in between, so that obligations of the
            # form "nothing is held across this blocking call" see it; nothing else is assumed about it.
            name = "opaque:" + str(cm.t)

            class _Opaque(CtxHandler):
                def enter(self_h, it, st_):
                    it.emit(st_, "ctx.opaque.enter", None, ctx_name=name, held=list(st_.held))
                    st_.held.append(name)
                    return cm

                def exit(self_h, it, st_, exc):
                    if name in st_.held:
                        st_.held.remove(name)
                    return False

            return _Opaque()
        raise Unsupported(f"{self.site(node)}: no context-manager model for {cm!r}")

    # --- loops ------------------------------------------------------------------------
    def s_While(self, st, node):
        def head(st):
            return self.eval_cond(st, node.test, label=f"while@{node.lineno}")

        self._loop(st, node, head)

    def s_For(self, st, node):
        self._for(st, node, is_async=False)

    def s_AsyncFor(self, st, node):
        self._for(st, node, is_async=True)

    def _for(self, st, node, is_async):
        eng = self.eng
        it = self.eval(st, node.iter)
        it = eng.unbox(st, it)
        if isinstance(it, (VList, VTuple)):
            # concrete length: unroll
            for x in it.items:
                self.assign(st, node.target, x)
                try:
                    self.exec_stmts(st, node.body)
                except BreakSig:
                    return
                except ContinueSig:
                    continue
            self.exec_stmts(st, node.orelse)
            return
        if isinstance(it, VSeq):
            # index ghost
            ordinal = self.loop_ordinals[id(node)]
            self.emit(st, "for.iter", node, seq=it, ordinal=ordinal, src=ast.unparse(node.iter), var=node.target.id if isinstance(node.target, ast.Name) else None)
            idx_name = f"$i{ordinal}"
            st.env[idx_name] = VInt(0)
            seq = it

            def head(st):
                i = st.env[idx_name]
                more = eng.branch(st, i.t < z3.Length(seq.t), f"for-more@{node.lineno}")
                if more:
                    eng.assume(st, i.t >= 0)
                    x = wrap(seq.elem, seq.t[i.t])
                    if isinstance(x, VRef):
                        eng.assume(st, x.t != 0)  # lists of objects never hold None (list encoding)
                        eng.assume_alive(st, x)
                    self.assign(st, node.target, x)
                    st.env[idx_name] = VInt(i.t + 1)
                return more

            self._loop(st, node, head, extra_havoc=[idx_name], seq=seq, idx_name=idx_name)
            return
        handler = self.iter_handler(st, it, node.iter)
        handler.is_async = is_async

        def head(st):
            x = handler.next(self, st)
            if x is None:
                return False
            self.assign(st, node.target, x)
            return True

        self._loop(st, node, head, handler=handler)

    def iter_handler(self, st, v: V, node) -> IterHandler:
        if isinstance(v, VGen) and isinstance(v.payload, IterHandler):
            return v.payload
        if isinstance(v, VRef):
            for k in self.eng.reg._mro(self.eng, v.cls):
                f = self.eng.reg.iter_by_class.get(k)
                if f is not None:
                    return f(self, st, v)
        if isinstance(v, VVal):
            f = self.eng.reg.iter_by_class.get("val")
            if f is not None:
                return f(self, st, v)
        raise Unsupported(f"{self.site(node)}: no iterator model for {v!r}")

    def assigned_names(self, nodes):
        names = set()
        for n in nodes:
            for sub in ast.walk(n):
                if isinstance(sub, ast.Name) and isinstance(sub.ctx, (ast.Store, ast.Del)):
                    names.add(sub.id)
        return names

    def _loop(self, st, node, head, extra_havoc=(), **kw):
        """Cut the loop with its invariant: check at entry, havoc, assume, one arbitrary
        iteration, check again.  Without an invariant in the sidecar the invariant is `True`."""
        eng = self.eng
        ordinal = self.loop_ordinals[id(node)]
        c = self.contract
        unroll = getattr(c, "loop_unroll", lambda o: 0)(ordinal) if self.depth == 0 else 0
        inv = (lambda: c.loop_invariant(self.ctx, ordinal)) if self.depth == 0 else (lambda: None)
        # (1) establish
        goals = inv() or []
        for label, props, goal in goals:
            eng.oblige(st, f"loop{ordinal}:{label}:init", goal, props=props, kind="inv-init")
        # (2) havoc
        body_nodes = list(node.body) + ([node.test] if isinstance(node, ast.While) else [node.target])
        names = self.assigned_names(body_nodes) | set(extra_havoc)
        self.havoc_locals(st, names)
        if self.depth == 0:
            frame = c.loop_frame(ordinal)
        else:
            # a loop of an inlined helper: the contract of the function under verification may declare a frame for it
            # (checked like any other: inv-keep:loopN:frame), otherwise the whole heap is havocked
            h = getattr(c, "inlined_loop_frame", None)
            frame = h(self.fi.key, ordinal) if h is not None else None
        keys = None
        if frame is not None:
            keys = [k for k, _ in eng.reg.mutable_keys() if k not in frame]
        # keep_local=False: objects allocated on this path BEFORE the loop may be mutated by the loop body, so their
        # (non-const) fields are havocked like everything else; only the invariant / a proved loop frame keeps facts
        eng.havoc_heap(st, keys=keys, keep_local=False)
        st.trace.append(Event("loop_cut", {"ordinal": ordinal}, self.site(node)))
        hook = getattr(c, "after_loop_havoc", None)
        if hook is not None and self.depth == 0:
            hook(self.ctx, ordinal)
        for label, props, goal in inv() or []:
            eng.assume(st, eng.z_bool(goal))
        framed = {k: st.heap.get(k) for k in frame} if frame is not None else {}
        for name in extra_havoc:
            v = st.env.get(name)
            if isinstance(v, VInt) and kw.get("seq") is not None:
                eng.assume(st, z3.And(v.t >= 0, v.t <= z3.Length(kw["seq"].t)))
        # (3) one arbitrary iteration or exit
        entered = head(st)
        if not entered:
            if isinstance(node, (ast.While, ast.For, ast.AsyncFor)) and node.orelse:
                self.exec_stmts(st, node.orelse)
            return
        try:
            self.exec_stmts(st, node.body)
        except BreakSig:
            bh = getattr(c, "on_loop_break", None)
            if bh is not None and self.depth == 0:
                for label, props, goal in bh(self.ctx, ordinal) or []:
                    eng.oblige(st, f"loop{ordinal}:{label}", goal, props=props, kind="inv-keep")
            return
        except ContinueSig:
            pass
        for label, props, goal in inv() or []:
            eng.oblige(st, f"loop{ordinal}:{label}:keep", goal, props=props, kind="inv-keep")
        # a declared loop frame is an obligation, not an assumption: the heap arrays of the framed keys
        # must be the very same terms after one arbitrary iteration
        touched = sorted(k for k, a0 in framed.items() if st.heap.get(k) is not a0)
        if framed:
            eng.oblige(st, f"loop{ordinal}:frame", z3.BoolVal(not touched), props=tuple(getattr(c, "props", ())), kind="inv-keep", extra={"touched": touched})
        be = getattr(c, "on_back_edge", None)
        if be is not None and (self.depth == 0 or getattr(c, "back_edges_of_inlined_loops", False)):
            tag = f"loop{ordinal}" if self.depth == 0 else f"{self.fi.key.rsplit('.', 1)[-1]}.loop{ordinal}"
            for label, props, goal in be(self.ctx, ordinal) or []:
                eng.oblige(st, f"{tag}:{label}", goal, props=props, kind="inv-keep")
        eng.cover(f"{eng.canon_func_key(self.fi.key)}:loop{ordinal}:back-edge")
        raise PathEnd()

    def havoc_locals(self, st, names):
        eng = self.eng
        for name in sorted(names):
            v = st.env.get(name)
            if v is None:
                continue
            st.env[name] = self.havoc_value(st, v, name)

    def havoc_value(self, st, v: V, hint: str) -> V:
        eng = self.eng
        if isinstance(v, (VInt, VReal, VBool, VBytes, VStr, VVal, VHdr)):
            return eng.fresh(st, v.kind, hint)
        if isinstance(v, VRef):
            nv = eng.fresh(st, v.kind, hint)
            eng.assume_alive(st, nv)
            return nv
        if isinstance(v, VSeq):
            return eng.fresh(st, v.kind, hint)
        if isinstance(v, VOpt):
            return eng.fresh(st, v.kind, hint)
        if isinstance(v, VNone):
            return eng.fresh(st, "val", hint)
        if isinstance(v, VTuple):
            return VTuple([self.havoc_value(st, x, hint) for x in v.items])
        if isinstance(v, (VExc, VClass, VFunc, VModule, VCtx, VGen, VHeapDict)):
            return v
        if isinstance(v, VList):
            # list of unknown length afterwards: only supported when elements have a seq kind
            if v.items:
                k = v.items[0].kind
            else:
                k = st.ghost.get("list_elem_kind", {}).get(hint) or st.ghost.get("list_elem_kind", {}).get("*", "val")
            try:
                return eng.fresh(st, "seq:" + k, hint)
            except KeyError:
                raise Unsupported(f"havoc of list {hint} with element kind {k}")
        if isinstance(v, VDict):
            return VDict({k: self.havoc_value(st, x, hint) for k, x in v.items.items()})
        raise Unsupported(f"havoc of {v!r}")

    # ------------------------------------------------------------------ suspension points
    def suspend(self, st, label: str, cancellable=True):
        """An await that may suspend: interference from other tasks + cancellation delivery."""
        eng = self.eng
        if eng.tree != "async":
            return
        old = eng.havoc_heap(st, keys=eng.reg.shared_keys)
        st.ghost.pop("extra_attrs", None)
        for hook in eng.reg.rely_hooks:
            hook(self, st, old)
        st.trace.append(Event("suspend", {"label": label, "shield": st.shield}, label))
        hook = getattr(self.contract, "on_suspend", None)
        if hook is not None and self.depth == 0:
            hook(self.ctx, label)
        if cancellable and st.shield == 0:
            if st.cancelled:
                names = ["no-redelivery", "cancelled-again"]
            else:
                names = ["not-cancelled", "cancelled"]
            if eng.choose(st, 2, f"cancel@{label}", names) == 1:
                st.cancelled = True
                st.log.append(f"raise Cancelled at {label}")
                raise PyRaise(VExc("Cancelled", tag={"at": label, "held": list(st.held), "shield": st.shield, "trace_len": len(st.trace)}))

    # ------------------------------------------------------------------ expressions
    def eval_cond(self, st, node, label="") -> bool:
        v = self.eval(st, node)
        t = self.eng.truthy(st, v)
        return self.eng.branch(st, t, label or f"cond@{getattr(node, 'lineno', 0)}")

    def eval(self, st, node) -> V:
        m = getattr(self, "e_" + type(node).__name__, None)
        if m is None:
            raise Unsupported(f"{self.site(node)}: expression {type(node).__name__}")
        return m(st, node)

    def e_Constant(self, st, node):
        v = node.value
        if v is None:
            return NONE
        if isinstance(v, bool):
            return VBool(v)
        if isinstance(v, int):
            return VInt(v)
        if isinstance(v, float):
            return VReal(v)
        if isinstance(v, bytes):
            return VBytes(v)
        if isinstance(v, str):
            return VStr(v)
        if v is Ellipsis:
            return NONE
        raise Unsupported(f"constant {v!r}")

    def e_Name(self, st, node):
        if node.id in st.env:
            return st.env[node.id]
        return self.global_value(st, node.id, node)

    def global_value(self, st, dotted: str, node) -> V:
        eng = self.eng
        g = self.resolve_global_name(dotted)
        return self.global_by_canon(st, g, node)

    def global_by_canon(self, st, g: str, node) -> V:
        eng = self.eng
        reg = eng.reg
        if g in reg.consts:
            c = reg.consts[g]
            return c(self, st) if callable(c) else c
        if g in reg.intrinsics:
            if eng.classes.known(g):
                return VClass(g)
            return VFunc(g)
        tg = eng.tree_name(g)
        if eng.repo.cls(tg) is not None or eng.classes.known(g):
            return VClass(g)
        fi = eng.repo.func(tg)
        if fi is not None:
            return VFunc(g, info=fi)
        # module-level constant of a repo module
        mod, _, name = tg.rpartition(".")
        mi = eng.repo.modules.get(mod)
        if mi is not None and name in mi.consts:
            sub = Interp(eng, FuncInfo(mod, "<module>", ast.parse("pass"), None, mi.file, False, []), depth=self.depth + 1)
            sub.contract = self.contract
            sub.ctx = self.ctx
            return sub.eval(State(), mi.consts[name]) if False else sub.eval(st, mi.consts[name])
        if tg in eng.repo.modules or g in reg.__dict__.get("modules", set()):
            return VModule(g)
        if g in B.BUILTIN_FUNCS:
            return VFunc("builtins." + g)
        if g in B.BUILTIN_CLASSES or eng.classes.known(g):
            return VClass(g)
        # external modules: anything whose head is a registered module prefix
        head = g.split(".")[0]
        if head in reg.__dict__.get("module_heads", set()):
            return VModule(g)
        raise Unsupported(f"{self.site(node)}: unknown global {g}")

    def e_Attribute(self, st, node):
        eng = self.eng
        obj = self.eval(st, node.value)
        return self.getattr(st, obj, node.attr, node)

    def getattr(self, st, obj: V, name: str, node) -> V:
        eng = self.eng
        obj = eng.unbox(st, obj)
        if isinstance(obj, VRef):
            fk = eng.field_kind(obj.cls, name)
            if fk is not None:
                key, kind = fk
                self.on_field_read(st, obj, key, node)
                v = eng.heap_read(st, obj, key, kind=kind)
                if isinstance(v, VRef):
                    eng.assume_alive(st, v)
                return v
            h = eng.reg.find_attr_stub(eng, obj.cls, name)
            if h is not None:
                return h(self, st, obj)
            xa = st.ghost.get("extra_attrs", {}).get((str(z3.simplify(obj.t)), name))
            if xa is not None:
                return xa
            # repository property / class constant (most specific class first)
            for k in eng.reg._mro(eng, obj.cls):
                ci = eng.repo.cls(eng.tree_name(k))
                if ci is None:
                    continue
                fi = eng.repo.modules[ci.module].funcs.get(f"{ci.name}.{name}")
                if fi is not None:
                    if "property" in fi.decorators:
                        return self.call_repo(st, eng.canon(fi.key), obj, [], {}, node)
                    break
                if name in ci.consts:
                    sub = Interp(eng, FuncInfo(ci.module, "<class>", ast.parse("pass"), None, "", False, []), depth=self.depth + 1)
                    sub.contract, sub.ctx = self.contract, self.ctx
                    return sub.eval(st, ci.consts[name])
            # bound method - or an attribute nobody declared (then an opaque value named after it; calling it is refused)
            tcls = eng.tree_name(obj.cls)
            if (eng.repo.cls(tcls) is not None and eng.repo.find_method(tcls, name) is None
                    and eng.reg.find_method_stub(eng, obj.cls, name) is None and name.startswith("_") and not name.startswith("__")):
                return VVal(z3.Const(f"attr!{obj.cls.rsplit('.', 1)[-1]}.{name}", ValS))
            return VFunc(name, bound=obj)
        if isinstance(obj, VModule):
            return self.global_by_canon(st, eng.canon(obj.name + "." + name), node)
        if isinstance(obj, VClass):
            # enum member / class constant / classmethod
            g = obj.name + "." + name
            if g in eng.reg.consts or g in eng.reg.intrinsics:
                return self.global_by_canon(st, g, node)
            ci = eng.repo.cls(eng.tree_name(obj.name))
            if ci is not None and name in ci.consts:
                val = ci.consts[name]
                if ci.is_enum and isinstance(val, ast.Constant):
                    return VInt(val.value)
                return self.eval(st, val)
            if name == "__name__":
                return VStr(obj.name.rsplit(".", 1)[-1])
            raise Unsupported(f"{self.site(node)}: class attribute {g}")
        if isinstance(obj, VExc):
            return VVal(z3.Const(f"excattr_{name}", ValS))
        if isinstance(obj, (VBytes, VStr, VVal, VList, VSeq, VDict, VHeapDict, VTuple, VSet, VOpt, VInt, VHdr)):
            return VFunc(name, bound=obj)
        raise Unsupported(f"{self.site(node)}: attribute {name} of {obj!r}")

    def e_Await(self, st, node):
        return self.eval(st, node.value)

    def e_Yield(self, st, node):
        v = NONE if node.value is None else self.eval(st, node.value)
        st.trace.append(Event("yield", {"value": v}, self.site(node)))
        hook = getattr(self.contract, "on_yield", None)
        if hook is not None and self.depth == 0:
            hook(self.ctx, v, node)
        # consumer may resume us, or close the generator (GeneratorExit) at this point
        self.suspend(st, f"yield@{node.lineno}", cancellable=False)
        names = ["resumed", "closed"]
        # a generator used as a context manager (contextlib.[async]contextmanager) gets whatever the body of the
        # `with` statement raised thrown in at its yield: the contract lists the classes (`yield_throws`)
        throws = list(getattr(self.contract, "yield_throws", []) or []) if self.depth == 0 else []
        k = self.eng.choose(st, 2 + len(throws), f"yield@{node.lineno}", names + [t.rsplit(".", 1)[-1] for t in throws])
        if k == 1:
            raise PyRaise(VExc("GeneratorExit", tag={"at": self.site(node)}))
        if k >= 2:
            st.trace.append(Event("yield.throw", {"cls": throws[k - 2]}, self.site(node)))
            raise PyRaise(VExc(throws[k - 2], tag={"at": self.site(node), "thrown_at_yield": True}))
        return NONE

    def e_Tuple(self, st, node):
        return VTuple([self.eval(st, e) for e in node.elts])

    def e_List(self, st, node):
        items = []
        for e in node.elts:
            if isinstance(e, ast.Starred):
                raise Unsupported("starred in list")
            items.append(self.eval(st, e))
        return VList(items)

    def e_Dict(self, st, node):
        d = {}
        for k, v in zip(node.keys, node.values):
            if k is None:
                inner = self.eval(st, v)
                if not isinstance(inner, VDict):
                    raise Unsupported("** of non-literal dict")
                d.update(inner.items)
                continue
            kv = self.eval(st, k)
            d[B.py_key(kv)] = self.eval(st, v)
        return VDict(d)

    def e_Set(self, st, node):
        return VTuple([self.eval(st, e) for e in node.elts])

    def e_JoinedStr(self, st, node):
        # f-strings only build messages / reprs: contents dropped (listed in DESIGN 2.2)
        for part in node.values:
            if isinstance(part, ast.FormattedValue):
                pass
        st.counter += 1
        return VStr(z3.String(f"fstr!{st.counter}"))

    def e_IfExp(self, st, node):
        if self.eval_cond(st, node.test, label=f"ifexp@{node.lineno}"):
            return self.eval(st, node.body)
        return self.eval(st, node.orelse)

    def e_BoolOp(self, st, node):
        # python semantics: value of the deciding operand
        is_and = isinstance(node.op, ast.And)
        v = None
        for i, sub in enumerate(node.values):
            v = self.eval(st, sub)
            if i == len(node.values) - 1:
                return v
            t = self.eng.truthy(st, v)
            c = self.eng.branch(st, t, f"{'and' if is_and else 'or'}@{node.lineno}.{i}")
            if is_and and not c:
                return v
            if not is_and and c:
                return v
        return v

    def e_UnaryOp(self, st, node):
        v = self.eval(st, node.operand)
        if isinstance(node.op, ast.Not):
            t = self.eng.truthy(st, v)
            return VBool(self.eng.z_bool(self.eng.z_not(t)))
        if isinstance(node.op, ast.USub):
            if isinstance(v, VInt):
                return VInt(-v.t)
            if isinstance(v, VReal):
                return VReal(-v.t)
        raise Unsupported(f"{self.site(node)}: unary {type(node.op).__name__}")

    def e_BinOp(self, st, node):
        a = self.eval(st, node.left)
        b = self.eval(st, node.right)
        return B.binop(self, st, node.op, a, b, node)

    def e_Compare(self, st, node):
        left = self.eval(st, node.left)
        result = None
        for op, rnode in zip(node.ops, node.comparators):
            right = self.eval(st, rnode)
            t = B.compare(self, st, op, left, right, node)
            result = t if result is None else self.eng.z_and([result, t])
            left = right
        return VBool(self.eng.z_bool(result))

    def e_Subscript(self, st, node):
        obj = self.eval(st, node.value)
        if isinstance(node.slice, ast.Slice):
            lo = None if node.slice.lower is None else self.eval(st, node.slice.lower)
            hi = None if node.slice.upper is None else self.eval(st, node.slice.upper)
            if node.slice.step is not None:
                raise Unsupported("slice step")
            return B.slice_(self, st, obj, lo, hi, node)
        idx = self.eval(st, node.slice)
        return B.index(self, st, obj, idx, node)

    def e_Slice(self, st, node):
        raise Unsupported("bare slice")

    def e_Starred(self, st, node):
        raise Unsupported("starred")

    def e_ListComp(self, st, node):
        return B.comprehension(self, st, node, "list")

    def e_GeneratorExp(self, st, node):
        return B.comprehension(self, st, node, "gen")

    def e_SetComp(self, st, node):
        return B.comprehension(self, st, node, "set")

    def e_DictComp(self, st, node):
        return B.dict_comprehension(self, st, node)

    def e_Lambda(self, st, node):
        # a lambda with positional parameters only: a function value that closes over the current local environment
        a = node.args
        if a.vararg or a.kwarg or a.kwonlyargs or a.defaults or a.posonlyargs:
            raise Unsupported("lambda with defaults / *args / keyword-only parameters")
        return VFunc("<lambda>", info={"lambda": node, "env": dict(st.env)})

    # ------------------------------------------------------------------ calls
    def e_Call(self, st, node):
        eng = self.eng
        # evaluate callee
        f = node.func
        args = []
        kwargs = {}
        if (isinstance(f, ast.Attribute) and isinstance(f.value, ast.Call) and isinstance(f.value.func, ast.Name)
                and f.value.func.id == "super" and not f.value.args and not f.value.keywords):
            # super().m(...): the next definition of m after the current class in the receiver's MRO (repository classes)
            callee = ("super", None, f.attr)
        elif isinstance(f, ast.Attribute):
            recv = self.eval(st, f.value)
            recv = eng.unbox(st, recv)
            callee = ("method", recv, f.attr)
        else:
            fv = self.eval(st, f)
            callee = ("value", fv, None)
        for a in node.args:
            if isinstance(a, ast.Starred):
                sv = eng.unbox(st, self.eval(st, a.value))
                if isinstance(sv, (VTuple, VList)):
                    args.extend(sv.items)
                else:
                    args.append(("*", sv))
                continue
            args.append(self.eval(st, a))
        for kw in node.keywords:
            v = self.eval(st, kw.value)
            if kw.arg is None:
                v = eng.unbox(st, v)
                if not isinstance(v, VDict):
                    raise Unsupported(f"{self.site(node)}: **{v!r}")
                for k, x in v.items.items():
                    kwargs[k] = x
            else:
                kwargs[kw.arg] = v
        if callee[0] == "super":
            self_v = st.env.get("self")
            if not isinstance(self_v, VRef) or not self.fi.cls:
                raise Unsupported(f"{self.site(node)}: super() outside a method")
            here = eng.canon(f"{self.fi.module}.{self.fi.cls}")
            mro = eng.reg._mro(eng, here)
            for k in mro[1:]:
                ci = eng.repo.cls(eng.tree_name(k))
                if ci is None:
                    continue
                fi2 = eng.repo.modules[ci.module].funcs.get(f"{ci.name}.{eng.tree_name(callee[2]) if False else callee[2]}")
                if fi2 is not None:
                    return self.call_repo(st, eng.canon(fi2.key), self_v, args, kwargs, node)
            raise Unsupported(f"{self.site(node)}: super().{callee[2]} not found in the repository bases of {here}")
        if callee[0] == "method":
            return self.call_method(st, callee[1], callee[2], args, kwargs, node)
        return self.call_value(st, callee[1], args, kwargs, node)

    def call_value(self, st, fv: V, args, kwargs, node) -> V:
        eng = self.eng
        reg = eng.reg
        fv = eng.unbox(st, fv)
        if isinstance(fv, VFunc) and isinstance(fv.info, dict) and "lambda" in fv.info:
            lam = fv.info["lambda"]
            names = [x.arg for x in lam.args.args]
            if kwargs or len(args) != len(names):
                raise Unsupported(f"{self.site(node)}: call of a lambda with {len(args)} positional / {len(kwargs)} keyword arguments")
            saved = st.env
            st.env = dict(fv.info["env"])
            st.env.update(dict(zip(names, args)))
            try:
                return self.eval(st, lam.body)
            finally:
                st.env = saved
        if isinstance(fv, VFunc):
            pre = getattr(fv, "pre_args", None)
            if pre:  # functools.partial(f, *pre)
                args = list(pre) + list(args)
            if fv.bound is not None:
                return self.call_method(st, fv.bound, fv.name, args, kwargs, node)
            if fv.name.startswith("builtins."):
                return B.BUILTIN_FUNCS[fv.name[9:]](self, st, args, kwargs, node)
            if fv.name in reg.intrinsics:
                return reg.intrinsics[fv.name](self, st, args, kwargs, node)
            return self.call_repo(st, fv.name, None, args, kwargs, node)
        if isinstance(fv, VClass):
            name = fv.name
            if name in reg.intrinsics:
                return reg.intrinsics[name](self, st, args, kwargs, node)
            if eng.classes.issub(name, "BaseException"):
                return VExc(name, args)
            if name in B.BUILTIN_CLASSES:
                return B.BUILTIN_CLASSES[name](self, st, args, kwargs, node)
            tname = eng.tree_name(name)
            if eng.repo.cls(tname) is not None:
                obj = eng.alloc(st, name, hint=name.rsplit(".", 1)[-1])
                init = eng.repo.find_method(tname, "__init__")
                if init is not None:
                    self.call_repo(st, eng.canon(init.key), obj, args, kwargs, node)
                return obj
            raise Unsupported(f"{self.site(node)}: constructor {name}")
        if isinstance(fv, VVal):
            h = reg.intrinsics.get("$call_val")
            if h is not None:
                return h(self, st, [fv] + list(args), kwargs, node)
        raise Unsupported(f"{self.site(node)}: call of {fv!r}")

    def call_method(self, st, recv: V, name: str, args, kwargs, node) -> V:
        eng = self.eng
        reg = eng.reg
        if isinstance(recv, VRef):
            # most specific class first: a sidecar stub or the repository method defined there
            for k in reg._mro(eng, recv.cls):
                h = reg.methods.get((k, name))
                if h is not None:
                    return h(self, st, recv, args, kwargs, node)
                ci = eng.repo.cls(eng.tree_name(k))
                if ci is not None:
                    fi = eng.repo.modules[ci.module].funcs.get(f"{ci.name}.{eng.tree_name(name) if False else name}")
                    if fi is not None:
                        return self.call_repo(st, eng.canon(fi.key), recv, args, kwargs, node)
            raise Unsupported(f"{self.site(node)}: no model for method {recv.cls}.{name}")
        if isinstance(recv, VModule):
            fv = self.global_by_canon(st, eng.canon(recv.name + "." + name), node)
            return self.call_value(st, fv, args, kwargs, node)
        if isinstance(recv, VClass):
            g = recv.name + "." + name
            if g in reg.intrinsics:
                return reg.intrinsics[g](self, st, args, kwargs, node)
            raise Unsupported(f"{self.site(node)}: class method {g}")
        return B.call_builtin_method(self, st, recv, name, args, kwargs, node)

    def call_repo(self, st, key: str, self_v, args, kwargs, node) -> V:
        """Call of a repository function: by contract, or by inlining when marked inline."""
        eng = self.eng
        c = eng.reg.contracts.get(key)
        if c is not None and not c.inline and not (self.depth == 0 and False):
            ev = Event("call:" + key, {"self": self_v, "args": args, "kwargs": kwargs, "shield": st.shield, "held": list(st.held)}, self.site(node))
            st.trace.append(ev)
            self.fire_callsite(st, ev)
            res = c.apply(self, st, self_v, args, kwargs, node)
            ev.data["result"] = res
            return res
        if c is None and key not in eng.reg.inline_ok:
            # a repository helper without a sidecar contract (typically one that a refactoring has just extracted): its
            # REAL body is inlined - always sound, it is the most precise contract there is - unless it is a generator.
            # Recorded per function in the evidence (`helpers_inlined_without_contract`).
            fi = eng.repo.func(eng.tree_name(key))
            if fi is None or any(isinstance(n, (ast.Yield, ast.YieldFrom)) for n in ast.walk(fi.node)):
                raise Unsupported(f"{self.site(node)}: callee {key} has neither contract nor inline permission")
            eng.stats.setdefault("auto_inlined", [])
            if key not in eng.stats["auto_inlined"]:
                eng.stats["auto_inlined"].append(key)
            # the body is what gets inlined: a decorator that wraps the helper (a cache, say) is not - that is an obligation
            from .structural import ALLOWED_DECORATORS
            bad = [d for d in fi.decorators if d not in ALLOWED_DECORATORS]
            if bad:
                eng.oblige(st, f"helper_{key.rsplit('.', 1)[-1]}_is_not_wrapped_by_a_decorator_that_changes_what_a_call_does", False,
                           props=tuple(getattr(self.contract, "props", ()) or ()), kind="frame", extra={"decorators": bad, "site": self.site(node)})
        return self.inline_call(st, key, self_v, args, kwargs, node)

    def inline_call(self, st, key, self_v, args, kwargs, node) -> V:
        eng = self.eng
        fi = eng.repo.func(eng.tree_name(key))
        if fi is None:
            raise Unsupported(f"{self.site(node)}: function {key} not found in tree")
        if self.depth > 6:
            raise Unsupported(f"inline depth exceeded at {key}")
        sub = Interp(eng, fi, depth=self.depth + 1)
        sub.contract = self.contract
        sub.ctx = self.ctx
        env = self.bind_args(st, fi, self_v, args, kwargs, node, sub)
        saved = st.env
        st.env = env
        try:
            try:
                sub.exec_stmts(st, fi.node.body)
                result = NONE
            except ReturnSig as r:
                result = r.value
        finally:
            st.env = saved
        return result

    def bind_args(self, st, fi: FuncInfo, self_v, args, kwargs, node, sub) -> dict:
        a = fi.node.args
        params = [x.arg for x in list(a.posonlyargs) + list(a.args)]
        env = {}
        pos = list(args)
        if fi.cls and params and params[0] in ("self", "cls") and not any(d == "staticmethod" for d in fi.decorators):
            env[params[0]] = self_v
            params = params[1:]
        for p, v in zip(params, pos):
            env[p] = v
        if len(pos) > len(params):
            raise Unsupported(f"{self.site(node)}: too many positional args for {fi.key}")
        for k, v in kwargs.items():
            env[k] = v
        # defaults
        defaults = list(a.defaults)
        allpos = [x.arg for x in list(a.posonlyargs) + list(a.args)]
        for name, d in zip(allpos[len(allpos) - len(defaults):], defaults):
            if name not in env:
                env[name] = sub.eval(st, d)
        for kwarg, d in zip(a.kwonlyargs, a.kw_defaults):
            if kwarg.arg not in env:
                if d is None:
                    raise Unsupported(f"{self.site(node)}: missing keyword {kwarg.arg} for {fi.key}")
                env[kwarg.arg] = sub.eval(st, d)
        for name in allpos:
            if name not in env:
                raise Unsupported(f"{self.site(node)}: missing argument {name} for {fi.key}")
        return env

    def target_key(self, st, target, recv=None) -> str:
        """name of a mutated list by ROLE, independent of local variable names:
        'Pool._connections' (heap key of the attribute), 'H2._events[]' (item of a dict field),
        'local' (a local variable)"""
        loc = getattr(recv, "loc", None)
        if loc is not None and loc[0] == "heapdict":
            return loc[1].key + "[]"
        if isinstance(target, ast.Attribute):
            try:
                obj = self.eval(st, target.value)
            except Exception:
                obj = None
            if isinstance(obj, VRef):
                fk = self.eng.field_kind(obj.cls, target.attr)
                if fk is not None:
                    return fk[0]
            return "attr:" + target.attr
        if isinstance(target, ast.Name):
            return "local"
        return "expr"

    def loop_node(self, ordinal):
        for n in ast.walk(self.fi.node):
            if isinstance(n, (ast.While, ast.For, ast.AsyncFor)) and self.loop_ordinals.get(id(n)) == ordinal:
                return n
        return None

    def loop_var(self, st, ordinal):
        """current value of the loop variable of `for` loop number `ordinal` (by position, not by name)"""
        n = self.loop_node(ordinal)
        if n is not None and isinstance(n, (ast.For, ast.AsyncFor)) and isinstance(n.target, ast.Name):
            return st.env.get(n.target.id)
        return None

    def loop_test_names(self, ordinal):
        """names of local variables compared in the test of `while` loop number `ordinal`"""
        n = self.loop_node(ordinal)
        if n is None or not isinstance(n, ast.While):
            return []
        return [x.id for x in ast.walk(n.test) if isinstance(x, ast.Name)]

    # ------------------------------------------------------------------ events
    def emit(self, st, name: str, node=None, **data) -> Event:
        ev = Event(name, data, self.site(node) if node is not None else "")
        self.eng.seen_events.add(name.split(".", 1)[0].split(":", 1)[0])
        st.trace.append(ev)
        self.fire_callsite(st, ev)
        return ev

    def fire_callsite(self, st, ev: Event):
        c = self.contract
        if c is None or self.depth != 0 and False:
            return
        eng = self.eng
        names = getattr(c, "callsite_events", None)
        if names is not None and ev.name not in names:
            return
        for label, props, goal in c.callsite(self.ctx, ev) or []:
            key = (eng.canon_func_key(self.fi.key), label)
            eng.oblige(st, label, goal, props=props, kind="call-pre", extra={"site": ev.site, "event": ev.name})
