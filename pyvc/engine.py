"""PyVC core: path-based symbolic execution of the real python ast, generating
verification conditions against sidecar contracts and discharging them with z3.

Direct-style interpreter; path exploration by re-execution under a decision
oracle (every symbolic branch / callee outcome asks the oracle; unexplored
alternatives are queued as decision prefixes).  Loops are cut by invariants,
calls by contracts (or, for helpers explicitly marked so, by inlining the real
body).  Everything the interpreter does not support raises Unsupported (-> exit 3),
never a verdict.
"""
from __future__ import annotations

import ast
import time
from dataclasses import dataclass, field

import z3

from .values import *  # noqa: F401,F403
from . import values as VV
from .source import Repo, FuncInfo


class Infeasible(Exception):
    pass


class PathEnd(Exception):
    pass


class Unsupported(Exception):
    pass


class ReturnSig(Exception):
    def __init__(self, value):
        self.value = value


class BreakSig(Exception):
    pass


class ContinueSig(Exception):
    pass


class PyRaise(Exception):
    def __init__(self, exc: VExc):
        self.exc = exc


# ------------------------------------------------------------------------------
# class table (exception hierarchy etc.)
# ------------------------------------------------------------------------------


class ClassTable:
    """Subclass relation over dotted class names.  Repo classes come from the ast;
    external ones are registered by sidecars (name -> bases)."""

    def __init__(self, repo: Repo):
        self.repo = repo
        self.ext: dict[str, list[str]] = {}
        self.ids: dict[str, int] = {}

    def register(self, name: str, bases: list[str]):
        self.ext[name] = list(bases)

    def bases(self, name: str) -> list[str]:
        ci = self.repo.cls(name)
        if ci is not None:
            return ci.bases
        return self.ext.get(name, [])

    def known(self, name: str) -> bool:
        return self.repo.cls(name) is not None or name in self.ext

    def ancestors(self, name: str) -> list[str]:
        out, todo = [], [name]
        while todo:
            k = todo.pop(0)
            if k in out:
                continue
            out.append(k)
            todo.extend(self.bases(k))
        return out

    def issub(self, a: str, b: str) -> bool:
        return b in self.ancestors(a)

    def cid(self, name: str) -> int:
        return VV.cid(name)

    def all_known(self):
        out = set(self.ext)
        for mi in self.repo.modules.values():
            for c in mi.classes.values():
                out.add(c.key)
        return out


typ = VV.typ


# ------------------------------------------------------------------------------
# oracle / explorer
# ------------------------------------------------------------------------------


class Oracle:
    def __init__(self, prefix):
        self.prefix = list(prefix)
        self.trail = []  # (choice, n, label)

    def choose(self, n: int, label: str = "") -> int:
        i = len(self.trail)
        c = self.prefix[i] if i < len(self.prefix) else 0
        if c >= n:
            raise Unsupported(f"oracle replay diverged at {label}")
        self.trail.append((c, n, label))
        return c


# ------------------------------------------------------------------------------
# state
# ------------------------------------------------------------------------------


@dataclass
class Event:
    name: str
    data: dict
    site: str = ""


class LazyArr:
    """A havocked heap array that is only materialised (fresh z3 constant + frame for the objects
    that were local at havoc time) when somebody reads it.  The cell is shared between the live
    heap and its snapshots, so `old` and `new` views agree on the constant."""

    __slots__ = ("name", "sort", "prev", "frame", "val")

    def __init__(self, name, sort, prev, frame):
        self.name = name
        self.sort = sort
        self.prev = prev
        self.frame = frame
        self.val = None

    def get(self):
        if self.val is None:
            new = z3.Const(self.name, z3.ArraySort(IntS, self.sort))
            if self.frame:
                prev = self.prev.get() if isinstance(self.prev, LazyArr) else self.prev
                for r in self.frame:
                    new = z3.Store(new, r, z3.Select(prev, r))
            self.val = new
            self.prev = None
            self.frame = None
        return self.val


class State:
    def __init__(self):
        self.env: dict[str, V] = {}
        self.heap: dict[str, object] = {}
        self.pc: list = []
        self.trace: list[Event] = []
        self.held: list[str] = []
        self.shield = 0
        self.cancelled = False
        self.log: list[str] = []
        self.ghost: dict = {}
        self.local_refs: list = []
        self.counter = 0

    def snapshot_heap(self):
        return dict(self.heap)


@dataclass
class VC:
    oid: str
    props: tuple
    pc: list
    goal: object
    log: list
    kind: str
    func: str
    tree: str
    extra: dict = field(default_factory=dict)
    run: int = 0


# ------------------------------------------------------------------------------
# contract base
# ------------------------------------------------------------------------------


class Contract:
    key = ""  # dotted async function key
    params: dict = {}
    result_kind = None
    inline = False  # callers inline the real body instead of using the contract
    trusted = False  # external / assumed: not verified against a body
    raises = None  # allowed escaping exception classes (list of dotted names) or None = unconstrained
    props: tuple = ()
    max_paths = 4000
    suspends = None  # None: derive from async-ness; True/False override
    pure_observer = False

    def setup(self, c):  # extra assumptions at entry when verifying the body
        return None

    def requires(self, c):
        return []

    def ensures(self, c):
        return []

    def exc_ensures(self, c, exc):
        return []

    def loop_invariant(self, c, ordinal):
        return None

    def loop_frame(self, ordinal):
        """names of heap keys the loop does not modify (validated syntactically)"""
        return None

    def callsite(self, c, ev):
        """obligations at an event emitted while verifying this function"""
        return []

    modifies = ()  # heap keys the function may change (havocked at call sites)
    call_raises = None  # exception classes a call may raise (default: self.raises minus implicit ones)

    def checks(self, c):
        """verify-only postconditions (may talk about the trace of this function's own execution)"""
        return []

    def exc_checks(self, c, exc):
        return []

    def apply(self, it, st, self_v, args, kwargs, node):
        """Modular use of this contract at a call site: check requires, pick an outcome,
        havoc the frame, assume the (exceptional) postcondition."""
        eng = it.eng
        fi = eng.repo.func(eng.tree_name(self.key))
        if fi is None:
            raise Unsupported(f"{self.key}: function missing in tree")
        from .interp import Interp

        sub = Interp(eng, fi, depth=it.depth + 1)
        env = it.bind_args(st, fi, self_v, args, kwargs, node, sub)
        cargs = {}
        for name, v in env.items():
            if name == "self":
                continue
            kind = self.params.get(name)
            if kind and not kind.endswith("!nonnull"):
                try:
                    v = eng.coerce(st, v, kind)
                except Unsupported:
                    pass
            cargs[name] = v
        suspends = self.suspends if self.suspends is not None else fi.is_async
        label = f"call:{self.key.rsplit('.', 2)[-2]}.{self.key.rsplit('.', 1)[-1]}@{getattr(node, 'lineno', 0)}"
        if suspends and eng.tree == "async":
            it.suspend(st, label, cancellable=getattr(self, "cancellable", True))
        c = Ctx(eng, st, fi, cargs, st.snapshot_heap(), self_v)
        c.interp = it
        c.at_call = True
        for lab, cond in self.requires(c):
            eng.oblige(st, f"{self.key.rsplit('.', 1)[-1]}.requires.{lab}", cond, props=self.props, kind="call-pre", extra={"site": it.site(node)})
        raises = list(self.call_raises if self.call_raises is not None else (self.raises or []))
        if eng.tree != "async" or st.shield > 0 or not suspends:
            raises = [r for r in raises if r != "Cancelled"]
        names = ["returns"] + [r.rsplit(".", 1)[-1] for r in raises]
        k = eng.choose(st, len(names), label, names)
        old = st.snapshot_heap()
        if self.modifies:
            eng.havoc_heap(st, keys=set(self.modifies), keep_local=False)
        c.old_heap = old
        if k == 0:
            if self.result_kind:
                res = eng.fresh(st, self.result_kind, "ret")
                if isinstance(res, VRef):
                    eng.assume_alive(st, res)
            else:
                res = NONE
            c.result = res
            rb = getattr(self, "result_builder", None)
            if rb is not None:
                c.result = res = rb(c)
            for lab, props, goal in self.ensures(c):
                eng.assume(st, eng.z_bool(goal))
            if suspends and eng.tree == "async" and getattr(self, "interfere_after", True):
                pass
            return res
        exc = VExc(raises[k - 1], tag={"from": label, "held": list(st.held), "shield": st.shield, "trace_len": len(st.trace)})
        c.exc = exc
        for lab, props, goal in self.exc_ensures(c, exc):
            eng.assume(st, eng.z_bool(goal))
        st.log.append(f"raise {exc.cls} (from {label})")
        raise PyRaise(exc)


class GeneratorContract(Contract):
    """Contract of a generator function.  At call sites the call returns an iterator whose
    every step either yields a fresh item (event 'iter.item'), ends, or raises."""

    item_kind = "bytes"

    def item_facts(self, c, item):
        return []

    def apply(self, it, st, self_v, args, kwargs, node):
        from .registry import IterHandler

        eng = it.eng
        contract = self
        fi = eng.repo.func(eng.tree_name(self.key))
        suspends = fi.is_async if fi is not None else True

        class H(IterHandler):
            def next(self_h, it_, st_):
                label = f"next:{contract.key.rsplit('.', 1)[-1]}"
                if suspends and eng.tree == "async":
                    it_.suspend(st_, label)
                raises = [r for r in (contract.call_raises if contract.call_raises is not None else (contract.raises or [])) if r != "GeneratorExit"]
                if eng.tree != "async" or st_.shield > 0:
                    raises = [r for r in raises if r != "Cancelled"]
                names = ["item", "exhausted"] + [r.rsplit(".", 1)[-1] for r in raises]
                k = eng.choose(st_, len(names), label, names)
                if contract.modifies:
                    eng.havoc_heap(st_, keys=set(contract.modifies), keep_local=False)
                if k == 0:
                    x = eng.fresh(st_, contract.item_kind, "item")
                    it_.emit(st_, "iter.item", None, source=contract.key, value=x)
                    return x
                if k == 1:
                    it_.emit(st_, "iter.exhausted", None, source=contract.key)
                    return None
                eng.raise_(st_, raises[k - 2], tag={"from": label})

        h = H()
        h.contract = contract
        h.self_v = self_v
        it.emit(st, "gen.call", node, source=contract.key, receiver=self_v)
        return VGen("repo-generator", h)


# ------------------------------------------------------------------------------
# context handed to contract callbacks
# ------------------------------------------------------------------------------


class Ctx:
    def __init__(self, eng, st, fi, args, old_heap, self_v):
        self.eng = eng
        self.st = st
        self.fi = fi
        self.args = args
        self.old_heap = old_heap
        self.self = self_v
        self.result = None
        self.exc = None

    # heap access helpers
    def new(self, ref, key):
        return self.eng.heap_read(self.st, ref, key)

    def old(self, ref, key):
        return self.eng.heap_read(self.st, ref, key, heap=self.old_heap)

    @property
    def trace(self):
        return self.st.trace

    def events(self, name):
        return [e for e in self.st.trace if e.name == name]

    def since_cut(self, names=None):
        out = []
        for e in self.st.trace:
            if e.name == "loop_cut":
                out = []
            elif names is None or e.name in names:
                out.append(e)
        return out

    def field(self, ref, key, heap=None):
        return self.eng.heap_read(self.st, ref, key, heap=heap)


# ------------------------------------------------------------------------------
# the engine
# ------------------------------------------------------------------------------


class Engine:
    def __init__(self, repo: Repo, registry, tree: str = "async", solver_timeout_ms=10000):
        self.repo = repo
        self.reg = registry  # pyvc.registry.Registry
        self.tree = tree  # 'async' | 'sync'
        self.classes = ClassTable(repo)
        for name, bases in registry.ext_classes.items():
            self.classes.register(name, bases)
        self.solver_timeout_ms = solver_timeout_ms
        self.vcs: list[VC] = []
        self.stats = {"paths": 0, "infeasible": 0, "solver_s": 0.0, "checks": 0}
        self.oracle: Oracle | None = None
        self.cur_fi: FuncInfo | None = None
        self.cur_contract: Contract | None = None
        self.cur_ctx: Ctx | None = None
        self.inline_depth = 0
        self._const_cache: dict = {}
        self.covers: dict[str, bool] = {}
        self.seen_events: set = set()
        self._callsite_ord: dict = {}
        # sync aliasing: sync dotted name -> canonical (async) dotted name
        self.alias = {}
        if tree == "sync":
            for k in registry.all_async_names():
                self.alias[repo.unasync.name(k)] = k

    # ---- naming -----------------------------------------------------------------
    def canon(self, dotted: str) -> str:
        return self.alias.get(dotted, dotted)

    def tree_name(self, async_key: str) -> str:
        return self.repo.unasync.name(async_key) if self.tree == "sync" else async_key

    def fresh(self, st: State, kind: str, hint: str = "v") -> V:
        st.counter += 1
        name = f"{hint}!{st.counter}"
        return self.mk(kind, name)

    def mk(self, kind: str, name: str) -> V:
        if kind.startswith("opt:"):
            inner = kind[4:]
            return VOpt(z3.Bool(name + "#none"), self.mk(inner, name + "#val"))
        if kind == "none":
            return NONE
        return wrap(kind, z3.Const(name, sort_of_kind(kind)))

    # ---- path condition / solver -----------------------------------------------------
    def assume(self, st: State, cond, check=False):
        if isinstance(cond, bool):
            if not cond:
                raise Infeasible()
            return
        cond = z3.simplify(cond)
        if z3.is_true(cond):
            return
        if z3.is_false(cond):
            raise Infeasible()
        st.pc.append(cond)
        if check and not self.feasible(st):
            raise Infeasible()

    def _solver(self, timeout_ms=None):
        s = z3.Solver()
        s.set("timeout", timeout_ms or self.solver_timeout_ms)
        for ax in self.reg.axioms:
            s.add(ax)
        return s

    def feasible(self, st: State) -> bool:
        s = self._solver(3000)
        for p in st.pc:
            s.add(p)
        t0 = time.time()
        r = s.check()
        self.stats["solver_s"] += time.time() - t0
        self.stats["checks"] += 1
        return r != z3.unsat

    def branch(self, st: State, cond, label="") -> bool:
        """Fork on a z3 Bool. Returns the python bool chosen for this path."""
        if isinstance(cond, bool):
            return cond
        cond = z3.simplify(cond)
        if z3.is_true(cond):
            return True
        if z3.is_false(cond):
            return False
        idx = len(self.oracle.trail)
        c = self.oracle.choose(2, label)
        if c == 0:
            st.pc.append(cond)
            st.log.append(f"{label}: true")
        else:
            st.pc.append(z3.Not(cond))
            st.log.append(f"{label}: false")
        # decisions replayed from the prefix were found feasible by the run that discovered them;
        # only the flipped last decision and new ones need a solver check
        if idx >= len(self.oracle.prefix) - 1 and not self.feasible(st):
            raise Infeasible()
        return c == 0

    def choose(self, st: State, n: int, label: str, names=None) -> int:
        c = self.oracle.choose(n, label)
        st.log.append(f"{label}: {names[c] if names else c}")
        return c

    # ---- obligations -----------------------------------------------------------------
    def oblige(self, st: State, label: str, goal, props=(), kind="post", func=None, extra=None):
        func = func or (self.cur_fi.key if self.cur_fi else "?")
        canon_func = self.canon_func_key(func)
        if self.cur_variant:
            label = f"{label}@{self.cur_variant}"
        oid = f"{canon_func}:{kind}:{label}"
        if isinstance(goal, bool):
            goal = z3.BoolVal(goal)
        self.vcs.append(
            VC(
                oid=oid,
                props=tuple(props),
                pc=list(st.pc),
                goal=goal,
                log=list(st.log),
                kind=kind,
                func=func,
                tree=self.tree,
                extra=extra or {},
                run=self.cur_run,
            )
        )

    def canon_func_key(self, key: str) -> str:
        # sync function keys are reported under their async name + tree tag elsewhere
        if self.tree == "sync":
            rev = getattr(self, "_rev_func", None)
            if rev is None:
                rev = {}
                for k in self.reg.contracts:
                    rev[self.repo.unasync.name(k)] = k
                self._rev_func = rev
            return rev.get(key, key)
        return key

    def cover(self, label: str):
        self.covers[label] = True

    # ---- heap -------------------------------------------------------------------------
    def field_kind(self, cls: str, name: str):
        return self.reg.field_kind(self, cls, name)

    def initial_array(self, key: str, sort):
        return z3.Const(f"H0!{key}", z3.ArraySort(IntS, sort))

    def heap_arr(self, st: State, key: str, sort, heap=None):
        h = st.heap if heap is None else heap
        v = h.get(key)
        if v is None:
            return self.initial_array(key, sort)
        if isinstance(v, LazyArr):
            return v.get()
        return v

    def old_arr(self, old: dict, key: str, sort):
        """array `key` in a heap snapshot (as handed to rely hooks)"""
        return self.heap_arr(None, key, sort, heap=old)

    def heap_read(self, st: State, ref, key: str, heap=None, kind=None) -> V:
        """key = 'Class.field' (canonical).  Returns a V according to the declared kind."""
        kind = kind or self.reg.kind_of_key(key)
        r = ref.t if isinstance(ref, V) else ref
        if kind.startswith("opt:"):
            inner = kind[4:]
            none = z3.Select(self.heap_arr(st, key + "#none", BoolS, heap), r)
            val = z3.Select(self.heap_arr(st, key + "#val", sort_of_kind(inner), heap), r)
            return VOpt(none, wrap(inner, val))
        if kind.startswith("dict:"):
            return VHeapDict(r, key, kind)
        return wrap(kind, z3.Select(self.heap_arr(st, key, sort_of_kind(kind), heap), r))

    def heap_write(self, st: State, ref, key: str, value: V, kind=None):
        kind = kind or self.reg.kind_of_key(key)
        r = ref.t if isinstance(ref, V) else ref
        if kind.startswith("opt:"):
            inner = kind[4:]
            v = self.coerce(st, value, kind)
            st.heap[key + "#none"] = z3.Store(self.heap_arr(st, key + "#none", BoolS), r, v.none)
            st.heap[key + "#val"] = z3.Store(
                self.heap_arr(st, key + "#val", sort_of_kind(inner)), r, v.val.t
            )
            return
        if kind.startswith("dict:"):
            # assignment of a fresh empty dict literal
            if isinstance(value, VDict) and not value.items:
                _, kk, vk = kind.split(":", 2)
                st.heap[key + "#has"] = z3.Store(
                    self.heap_arr(st, key + "#has", z3.ArraySort(sort_of_kind(kk), BoolS)),
                    r,
                    z3.K(sort_of_kind(kk), z3.BoolVal(False)),
                )
                st.heap[key + "#size"] = z3.Store(self.heap_arr(st, key + "#size", IntS), r, z3.IntVal(0))
                return
            raise Unsupported(f"assignment to dict field {key}")
        v = self.coerce(st, value, kind)
        st.heap[key] = z3.Store(self.heap_arr(st, key, sort_of_kind(kind)), r, v.t)
        # publishing a local object
        if isinstance(value, VRef) and key not in self.reg.__dict__.get("non_escaping_keys", ()):
            self.escape(st, value)

    def escape(self, st: State, v):
        if isinstance(v, VRef):
            st.local_refs = [x for x in st.local_refs if not z3.eq(x, v.t)]

    def alloc(self, st: State, cls: str, hint="obj") -> VRef:
        st.counter += 1
        r = z3.Int(f"{hint}!{st.counter}")
        alive = self.heap_arr(st, "$alive", BoolS)
        self.assume(st, z3.And(r > 0, z3.Not(z3.Select(alive, r))))
        st.heap["$alive"] = z3.Store(alive, r, z3.BoolVal(True))
        if self.classes.known(cls):
            self.assume(st, typ(r) == self.classes.cid(cls))
        st.local_refs.append(r)
        st.ghost.setdefault("cls_of", {})[r.get_id()] = cls
        return VRef(r, cls)

    def _shorts_of_ref(self, st, r):
        """heap-key prefixes (class short names) whose fields an object of r's class can have"""
        cls = st.ghost.get("cls_of", {}).get(r.get_id())
        if cls is None:
            return self._all_shorts()
        cache = self.__dict__.setdefault("_shorts_cache", {})
        if cls not in cache:
            out = set()
            for k in self.reg._mro(self, cls):
                for key in self.reg.class_fields.get(k, {}).values():
                    out.add(key.split(".", 1)[0])
            cache[cls] = out
        return cache[cls]

    def _all_shorts(self):
        c = self.__dict__.get("_all_shorts_cache")
        if c is None:
            c = {k.split(".", 1)[0] for k in self.reg.field_keys}
            self._all_shorts_cache = c
        return c

    def assume_alive(self, st: State, ref):
        r = ref.t if isinstance(ref, V) else ref
        alive = self.heap_arr(st, "$alive", BoolS)
        self.assume(st, z3.Implies(r != 0, z3.Select(alive, r)))
        if isinstance(ref, VRef):
            f = self.reg.__dict__.get("ref_facts", {}).get(ref.cls)
            if f is not None:
                fact = f(self, st, ref)
                self.assume(st, fact if getattr(f, "unconditional", False) else z3.Implies(r != 0, fact))

    def havoc_heap(self, st: State, keys=None, keep_local=True):
        """Replace non-const heap arrays by fresh ones (lazily materialised). keys=None: every
        declared mutable key.  Objects allocated on this path and not yet published keep their
        fields (frame)."""
        old = dict(st.heap)
        parts = self.reg.parts_cache(keys)
        for sub, sort, short in parts:
            st.counter += 1
            frame = None
            prev = old.get(sub)
            if keep_local and prev is not None and st.local_refs:
                frame = [r for r in st.local_refs if short in self._shorts_of_ref(st, r)]
            st.heap[sub] = LazyArr(f"H{st.counter}!{sub}", sort, prev, frame)
        return old

    # ---- coercions ----------------------------------------------------------------------
    def coerce(self, st: State, v: V, kind: str) -> V:
        if kind == "any":
            return v
        if kind.startswith("opt:"):
            inner = kind[4:]
            if isinstance(v, VOpt):
                return v
            if isinstance(v, VNone):
                return VOpt(True, self.default_of(inner))
            if isinstance(v, VVal):
                return VOpt(v.t == none_val, self.coerce(st, v, inner))
            return VOpt(False, self.coerce(st, v, inner))
        if kind.startswith("ref:"):
            if isinstance(v, VNone):
                return VRef(0, kind[4:])
            if isinstance(v, VRef):
                return VRef(v.t, kind[4:]) if v.cls in ("?", "") else v
            if isinstance(v, VVal):
                return VRef(ref_of_val(v.t), kind[4:])
        if kind == "val":
            return self.to_val(st, v)
        if isinstance(v, VOpt) and not kind.startswith("opt:"):
            if self.branch(st, v.none, "none-where-value-needed"):
                self.raise_(st, "TypeError", tag={"why": "None used where a value is needed"})
            return self.coerce(st, v.val, kind)
        if kind == "real":
            if isinstance(v, VReal):
                return v
            if isinstance(v, VInt):
                return VReal(z3.ToReal(v.t))
            if isinstance(v, VVal):
                return VReal(z3.Function("real_of_val", ValS, RealS)(v.t))
        if kind == "int":
            if isinstance(v, VInt):
                return v
            if isinstance(v, VBool):
                return VInt(z3.If(v.t, 1, 0))
            if isinstance(v, VVal):
                return VInt(int_of_val(v.t))
        if kind == "bool":
            if isinstance(v, VBool):
                return v
            if isinstance(v, VVal):
                return VBool(truthy_val(v.t))
        if kind == "bytes":
            if isinstance(v, VBytes):
                return v
            if isinstance(v, VVal):
                return VBytes(bytes_of_val(v.t))
        if kind == "str":
            if isinstance(v, VStr):
                return v
            if isinstance(v, VVal):
                return VStr(str_of_val(v.t))
        if kind.startswith("seq:"):
            if isinstance(v, VSeq):
                return v
            if isinstance(v, VList):
                return self.list_to_seq(st, v, kind[4:])
            if isinstance(v, VVal):
                f = z3.Function("seq_of_val_" + kind[4:].replace(":", "_"), ValS, sort_of_kind(kind))
                return VSeq(f(v.t), kind[4:])
        if kind == "hdr" and isinstance(v, VTuple) and len(v.items) == 2:
            k = self.coerce(st, v.items[0], "bytes")
            w = self.coerce(st, v.items[1], "bytes")
            return VHdr(HdrS.mk_hdr(k.t, w.t))
        if kind == "hdr" and isinstance(v, VHdr):
            return v
        if v.kind == kind:
            return v
        raise Unsupported(f"cannot coerce {v!r} to {kind}")

    def default_of(self, kind: str) -> V:
        if kind == "int":
            return VInt(0)
        if kind == "real":
            return VReal(0)
        if kind == "bool":
            return VBool(False)
        if kind == "bytes":
            return VBytes(b"")
        if kind == "str":
            return VStr("")
        if kind == "val":
            return VVal(none_val)
        if kind.startswith("ref:"):
            return VRef(0, kind[4:])
        raise Unsupported("default_of " + kind)

    def to_val(self, st, v: V) -> VVal:
        if isinstance(v, VVal):
            return v
        if isinstance(v, VNone):
            return VVal(none_val)
        if isinstance(v, VInt):
            return VVal(val_of_int(v.t))
        if isinstance(v, VReal):
            return VVal(val_of_real(v.t))
        if isinstance(v, VBytes):
            return VVal(val_of_bytes(v.t))
        if isinstance(v, VStr):
            return VVal(val_of_str(v.t))
        if isinstance(v, VBool):
            return VVal(val_of_bool(v.t))
        if isinstance(v, VRef):
            return VVal(z3.If(v.t == 0, none_val, val_of_ref(v.t)))
        if isinstance(v, VOpt):
            inner = self.to_val(st, v.val)
            return VVal(z3.If(v.none, none_val, inner.t))
        if isinstance(v, VDict) and not v.items:
            return VVal(empty_dict_val)
        if isinstance(v, (VDict, VList, VTuple, VSeq, VClass, VFunc, VExc, VGen, VHdr)):
            # opaque container: fresh value identified with the python object
            st.counter += 1
            t = z3.Const(f"boxed!{st.counter}", ValS)
            st.ghost.setdefault("boxed", []).append((t, v))
            return VVal(t)
        raise Unsupported(f"to_val {v!r}")

    def unbox(self, st, v: V):
        if isinstance(v, VVal):
            boxed = st.ghost.get("boxed", [])
            if boxed:
                vt = z3.simplify(v.t)
                for t, pv in boxed:
                    if z3.eq(t, v.t) or z3.eq(t, vt):
                        return pv
        return v

    def list_to_seq(self, st, v: VList, elem: str) -> VSeq:
        sort = sort_of_kind(elem)
        if not v.items:
            return VSeq(z3.Empty(z3.SeqSort(sort)), elem)
        units = [z3.Unit(self.coerce(st, x, elem).t) for x in v.items]
        return VSeq(units[0] if len(units) == 1 else z3.Concat(*units), elem)

    # ---- truthiness / equality -------------------------------------------------------------
    def truthy(self, st, v: V):
        """z3 Bool (or python bool) for bool(v)."""
        if isinstance(v, VBool):
            return v.t
        if isinstance(v, VNone):
            return False
        if isinstance(v, VInt):
            return v.t != 0
        if isinstance(v, VReal):
            return v.t != 0
        if isinstance(v, (VBytes, VStr)):
            return z3.Length(v.t) > 0
        if isinstance(v, VSeq):
            return z3.Length(v.t) > 0
        if isinstance(v, (VList, VTuple)):
            return len(v.items) > 0
        if isinstance(v, VDict):
            return len(v.items) > 0
        if isinstance(v, VRef):
            tr = self.reg.ref_truthiness.get(v.cls)
            if tr is not None:
                return tr(self, st, v)
            return v.t != 0
        if isinstance(v, VVal):
            return truthy_val(v.t)
        if isinstance(v, VOpt):
            return z3.And(z3.Not(v.none), self.truthy(st, v.val))
        if isinstance(v, VHeapDict):
            return v.size(self, st) > 0
        if isinstance(v, (VClass, VFunc, VExc, VGen, VModule)):
            return True
        raise Unsupported(f"truthy {v!r}")

    def is_none(self, st, v: V):
        if isinstance(v, VNone):
            return True
        if isinstance(v, VRef):
            return v.t == 0
        if isinstance(v, VVal):
            return v.t == none_val
        if isinstance(v, VOpt):
            return v.none
        return False

    def eq(self, st, a: V, b: V):
        """z3 Bool / python bool for a == b (python semantics for the supported kinds)."""
        if isinstance(a, VNone) or isinstance(b, VNone):
            other = b if isinstance(a, VNone) else a
            return self.is_none(st, other)
        if isinstance(a, VOpt) or isinstance(b, VOpt):
            if isinstance(a, VOpt) and isinstance(b, VOpt):
                return z3.Or(z3.And(a.none, b.none), z3.And(z3.Not(a.none), z3.Not(b.none), self.eq(st, a.val, b.val)))
            o, x = (a, b) if isinstance(a, VOpt) else (b, a)
            return z3.And(z3.Not(o.none), self.eq(st, o.val, x))
        if isinstance(a, VVal) or isinstance(b, VVal):
            return self.to_val(st, a).t == self.to_val(st, b).t
        num = (VInt, VReal, VBool)
        if isinstance(a, num) and isinstance(b, num):
            if isinstance(a, VBool) and isinstance(b, VBool):
                return a.t == b.t
            ra = self.coerce(st, self.coerce(st, a, "int") if isinstance(a, VBool) else a, "real")
            rb = self.coerce(st, self.coerce(st, b, "int") if isinstance(b, VBool) else b, "real")
            if isinstance(a, VInt) and isinstance(b, VInt):
                return a.t == b.t
            return ra.t == rb.t
        if isinstance(a, VBytes) and isinstance(b, VBytes):
            return a.t == b.t
        if isinstance(a, VStr) and isinstance(b, VStr):
            return a.t == b.t
        if isinstance(a, VRef) and isinstance(b, VRef):
            h = self.reg.ref_eq.get(a.cls) or self.reg.ref_eq.get(b.cls)
            if h is not None:
                return h(self, st, a, b)
            return a.t == b.t
        if isinstance(a, (VTuple, VList)) and isinstance(b, (VTuple, VList)) and type(a) is type(b):
            if len(a.items) != len(b.items):
                return False
            parts = [self.eq(st, x, y) for x, y in zip(a.items, b.items)]
            return self.z_and(parts)
        if isinstance(a, VSeq) and isinstance(b, VSeq):
            return a.t == b.t
        if isinstance(a, VSeq) and isinstance(b, VList):
            return a.t == self.list_to_seq(st, b, a.elem).t
        if isinstance(b, VSeq) and isinstance(a, VList):
            return b.t == self.list_to_seq(st, a, b.elem).t
        if isinstance(a, VHdr) and isinstance(b, VHdr):
            return a.t == b.t
        if isinstance(a, VClass) and isinstance(b, VClass):
            return a.name == b.name
        if type(a) is not type(b):
            # different python types of the supported kinds never compare equal
            simple = (VBytes, VStr, VInt, VReal, VBool, VTuple, VList, VDict, VClass)
            if isinstance(a, simple) and isinstance(b, simple):
                return False
        raise Unsupported(f"eq {a!r} {b!r}")

    @staticmethod
    def z_and(parts):
        parts = [p for p in parts if not (isinstance(p, bool) and p)]
        if any(isinstance(p, bool) and not p for p in parts):
            return False
        if not parts:
            return True
        return z3.And(*parts) if len(parts) > 1 else parts[0]

    @staticmethod
    def z_or(parts):
        parts = [p for p in parts if not (isinstance(p, bool) and not p)]
        if any(isinstance(p, bool) and p for p in parts):
            return True
        if not parts:
            return False
        return z3.Or(*parts) if len(parts) > 1 else parts[0]

    @staticmethod
    def z_not(p):
        if isinstance(p, bool):
            return not p
        return z3.Not(p)

    @staticmethod
    def z_bool(p):
        return z3.BoolVal(p) if isinstance(p, bool) else p

    # ---- exceptions -------------------------------------------------------------------------
    def raise_(self, st, cls: str, *args, tag=None):
        st.log.append(f"raise {cls}")
        tag = dict(tag or {})
        tag.setdefault("held", list(st.held))
        tag.setdefault("shield", st.shield)
        tag.setdefault("trace_len", len(st.trace))
        raise PyRaise(VExc(cls, args, tag=tag))

    def exc_matches(self, exc: VExc, handler: V) -> bool:
        if isinstance(handler, VTuple):
            return any(self.exc_matches(exc, h) for h in handler.items)
        if isinstance(handler, VClass):
            return self.classes.issub(exc.cls, handler.name)
        raise Unsupported(f"except handler {handler!r}")

    # ---- verification of one function ----------------------------------------------------------
    def verify(self, fi: FuncInfo, contract: Contract, max_paths=None):
        from .interp import Interp

        self.cur_fi = fi
        self.cur_contract = contract
        max_paths = max_paths or contract.max_paths
        npaths = 0
        exits = {"normal": 0, "raise": 0, "cut": 0}
        t0 = time.time()
        variants = getattr(contract, "variants", None) or [(None, {})]
        for vname, vparams in variants:
            self.cur_variant = vname
            self.cur_variant_params = vparams
            self._verify_variant(fi, contract, max_paths, exits)
            npaths += self._last_npaths
        self.cur_variant = None
        self.stats["paths"] += npaths
        return {"paths": npaths, "exits": exits, "wall_s": time.time() - t0}

    cur_variant = None
    cur_variant_params: dict = {}
    cur_run = 0

    def _verify_variant(self, fi, contract, max_paths, exits):
        from .interp import Interp

        work = [[]]
        npaths = 0
        while work:
            prefix = work.pop()
            npaths += 1
            if npaths > max_paths:
                raise Unsupported(f"{fi.key}: more than {max_paths} paths")
            self.oracle = Oracle(prefix)
            self.cur_run += 1
            st = State()
            interp = Interp(self, fi)
            try:
                outcome = interp.run_top(st, contract)
                exits[outcome] = exits.get(outcome, 0) + 1
            except Infeasible:
                self.stats["infeasible"] += 1
            except PathEnd:
                exits["cut"] += 1
            trail = self.oracle.trail
            for i in range(len(prefix), len(trail)):
                c, n, _lab = trail[i]
                for alt in range(c + 1, n):
                    work.append([t[0] for t in trail[:i]] + [alt])
        self._last_npaths = npaths


class VHeapDict(V):
    """Handle to a dict-valued heap field: arrays <key>#has, <key>#val, <key>#size."""

    def __init__(self, ref, key, kind):
        self.ref = ref
        self.key = key
        self.dkind = kind  # 'dict:<keykind>:<valkind>'
        _, self.kk, self.vk = kind.split(":", 2)

    kind = "heapdict"

    def _has_arr(self, eng, st, heap=None):
        return eng.heap_arr(st, self.key + "#has", z3.ArraySort(sort_of_kind(self.kk), BoolS), heap)

    def _val_arr(self, eng, st, heap=None):
        return eng.heap_arr(
            st, self.key + "#val", z3.ArraySort(sort_of_kind(self.kk), sort_of_kind(self.vk)), heap
        )

    def has(self, eng, st, k, heap=None):
        return z3.Select(z3.Select(self._has_arr(eng, st, heap), self.ref), k)

    def get(self, eng, st, k, heap=None):
        return wrap(self.vk, z3.Select(z3.Select(self._val_arr(eng, st, heap), self.ref), k))

    def size(self, eng, st, heap=None):
        return z3.Select(eng.heap_arr(st, self.key + "#size", IntS, heap), self.ref)

    def set(self, eng, st, k, v: V):
        has = self._has_arr(eng, st)
        val = self._val_arr(eng, st)
        size = eng.heap_arr(st, self.key + "#size", IntS)
        was = z3.Select(z3.Select(has, self.ref), k)
        st.heap[self.key + "#has"] = z3.Store(has, self.ref, z3.Store(z3.Select(has, self.ref), k, z3.BoolVal(True)))
        vv = eng.coerce(st, v, self.vk)
        st.heap[self.key + "#val"] = z3.Store(val, self.ref, z3.Store(z3.Select(val, self.ref), k, vv.t))
        st.heap[self.key + "#size"] = z3.Store(
            size, self.ref, z3.If(was, z3.Select(size, self.ref), z3.Select(size, self.ref) + 1)
        )

    def delete(self, eng, st, k):
        has = self._has_arr(eng, st)
        size = eng.heap_arr(st, self.key + "#size", IntS)
        st.heap[self.key + "#has"] = z3.Store(has, self.ref, z3.Store(z3.Select(has, self.ref), k, z3.BoolVal(False)))
        st.heap[self.key + "#size"] = z3.Store(size, self.ref, z3.Select(size, self.ref) - 1)
