"""Per-property registration: level, extra (structural) obligation generators, trusted base,
things not decided.  Filled as properties get built; a property absent here is not claimed."""
from __future__ import annotations

PROPS: dict = {}


def prop(pid, **kw):
    PROPS[pid] = kw
    return kw

prop(
    "C17",
    level="proof",
    explanation="sequence postconditions on the real AsyncHTTP11UpgradeStream/HTTP11UpgradeStream methods and the wrap/capture obligations on the HTTP/1.1 connection, for all max_bytes and all byte contents",
    trusted=[],
    not_decided=[],
)
