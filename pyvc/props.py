"""Per-property registration: level, what the contracts decide, trusted base, what is not
decided, bounded stand-ins.  A property absent from PROPS is not claimed (MANIFEST
not_applicable)."""
from __future__ import annotations

PROPS: dict = {}

A_H11 = "A-h11 (assumed, bounded audit): h11.Connection client-role contract - see contracts/ext_h11.py"
A_H2 = "A-h2 (assumed, bounded audit): h2.connection.H2Connection contract - see contracts/ext_h2.py"
A_NET = "A-runtime (assumed): the runtime PRIMITIVES (trio / anyio / threading Event, Lock, Semaphore, CancelScope, sockets, fail_after) and sniffio; the network stream / backend interface used by the connection classes - see contracts/common.py, ext_runtime.py. The layer of /repo over them IS under contract: _synchronization.py and AutoBackend (contracts/m_sync.py), the three back ends (m_backends.py), Trace protocol methods, Response, request()/stream() (m_support.py). Still assumed in /repo itself: map_exceptions beyond the one mapping shape it is verified for (m_support.py), Trace.trace/atrace (runs the caller hook), get_extra_info, httpcore._api.request/stream, mock back ends"
A_SOCKS = "A-socksio (assumed): SOCKS5Connection negotiation contract - see contracts/m_socks_proxy.py"
A_STD = "A-stdlib (assumed, bounded audit): urllib.parse decomposition contract, str.encode('ascii'), base64 - see contracts/m_models.py"
A_IFACE = "interface abstraction: pool-level proofs use ghost observers of AsyncConnectionInterface; each class is proved against its own observer spec; the composition is a paper argument (DESIGN 2.4)"
A_SHIELD = "AsyncShieldCancellation blocks cancellation (true for trio / anyio scopes; FALSE for native asyncio Task.cancel(): design_probes/p08, recorded assumption)"
A_SYNC = "sync tree: the same function contracts are proved with sequential semantics (no interference model between lock regions); thread interleavings are covered only by the lock-discipline obligations of C08"


AUD_H11 = {"script": "audit/h11_contract.py", "kind": "assumption", "what": "A-h11: h11 client event sequence independent of segmentation, Data events concatenate to the framed body, send() wire parses back (bounded: 14 response shapes, all single cuts + seeded multi-cuts)"}
AUD_H2 = {"script": "audit/h2_contract.py", "kind": "assumption", "what": "A-h2: h2 event sequence independent of segmentation and in frame order with the frame's stream id, window arithmetic, id allocation, queue clearing, acknowledge never raises, GOAWAY closes (bounded: one scripted conversation, all single cuts + seeded multi-cuts)"}
AUD_URL = {"script": "audit/url_roundtrip.py", "kind": "property", "what": "C19 round trip URL(bytes(u)) == u and well-formed Host value on the real code (bounded: component-pool product, URLs <= 64 bytes, + 3000 seeded random tails)"}
AUD_RT = {"script": "audit/runtime_primitives.py", "kind": "assumption", "what": "A-runtime (primitives): Event set-before-wait / fail_after timeout signal / threading wait result, Semaphore initial == max == bound, Lock mutual exclusion, CancelScope(shield=True) against scope cancellation - trio, anyio on asyncio and on trio, threading (bounded: one scenario per clause)"}
AUD_TRIO = {"script": "audit/trio_handshake_errors.py", "kind": "assumption", "what": "A-runtime.5: trio reports a TLS handshake failure as BrokenResourceError (one in-memory handshake against a self-signed certificate)"}


def prop(pid, **kw):
    kw.setdefault("level", "proof")
    kw.setdefault("audits", [])
    kw.setdefault("trusted", [])
    kw.setdefault("not_decided", [])
    kw.setdefault("bounded", [])
    kw.setdefault("structural", [])
    PROPS[pid] = kw
    return kw


prop(
    "C01",
    title="responses belong to their own request",
    explanation="HTTP/1.1: ACTIVE gate is an atomic test-and-set under the state lock, ConnectionNotAvailable leaves the connection untouched, every failed exchange is closed exactly once, _response_closed returns to IDLE only from h11 DONE/DONE (else closes), observers (is_available == IDLE), body stream bound to its connection and request, wrappers pass the caller's request to their own inner connection and return its response; HTTP/2: events are queued only on the stream they carry, stream events delivered FIFO per stream id; pool: a request is assigned only a connection that can handle its origin and is available",
    trusted=[A_H11, A_H2, A_NET, A_IFACE, A_SHIELD, A_SYNC],
    not_decided=["that h11/h2 attribute bytes to messages correctly (inside the libraries)"],
    audits=[AUD_H11, AUD_H2],
)
prop(
    "C02",
    title="byte-exact delivery",
    explanation="plumbing obligations between network stream, h11/h2 and caller: every read result is fed to the parser exactly once and unmodified, EOF before a response head raises RemoteProtocolError, the head loop skips only non-101 1xx and returns the last event's fields, the body generator yields exactly the data of every Data event until EndOfMessage/PAUSED, wrappers yield exactly the inner chunks, Response() stores status/headers in order",
    trusted=[A_H11, A_H2, A_NET, A_SYNC],
    not_decided=['h2 folds repeated cookie fields (RFC 7540 8.1.2.5) and h11 collapses a repeated identical Content-Length: inside the assumed library contracts (design_probes/w4_preexisting/C02_preexisting_1.py)', "segmentation independence and framing live inside h11/h2 (assumed; bounded differential audit)"],
    bounded=["audit/h11_contract.py, audit/h2_contract.py: segmentation independence of the parsers (bounded; thorough tier)"],
    audits=[AUD_H11, AUD_H2],
)
prop(
    "C03",
    title="requests serialised faithfully",
    explanation="include_request_headers equals the default-header spec function (Host first iff absent, IP-literal bracketed, port iff not the default; Content-Length / Transfer-Encoding iff neither present); Request() applies the target extension only to the target; h11.Request gets exactly method/target/headers of the request; _send_event writes exactly h11's output once; one Data event per body chunk in order then exactly one EndOfMessage; a rejected head writes nothing; HTTP/2 header list and end_stream spec",
    trusted=[A_H11, A_H2, A_NET, A_SYNC],
    not_decided=["the h11/h2 encoders themselves (assumed; bounded audit of the send() round trip)"],
    bounded=["audit/h11_contract.py, audit/h2_contract.py (thorough tier)"],
    audits=[AUD_H11, AUD_H2],
)
prop(
    "C04",
    title="connection limit never exceeded",
    explanation="pool invariant len(_connections) <= max_connections kept by the assignment pass (append only under len < max or right after one removal), only the pass and aclose mutate the list (frame scan), connections are established only under the request lock with _connection unset, failed attempts leave no open stream",
    trusted=[A_NET, A_IFACE, A_SHIELD, A_SYNC],
)
prop(
    "C05",
    title="failed and cancelled requests give their slot back",
    explanation="exceptional postconditions on every exit path (each documented exception class and Cancelled at each unshielded suspension point) of the connection classes and the pool: failed exchanges end IDLE or CLOSED through a shielded _response_closed, establishment failures set the connect-failed flag, the pool removes the request and re-runs the assignment pass on every exit",
    trusted=[A_H11, A_H2, A_NET, A_IFACE, A_SHIELD, A_SYNC],
    not_decided=["native asyncio cancellation inside shielded regions (assumption A_SHIELD is false there: one recorded root cause)"],
)
prop(
    "C06",
    title="every opened stream is eventually closed",
    explanation="ownership obligations: every stream opened in a function is, on every exit path, returned, handed to a protocol connection, or closed; aclose of every class closes what it owns; the pool hands every removed, not-closed connection to _close_connections; pool.aclose empties the list into _close_connections",
    not_decided=[],
    trusted=[A_NET, A_IFACE, A_SHIELD, A_SYNC, "A-runtime.5: which exceptions socket / ssl / anyio / trio operations raise and that fail_after cancels its body (the three real back ends are verified against the stream contract on top of these)"],
)
prop(
    "C09",
    title="keep-alive reuse, limits, expiry",
    explanation="expiry armed as now + keepalive_expiry exactly when a connection turns idle and cleared when a request starts; has_expired spec (deadline passed, or idle HTTP/1.1 socket readable); clean-up pass closes expired and surplus-idle connections only, counting idle ones; reuse-before-create in the assignment pass",
    trusted=[A_H11, A_H2, A_NET, A_IFACE, A_SYNC],
)
prop(
    "C10",
    title="origin-exact routing, TLS per scheme",
    explanation="Origin.__eq__ iff scheme/host/port equal; can_handle_request gates of all six connection classes; connect_tcp/connect_unix/start_tls call-site preconditions (host, port, SNI = sni_hostname or host, ALPN offers h2 iff http2, context configured-or-default, TLS iff https/wss); HTTP/2 class iff negotiated or HTTP/1.1 disabled; CONNECT target and SOCKS command name the remote origin; pool picks the connection class by proxy/scheme",
    trusted=[A_NET, A_SOCKS, A_SYNC],
)
prop(
    "C11",
    title="proxy hops see exactly what is meant for them",
    explanation="merge_headers equals the spec (override wins case-insensitively, defaults first); forwarded request = absolute target, merged headers, caller's body/extensions, sent on the proxy connection; CONNECT = method/target/Host+Accept+proxy headers only, origin request only after 2xx and only inside the tunnel, other replies close and raise ProxyError with nothing further sent; Proxy() auth header; SOCKS5 negotiation content and strict order, no HTTP before success",
    trusted=[A_NET, A_SOCKS, A_IFACE, A_SYNC],
)
prop(
    "C14",
    title="at most once on the wire unless refused",
    explanation="ConnectionNotAvailable is originated only at the HTTP/1.1 gate with nothing written, by a connection marked failed before any I/O, at the HTTP/2 gates, and by the GOAWAY check for exactly the streams above last_stream_id (0 included) before any read; every other function only passes it on; a response body never raises it; WriteError while sending is swallowed only around the send and never re-raised; connect retries only wrap establishment; the pool loops only on ConnectionNotAvailable",
    not_decided=['"earlier streams may finish" after GOAWAY: a stream at or below last_stream_id that needs another network read is failed with RemoteProtocolError (reported, never re-sent): the clause is a permission and is not claimed'],
    trusted=[A_H11, A_H2, A_NET, A_IFACE, A_SYNC],
    audits=[AUD_H2],
)
prop(
    "C15",
    title="only documented exception types reach the caller",
    explanation="raises clauses: for every function under contract every exception class that can escape on any path (callee outcomes per assumed raises sets, implicit IndexError/KeyError/ValueError/AssertionError/TypeError sites, map_exceptions mappings read from the code) is in the documented set",
    bounded=['map_exceptions (httpcore/_exceptions.py) is verified against the stub that stands for it for ONE mapping shape ({specific class: A, its base class: B}, the shape every back end uses) and four thrown classes: shape-bounded, the general statement stays assumed'],
    trusted=[A_H11, A_H2, A_NET, A_SOCKS, A_SYNC, "raises sets of h11, h2, socksio, backends as stated in the sidecars (assumed)", "exceptions of caller-supplied callables (trace callback, body iterator) excluded by precondition"],
    not_decided=["'never hangs once input has ended' only as: loops that poll the parser read the network each round (no liveness proof)"],
    audits=[AUD_TRIO],
)
prop(
    "C16",
    title="timeouts applied to the right operations",
    explanation="call-site preconditions: every connect/TLS start gets extensions.timeout.connect, every read .read, every write .write, the pool wait .pool; absent means None; pass-through wrappers forward their timeout argument; SOCKS negotiation gets one of the configured values; in the three back ends every blocking runtime call runs under settimeout / fail_after of exactly the given value (trio: inf for None) and a deadline becomes the *Timeout class",
    audits=[AUD_RT],
    trusted=[A_NET, A_SYNC],
    not_decided=["the instant at which PoolTimeout fires (runtime primitive, assumed)"],
)
prop(
    "C17",
    title="upgrade / CONNECT hand-over loses no bytes",
    explanation="sequence postconditions on the real upgrade stream for all max_bytes and contents (result ++ leading' ++ net' == leading ++ net, leading data first without touching the network, failures consume nothing), pass-through of write/close/start_tls/extra-info, trailing data captured with the head event, wrapped iff 101 or 2xx-to-CONNECT, switched connections take the close branch",
    not_decided=[],
    trusted=[A_H11, A_NET, A_SYNC],
    audits=[AUD_H11],
)
prop(
    "C19",
    title="URL / origin / default header semantics",
    explanation="enforce_bytes/enforce_headers per input kind, URL.__init__ against the RFC 3986 decomposition (assumed urllib contract), origin default ports, URL/Origin equality, bytes(URL), Request() target extension, include_request_headers spec",
    trusted=[A_STD],
    not_decided=["round trip URL(bytes(u)) == u needs the inverse of the urllib contract in the string theory: bounded stand-in only (the Host value / bytes(URL) bracket IP-literals by the spec function authority_host, which is proved)"],
    bounded=["audit/url_roundtrip.py: real URL / include_request_headers on the product of component pools (URLs <= 64 bytes) + 3000 seeded random tails; thorough tier; never counted as proved"],
    audits=[AUD_URL],
)
prop(
    "C20",
    title="connection retries bounded, establishment only",
    explanation="exponential_backoff yields 0 then factor*2^n (n-th loop value); retry loop invariant retries_left + pauses == retries with the k-th pause the k-th backoff value (0, 0.5, 1, 2 ... by ground instances), gives up exactly when retries are exhausted re-raising the last error, loops only after ConnectError/ConnectTimeout, any other failure leaves at once with no further backend call; _connect runs only under the request lock with no connection set",
    trusted=[A_NET, A_SYNC],
)

prop(
    "C07",
    title="waiting requests make progress whenever capacity exists",
    explanation="safety core of the statement: the assignment pass scans every queued request in arrival order (no early exit), leaves a request queued only when nothing is available, the pool is at its limit and nothing idle can be evicted; the pass is re-run (under the pool lock) on every arrival, on every exceptional exit of handle_request and on every response close (shielded); a request waits only after a pass, outside the pool lock, on its own event, and only while unassigned; assign_to_connection publishes the connection before setting the event and wait_for_connection tests it before waiting (no lost wake-up); the retry on ConnectionNotAvailable clears the assignment first",
    audits=[AUD_RT],
    trusted=[A_NET, A_IFACE, A_SHIELD, A_SYNC, "A-runtime: Event.set before Event.wait is not lost; wait returns only when the flag is set or raises PoolTimeout"],
    not_decided=["the liveness sentence ('no schedule leaves a caller blocked for ever') is a paper corollary of the safety obligations under fairness and a responsive server: not machine-checked"],
)
prop(
    "C08",
    title="the synchronous pool is thread-safe",
    explanation="lock-discipline obligations on the sync tree (and the async twin): every mutation of the pool's request queue and connection list, every assignment pass, and the pool reset in close() happen while the pool's thread lock is held; waiting, sending and closing happen outside it; connection state transitions (HTTP/1.1 gate and _response_closed, connect/tunnel/SOCKS establishment state) are written under their own lock; assign_to_connection/wait_for_connection hand-off order; list.remove calls are proved not to raise ValueError given the lock discipline",
    audits=[AUD_RT],
    trusted=[A_NET, A_IFACE, A_SYNC, "GIL: single bytecodes are atomic; preemption inside h11/h2/threading internals not modelled"],
    not_decided=["interleavings between lock regions are not enumerated: the obligations are the guarded_by discipline plus per-region contracts, not a schedule exploration", "HTTP/2 state machine shared by threads without a common lock: not modelled"],
)

prop(
    "C12",
    title="HTTP/2 streams isolated, bounded, cannot wedge each other",
    explanation="events are queued only on the stream id they carry (dispatch loop walks h2's list completely, in order, unknown streams dropped) and are handed out FIFO per stream; a stream id is taken only after acquiring a slot, the stream starts with one slot until SETTINGS arrive, SETTINGS move permits by exactly the change of the limit (loop invariant), every registered stream releases its slot exactly once on every exit; no suspension between stream id allocation and HEADERS; wait-for obligations: no blocking call while holding the read lock, no network read while own events are queued; credit of dropped / abandoned DATA",
    trusted=[A_H2, A_NET, A_SHIELD, A_SYNC],
    not_decided=["'every other stream runs to completion' as liveness: decided only as absence of wait-for edges under the read lock and of credit leaks"],
    audits=[AUD_RT, AUD_H2],
)
prop(
    "C13",
    title="HTTP/2 flow control obeyed, never starves",
    explanation="_send_stream_data: every frame is a non-empty prefix of the remaining data with len <= min(current stream/connection window, max frame size), the limits read with no suspension point before send_data, sent ++ rest == data (per-iteration step), remaining data shrinks; _wait_for_outgoing_flow returns the positive min of the current limits and always reads the network while blocked; every DATA event handed to the caller has exactly its flow_controlled_length acknowledged and flushed first; 2**24 initial credit on connection and stream",
    trusted=[A_H2, A_NET, A_SYNC],
    not_decided=["starvation freedom beyond 'credit is returned for what is consumed and blocked senders read the network'", "h2's own window arithmetic (assumed)"],
    audits=[AUD_H2],
)

from . import structural as _S  # noqa: E402

prop(
    "C18",
    title="sync and async behave identically",
    level="proof",
    explanation="twin obligation per function: sync f == erase_async(unasync(async f)) on ast normal forms, plus file level: same files, every sync line is the translated async line, same line count, same module-level statements (the script's own --check stops at the shorter file); hand-written async/sync method pairs inside one file (Response, ByteStream, mock backends) compared after the same erasure. Decided syntactically (no solver): a degenerate relational proof. Behavioural equality 'for every scenario' follows only up to the shared contracts: every other property's check discharges the same contract set on both trees (obligation ids carry [async]/[sync])",
    technique="contract-based deductive verification, degenerate case: relational twin obligation decided by ast normal-form equality (no solver); plus the shared contract set proved on both trees by the other checks",
    structural=[_S.twin_obligations],
    trusted=["the unasync substitution table as read from scripts/unasync.py", "the paired primitives of _synchronization.py (AsyncLock/Lock, AsyncEvent/Event, AsyncSemaphore/Semaphore, shields) are not translations of each other: both are PROVED against the same primitive contract (contracts/m_sync.py), which is the stated correspondence"],
    not_decided=["behavioural equality beyond the strength of the shared contracts", "Trace.atrace vs Trace.trace (deliberately different coroutine checks)"],
)
for _p, _gens in {
    "C01": [_S.const_field_frames], "C04": [_S.const_field_frames, _S.pool_list_frames, _S.connect_site_frames], "C05": [_S.const_field_frames],
    "C06": [_S.const_field_frames, _S.connect_site_frames], "C08": [_S.pool_list_frames], "C09": [_S.const_field_frames], "C10": [_S.const_field_frames],
    "C12": [_S.const_field_frames], "C20": [_S.connect_site_frames],
}.items():
    PROPS[_p]["structural"] = list(PROPS[_p].get("structural", [])) + _gens
for _p in ("C03", "C19", "C11", "C14"):
    PROPS[_p]["structural"] = list(PROPS[_p].get("structural", [])) + [_S.const_field_frames]
for _p in PROPS:
    PROPS[_p]["structural"] = list(PROPS[_p].get("structural", [])) + [_S.decorator_frames]
for _p in ("C15", "C16", "C14", "C20"):
    PROPS[_p]["structural"] = list(PROPS[_p].get("structural", [])) + [_S.exception_hierarchy_frames]
