"""Per-property registration: level, extra (structural) obligation generators, trusted base,
things not decided.  Filled as properties get built; a property absent here is not claimed."""
from __future__ import annotations

PROPS: dict = {}


def prop(pid, **kw):
    PROPS[pid] = kw
    return kw

prop(
    "C17",
    level="proof",
    explanation="sequence postconditions on the real AsyncHTTP11UpgradeStream/HTTP11UpgradeStream methods and the wrap/capture obligations on the HTTP/1.1 connection, for all max_bytes and all byte contents",
    trusted=[],
    not_decided=[],
)

for _p in ("C01", "C02", "C03", "C04", "C05", "C06", "C07", "C08", "C09", "C10", "C11", "C12", "C13", "C14", "C15", "C16", "C19", "C20"):
    prop(_p, level="proof", explanation="", trusted=[], not_decided=[])
