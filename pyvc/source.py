"""Source front end of PyVC.

Re-reads the real repository source on every run: parses every module of the
`httpcore` package with `ast`, indexes functions by (module, qualname), records
per-module import tables, module level constants, IntEnum classes and class
bases.  Nothing is copied or rewritten: the ast of the file on disk *is* the
verified text.  The sha256 of each file and a hash of each function's ast dump
(without line numbers) go into the evidence.
"""
from __future__ import annotations

import ast
import hashlib
import os
import re
from dataclasses import dataclass, field

# --- unasync name mapping -----------------------------------------------------

_BUILTIN_SUBS = [
    ("from .._backends.auto import AutoBackend", "from .._backends.sync import SyncBackend"),
    ("import trio as concurrency", "from tests import concurrency"),
    ("AsyncIterator", "Iterator"),
    ("Async([A-Z][A-Za-z0-9_]*)", r"\2"),
    ("async def", "def"),
    ("async with", "with"),
    ("async for", "for"),
    ("await ", ""),
    ("handle_async_request", "handle_request"),
    ("aclose", "close"),
    ("aiter_stream", "iter_stream"),
    ("aread", "read"),
    ("asynccontextmanager", "contextmanager"),
    ("__aenter__", "__enter__"),
    ("__aexit__", "__exit__"),
    ("__aiter__", "__iter__"),
    ("@pytest.mark.anyio", ""),
    ("@pytest.mark.trio", ""),
    ("AutoBackend", "SyncBackend"),
]


def load_unasync_subs(repo: str):
    """Read SUBS from scripts/unasync.py (by ast, never executed)."""
    path = os.path.join(repo, "scripts", "unasync.py")
    try:
        tree = ast.parse(open(path).read())
        for node in tree.body:
            if isinstance(node, ast.Assign) and any(
                isinstance(t, ast.Name) and t.id == "SUBS" for t in node.targets
            ):
                return [tuple(x) for x in ast.literal_eval(node.value)], True
    except Exception:
        pass
    return list(_BUILTIN_SUBS), False


class Unasync:
    def __init__(self, repo: str):
        subs, self.from_script = load_unasync_subs(repo)
        self.subs = subs
        self.compiled = [
            (re.compile(r"(^|\b)" + rx + r"($|\b)"), repl) for rx, repl in subs
        ]

    def line(self, s: str) -> str:
        for rx, repl in self.compiled:
            s = rx.sub(repl, s)
        return s

    def name(self, s: str) -> str:
        """Translate an identifier / dotted name."""
        parts = s.split(".")
        out = []
        for p in parts:
            if p == "_async":
                out.append("_sync")
            else:
                out.append(self.line(p))
        return ".".join(out)


# --- module index ---------------------------------------------------------------


@dataclass
class FuncInfo:
    module: str
    qualname: str
    node: ast.AST  # FunctionDef | AsyncFunctionDef
    cls: str | None
    file: str
    is_async: bool
    decorators: list[str]

    @property
    def key(self) -> str:
        return f"{self.module}.{self.qualname}"

    def ast_hash(self) -> str:
        return hashlib.sha256(
            ast.dump(self.node, include_attributes=False).encode()
        ).hexdigest()[:16]


@dataclass
class ClassInfo:
    module: str
    name: str
    node: ast.ClassDef
    bases: list[str]  # dotted names, resolved through imports when possible
    consts: dict = field(default_factory=dict)  # class-level constants (python values)
    is_enum: bool = False

    @property
    def key(self) -> str:
        return f"{self.module}.{self.name}"


@dataclass
class ModuleInfo:
    name: str
    file: str
    tree: ast.Module
    sha256: str
    imports: dict  # local name -> dotted global name
    consts: dict  # module-level simple constants: name -> ast node of value
    funcs: dict  # qualname -> FuncInfo
    classes: dict  # name -> ClassInfo


def _dotted(node) -> str | None:
    if isinstance(node, ast.Name):
        return node.id
    if isinstance(node, ast.Attribute):
        b = _dotted(node.value)
        return None if b is None else b + "." + node.attr
    return None


def _resolve_relative(modname: str, level: int, target: str | None, is_pkg: bool) -> str:
    parts = modname.split(".")
    if not is_pkg:
        parts = parts[:-1]
    if level > 1:
        parts = parts[: len(parts) - (level - 1)]
    if target:
        parts = parts + target.split(".")
    return ".".join(parts)


class Repo:
    def __init__(self, root: str):
        self.root = os.path.abspath(root)
        self.modules: dict[str, ModuleInfo] = {}
        self.unasync = Unasync(self.root)
        self._load()

    # -- loading
    def _load(self):
        pkg = os.path.join(self.root, "httpcore")
        for dirpath, _dirs, files in os.walk(pkg):
            for fn in sorted(files):
                if not fn.endswith(".py"):
                    continue
                path = os.path.join(dirpath, fn)
                rel = os.path.relpath(path, self.root)
                modname = rel[:-3].replace(os.sep, ".")
                is_pkg = False
                if modname.endswith(".__init__"):
                    modname = modname[: -len(".__init__")]
                    is_pkg = True
                src = open(path, "rb").read()
                tree = ast.parse(src, filename=path)
                mi = ModuleInfo(
                    name=modname,
                    file=rel,
                    tree=tree,
                    sha256=hashlib.sha256(src).hexdigest(),
                    imports={},
                    consts={},
                    funcs={},
                    classes={},
                )
                self._index(mi, is_pkg)
                self.modules[modname] = mi

    def _index(self, mi: ModuleInfo, is_pkg: bool):
        def handle_import(node, table):
            if isinstance(node, ast.Import):
                for a in node.names:
                    if a.asname:
                        table[a.asname] = a.name
                    else:
                        table[a.name.split(".")[0]] = a.name.split(".")[0]
            elif isinstance(node, ast.ImportFrom):
                base = (
                    _resolve_relative(mi.name, node.level, node.module, is_pkg)
                    if node.level
                    else (node.module or "")
                )
                for a in node.names:
                    table[a.asname or a.name] = f"{base}.{a.name}"

        def visit_body(body, cls: ClassInfo | None, prefix: str):
            for node in body:
                if isinstance(node, (ast.Import, ast.ImportFrom)):
                    handle_import(node, mi.imports)
                elif isinstance(node, ast.Try):
                    # try: import trio / except ImportError: trio = None
                    for sub in node.body:
                        if isinstance(sub, (ast.Import, ast.ImportFrom)):
                            handle_import(sub, mi.imports)
                elif isinstance(node, (ast.FunctionDef, ast.AsyncFunctionDef)):
                    q = prefix + node.name
                    decos = [(_dotted(d) or _dotted(getattr(d, "func", None)) or "?") for d in node.decorator_list]
                    mi.funcs[q] = FuncInfo(
                        module=mi.name,
                        qualname=q,
                        node=node,
                        cls=cls.name if cls else None,
                        file=mi.file,
                        is_async=isinstance(node, ast.AsyncFunctionDef),
                        decorators=decos,
                    )
                    # local imports inside functions also feed the module table
                    for sub in ast.walk(node):
                        if isinstance(sub, (ast.Import, ast.ImportFrom)):
                            handle_import(sub, mi.imports)
                elif isinstance(node, ast.ClassDef) and cls is None:
                    bases = []
                    for b in node.bases:
                        d = _dotted(b)
                        if d is None:
                            continue
                        head = d.split(".")[0]
                        if head in mi.imports:
                            d = mi.imports[head] + d[len(head):]
                        elif head in mi.classes:
                            d = f"{mi.name}.{d}"
                        bases.append(d)
                    ci = ClassInfo(module=mi.name, name=node.name, node=node, bases=bases)
                    ci.is_enum = any(b.endswith("IntEnum") or b.endswith("Enum") for b in bases)
                    for sub in node.body:
                        if isinstance(sub, ast.Assign) and len(sub.targets) == 1 and isinstance(sub.targets[0], ast.Name):
                            ci.consts[sub.targets[0].id] = sub.value
                    mi.classes[node.name] = ci
                    visit_body(node.body, ci, node.name + ".")
                elif isinstance(node, ast.Assign) and cls is None:
                    if len(node.targets) == 1 and isinstance(node.targets[0], ast.Name):
                        mi.consts[node.targets[0].id] = node.value
                elif isinstance(node, ast.AnnAssign) and cls is None:
                    if isinstance(node.target, ast.Name) and node.value is not None:
                        mi.consts[node.target.id] = node.value

        visit_body(mi.tree.body, None, "")

    # -- queries
    def func(self, key: str) -> FuncInfo | None:
        """key = 'httpcore._async.http11.AsyncHTTP11Connection.read'"""
        for modname, mi in self.modules.items():
            if key.startswith(modname + "."):
                q = key[len(modname) + 1:]
                if q in mi.funcs:
                    return mi.funcs[q]
        return None

    def cls(self, key: str) -> ClassInfo | None:
        mod, _, name = key.rpartition(".")
        mi = self.modules.get(mod)
        if mi and name in mi.classes:
            return mi.classes[name]
        return None

    def mro(self, key: str) -> list[str]:
        """Linearised list of repo classes (dotted) for method lookup (single inheritance in this repo)."""
        out = []
        seen = set()
        todo = [key]
        while todo:
            k = todo.pop(0)
            if k in seen:
                continue
            seen.add(k)
            out.append(k)
            ci = self.cls(k)
            if ci:
                todo.extend(ci.bases)
        return out

    def find_method(self, cls_key: str, name: str) -> FuncInfo | None:
        for k in self.mro(cls_key):
            ci = self.cls(k)
            if ci is None:
                continue
            mi = self.modules[ci.module]
            fi = mi.funcs.get(f"{ci.name}.{name}")
            if fi is not None:
                return fi
        return None

    def all_funcs(self):
        for mi in self.modules.values():
            yield from mi.funcs.values()

    def file_hashes(self) -> dict:
        return {mi.file: mi.sha256 for mi in self.modules.values()}
