"""Bounded audit of one assumed runtime contract (A-runtime.5): trio's SSLStream.do_handshake reports
TLS-level failures as trio.BrokenResourceError (it wraps ssl.SSLError), so TrioStream.start_tls's
two-entry exception map is complete.  (The design round suspected the opposite - finding #30 'trio
start_tls does not map ssl.SSLError'; this script showed the suspicion wrong: the verifier's first
assumed raises-set for do_handshake contained ssl.SSLError and produced a false alarm, which was
corrected in contracts/m_backends.py.)  In-memory trio streams, self-signed certificate from the
openssl CLI under a temp dir, no network.  Exit 0 = assumption holds."""
import os, ssl, subprocess, sys, tempfile, trio
import httpcore
from httpcore._backends.trio import TrioStream
d = tempfile.mkdtemp(prefix="p23.", dir="/var/tmp")
subprocess.run(["openssl", "req", "-x509", "-newkey", "rsa:2048", "-nodes", "-keyout", d + "/k.pem", "-out", d + "/c.pem", "-subj", "/CN=localhost", "-days", "2"], check=True, capture_output=True)
async def main():
    client_raw, server_raw = trio.testing.memory_stream_pair()
    sctx = ssl.SSLContext(ssl.PROTOCOL_TLS_SERVER); sctx.load_cert_chain(d + "/c.pem", d + "/k.pem")
    server = trio.SSLStream(server_raw, sctx, server_side=True)
    cctx = ssl.create_default_context()          # does not trust the self-signed certificate
    outcome = None
    async def serve():
        try:
            await server.do_handshake()
        except BaseException:
            pass
    async with trio.open_nursery() as n:
        n.start_soon(serve)
        try:
            with trio.fail_after(5):
                await TrioStream(client_raw).start_tls(cctx, server_hostname="localhost", timeout=3)
            outcome = "handshake ok"
        except BaseException as e:
            outcome = type(e).__module__ + "." + type(e).__name__
        n.cancel_scope.cancel()
    print("start_tls outcome:", outcome)
    ok = outcome == "httpcore.ConnectError"
    print("ASSUMPTION-HOLDS" if ok else "ASSUMPTION-FAILS")
    return 0 if ok else 1
import trio.testing
rc = trio.run(main)
import shutil; shutil.rmtree(d, ignore_errors=True)
sys.exit(rc)
