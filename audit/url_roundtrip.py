"""Bounded stand-in for the C19 clause 'serialising a URL parses back to an equal URL' (and for the
Host value being well-formed), which the contracts do not decide: it needs the inverse of the assumed
urllib contract in the string theory.  NEVER counted as proved.

Runs the REAL httpcore.URL / include_request_headers from the tree under check on a VERIF_SEED-seeded
family of URLs (<= 64 bytes: schemes, reg-names, IPv4, IPv6 literals, ports incl. 0 and defaults,
paths with ;params, queries, fragments, userinfo) - every combination of the component pools below
plus 3000 random strings over the URL alphabet that urlsplit accepts.
Exit 0 = held on everything explored, 1 = failing input (JSON), other = crash."""
import itertools, json, os, random, re, sys

sys.path.insert(0, os.getcwd())
import httpcore
from httpcore._models import include_request_headers

SEED = int(os.environ.get("VERIF_SEED", "1"))
SCHEMES = ["http", "https", "ws", "wss", "HTTP"]
HOSTS = ["example.com", "EXAMPLE.com", "a", "127.0.0.1", "[::1]", "[2001:db8::1]", "xn--bcher-kva.example"]
PORTS = ["", ":80", ":443", ":8080", ":0", ":65535"]
PATHS = ["", "/", "/a/b", "/a;b/c;d", "/%2F/x", "/./../a", "/a%20b"]
QUERIES = ["", "?", "?x=1", "?a=b/c&d=;e"]
FRAGS = ["", "#f"]
USERS = ["", "u:p@"]
# RFC 3986: host = IP-literal / IPv4address / reg-name;  reg-name = *( unreserved / pct-encoded / sub-delims )
HOST_RE = re.compile(rb"^(\[[0-9A-Fa-f:.]+\]|[A-Za-z0-9\-._~!$&'()*+,;=%]+)(:[0-9]+)?$")


def check(text):
    try:
        u = httpcore.URL(text)
    except Exception:
        return None  # rejected inputs are not part of the law
    if not u.host:
        return None
    try:
        back = httpcore.URL(bytes(u))
    except Exception as e:  # noqa: BLE001
        return {"url": text, "serialised": repr(bytes(u)), "what": f"URL(bytes(u)) raised {type(e).__name__}: {e}"}
    if back != u:
        return {"url": text, "serialised": repr(bytes(u)), "what": f"URL(bytes(u)) = {back!r} != {u!r}"}
    hv = dict(include_request_headers([], url=u, content=None))[b"Host"]
    if not HOST_RE.match(hv):
        return {"url": text, "what": f"synthesised Host header {hv!r} is not uri-host [':' port] with IP-literals bracketed"}
    return None


def main():
    rnd = random.Random(SEED)
    n = 0
    for s, us, h, p, pa, q, f in itertools.product(SCHEMES, USERS, HOSTS, PORTS, PATHS, QUERIES, FRAGS):
        n += 1
        bad = check(f"{s}://{us}{h}{p}{pa}{q}{f}")
        if bad:
            print(json.dumps({"audit": "url_roundtrip", "result": "counterexample", **bad}))
            return 1
    alphabet = "abcXYZ019.-_~:/?#[]@!$&'()*+,;=%"
    for _ in range(3000):
        n += 1
        tail = "".join(rnd.choice(alphabet) for _ in range(rnd.randrange(0, 30)))
        bad = check(rnd.choice(SCHEMES) + "://" + rnd.choice(HOSTS) + rnd.choice(PORTS) + rnd.choice(["/", "?", "#"]) + tail)  # the random tail never reaches into the authority
        if bad:
            print(json.dumps({"audit": "url_roundtrip", "result": "counterexample", **bad}))
            return 1
    print(json.dumps({"audit": "url_roundtrip", "result": "held", "explored": n, "bound": "product of the component pools (URLs <= 64 bytes) + 3000 seeded random tails", "seed": SEED}))
    return 0


if __name__ == "__main__":
    sys.exit(main())
