"""Bounded audit of the assumed contracts of the runtime primitives that contracts/m_sync.py builds on (A-runtime):
trio / anyio / threading Event, Lock, Semaphore, fail_after, CancelScope(shield=True).  One scenario per clause, no network.
  1. Event: a set() before wait() is not lost; wait() on an unset event under fail_after(t) raises the runtime's timeout
     error (trio.TooSlowError / TimeoutError); threading.Event.wait(timeout) returns False on timeout, True when set.
  2. Semaphore(initial=max=b): b acquires succeed without blocking, the next one blocks until a release; releasing above
     max raises (trio / anyio).
  3. Lock: mutual exclusion (a second acquire waits until release).
  4. CancelScope(shield=True): a cancellation of the enclosing scope is not delivered inside the shield (trio and anyio
     scopes; native asyncio Task.cancel() is the recorded exception - design_probes/p08).
Exit 0 = every clause held; exit 1 = a clause failed (the last line is a JSON object naming it)."""
import json, sys, threading
import anyio, trio

failed = []


def clause(name, ok):
    if not ok:
        failed.append(name)


async def anyio_part(lib):
    # 1. event
    ev = anyio.Event()
    ev.set()
    with anyio.fail_after(1):
        await ev.wait()
    ev2 = anyio.Event()
    try:
        with anyio.fail_after(0.05):
            await ev2.wait()
        clause(f"{lib}: fail_after fires on an unset event", False)
    except TimeoutError:
        pass
    # 2. semaphore
    sem = anyio.Semaphore(initial_value=2, max_value=2)
    with anyio.fail_after(1):
        await sem.acquire(); await sem.acquire()
    blocked = False
    with anyio.move_on_after(0.05):
        await sem.acquire()
        blocked = True
    clause(f"{lib}: third acquire of a semaphore of 2 blocks", blocked is False)
    sem.release(); sem.release()
    try:
        sem.release()
        clause(f"{lib}: release above max raises", False)
    except ValueError:
        pass
    # 3. lock
    lock = anyio.Lock()
    await lock.acquire()
    got = []

    async def other():
        with anyio.move_on_after(0.05):
            await lock.acquire()
            got.append(1)

    async with anyio.create_task_group() as tg:
        tg.start_soon(other)
    clause(f"{lib}: another task's acquire of a held lock waits", not got)
    lock.release()
    # 4. shield
    reached = False
    with anyio.CancelScope() as outer:
        outer.cancel()
        with anyio.CancelScope(shield=True):
            await anyio.sleep(0.01)
            reached = True
    clause(f"{lib}: shielded scope is not cancelled by the enclosing scope", reached)


async def trio_part():
    ev = trio.Event(); ev.set()
    with trio.fail_after(1):
        await ev.wait()
    try:
        with trio.fail_after(0.05):
            await trio.Event().wait()
        clause("trio: fail_after fires on an unset event", False)
    except trio.TooSlowError:
        pass
    try:
        with trio.fail_after(float("inf")):
            pass
    except Exception:
        clause("trio: fail_after(inf) is accepted", False)
    sem = trio.Semaphore(initial_value=2, max_value=2)
    await sem.acquire(); await sem.acquire()
    blocked = False
    with trio.move_on_after(0.05):
        await sem.acquire(); blocked = True
    clause("trio: third acquire of a semaphore of 2 blocks", blocked is False)
    sem.release(); sem.release()
    try:
        sem.release(); clause("trio: release above max raises", False)
    except ValueError:
        pass
    lock = trio.Lock(); await lock.acquire()
    got = []

    async def other():
        with trio.move_on_after(0.05):
            await lock.acquire(); got.append(1)

    async with trio.open_nursery() as n:
        n.start_soon(other)
    clause("trio: another task's acquire of a held lock waits", not got)
    lock.release()
    reached = False
    with trio.CancelScope() as outer:
        outer.cancel()
        with trio.CancelScope(shield=True):
            await trio.sleep(0.01); reached = True
    clause("trio: shielded scope is not cancelled by the enclosing scope", reached)


def threading_part():
    ev = threading.Event()
    clause("threading: Event.wait(timeout) returns False on timeout", ev.wait(timeout=0.05) is False)
    ev.set()
    clause("threading: Event.wait returns True when set", ev.wait(timeout=0.05) is True and ev.wait(timeout=None) is True)
    sem = threading.Semaphore(value=2)
    clause("threading: semaphore of 2 admits two", sem.acquire(timeout=0.5) and sem.acquire(timeout=0.5))
    clause("threading: third acquire blocks", sem.acquire(timeout=0.05) is False)
    lock = threading.Lock(); lock.acquire()
    clause("threading: second acquire of a held lock waits", lock.acquire(timeout=0.05) is False)
    lock.release()


anyio.run(anyio_part, "anyio/asyncio")
anyio.run(anyio_part, "anyio/trio", backend="trio")
trio.run(trio_part)
threading_part()
print(json.dumps({"explored": "4 clauses x (anyio on asyncio, anyio on trio, trio, threading)", "bound": "one scenario per clause", "failed": failed}))
sys.exit(1 if failed else 0)
