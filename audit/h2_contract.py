"""Bounded audit of the assumed h2 contract (A-h2) - a stand-in, never counted as proved.

Audited clauses: (1) H2Connection.receive_data() yields the same event sequence (type, stream id,
data, flow_controlled_length, END_STREAM) however the frame bytes are segmented, every stream event
carrying the stream id of its frame, in frame order; (2) local_flow_control_window(sid) is
min(stream window, connection window), is reduced by exactly len(data) per send_data and grows by a
WINDOW_UPDATE; send_data beyond it or beyond max_outbound_frame_size raises; (3)
get_next_available_stream_id() does not change until send_headers uses it, then advances by 2;
(4) data_to_send() returns and clears the queue; (5) acknowledge_received_data never raises for
size >= 0 on a stream that was opened (open, half-closed, closed or reset - the ids httpcore passes
always come from events h2 delivered); (6) after a GOAWAY the state machine
is CLOSED and send_headers for a new stream raises a ProtocolError subclass.

Bound: one scripted server conversation (3 streams interleaved, padded DATA, SETTINGS, PING,
WINDOW_UPDATE, RST_STREAM, GOAWAY), all single cuts + 300 VERIF_SEED-seeded multi-cuts + byte by
byte.  Exit 0 = held, 1 = counterexample (JSON), other = crash."""
import json, os, random, sys
import h2.config, h2.connection, h2.events, h2.exceptions, h2.settings
import hpack, hyperframe.frame as hf

SEED = int(os.environ.get("VERIF_SEED", "1"))


def client():
    c = h2.connection.H2Connection(config=h2.config.H2Configuration(client_side=True, validate_inbound_headers=False))
    c.initiate_connection()
    c.data_to_send()
    return c


def server_bytes():
    e = hpack.Encoder()
    fr = [hf.SettingsFrame(settings={h2.settings.SettingCodes.MAX_CONCURRENT_STREAMS: 50}),
          hf.HeadersFrame(stream_id=1, data=e.encode([(b":status", b"200"), (b"a", b"1")]), flags=["END_HEADERS"]),
          hf.HeadersFrame(stream_id=3, data=e.encode([(b":status", b"404")]), flags=["END_HEADERS"]),
          hf.DataFrame(stream_id=1, data=b"one-"),
          hf.DataFrame(stream_id=3, data=b"three", flags=["END_STREAM"]),
          hf.PingFrame(opaque_data=b"12345678"),
          hf.DataFrame(stream_id=1, data=b"padded", pad_length=9, flags=["PADDED"]),
          hf.WindowUpdateFrame(stream_id=0, window_increment=1000),
          hf.HeadersFrame(stream_id=5, data=e.encode([(b":status", b"200")]), flags=["END_HEADERS"]),
          hf.RstStreamFrame(stream_id=5, error_code=2),
          hf.DataFrame(stream_id=1, data=b"-end", flags=["END_STREAM"]),
          hf.GoAwayFrame(stream_id=0, last_stream_id=5, error_code=0)]
    return b"".join(f.serialize() for f in fr)


def observe(segments):
    c = client()
    for sid in (1, 3, 5):
        c.send_headers(sid, [(b":method", b"GET"), (b":authority", b"x"), (b":scheme", b"https"), (b":path", b"/")], end_stream=True)
    c.data_to_send()
    out = []
    for seg in segments:
        for ev in c.receive_data(seg):
            name = type(ev).__name__
            rec = [name, getattr(ev, "stream_id", None)]
            if isinstance(ev, h2.events.DataReceived):
                rec += [bytes(ev.data), ev.flow_controlled_length, ev.stream_ended is not None]
            if isinstance(ev, h2.events.ResponseReceived):
                rec += [[(bytes(k), bytes(v)) for k, v in ev.headers], ev.stream_ended is not None]
            if isinstance(ev, h2.events.ConnectionTerminated):
                rec += [ev.last_stream_id, ev.error_code]
            if isinstance(ev, h2.events.StreamReset):
                rec += [ev.error_code]
            out.append(rec)
    return out


def fail(**kw):
    print(json.dumps({"audit": "h2_contract", "result": "counterexample", **kw}, default=repr))
    return 1


def main():
    rnd = random.Random(SEED)
    wire = server_bytes()
    ref = observe([wire])
    want_ids = [1, 3, 1, 3, 3, 1, 5, 5, 1, 1]
    got_ids = [r[1] for r in ref if r[0] in ("ResponseReceived", "DataReceived", "StreamEnded", "StreamReset")]
    if got_ids != want_ids:
        return fail(clause=1, what="stream events not in frame order with their frame's stream id", got=got_ids, want=want_ids)
    padded = [r for r in ref if r[0] == "DataReceived" and r[2] == b"padded"]
    if not padded or padded[0][3] != len(b"padded") + 9 + 1:
        return fail(clause=1, what="flow_controlled_length of padded DATA is not data+padding+1", got=padded)
    cuts = [[wire[:i], wire[i:]] for i in range(1, len(wire))]
    for _ in range(300):
        pos = sorted(rnd.sample(range(1, len(wire)), rnd.randrange(2, 7)))
        cuts.append([wire[a:b] for a, b in zip([0] + pos, pos + [len(wire)])])
    cuts.append([wire[i:i + 1] for i in range(len(wire))])
    for segs in cuts:
        got = observe(segs)
        if got != ref:
            return fail(clause=1, what="event sequence depends on segmentation", segments=[len(s) for s in segs], whole=ref, split=got)
    # (2) windows
    c = client()
    c.receive_data(hf.SettingsFrame(settings={h2.settings.SettingCodes.INITIAL_WINDOW_SIZE: 100, h2.settings.SettingCodes.MAX_FRAME_SIZE: 16384}).serialize())
    c.send_headers(1, [(b":method", b"POST"), (b":authority", b"x"), (b":scheme", b"https"), (b":path", b"/")])
    w0 = c.local_flow_control_window(1)
    c.send_data(1, b"x" * 60)
    if (w0, c.local_flow_control_window(1)) != (100, 40):
        return fail(clause=2, what="window not reduced by len(data)", before=w0, after=c.local_flow_control_window(1))
    try:
        c.send_data(1, b"x" * 41)
        return fail(clause=2, what="send_data beyond the window did not raise")
    except h2.exceptions.FlowControlError:
        pass
    c.receive_data(hf.WindowUpdateFrame(stream_id=1, window_increment=500).serialize())
    if c.local_flow_control_window(1) != 540:
        return fail(clause=2, what="WINDOW_UPDATE not added", got=c.local_flow_control_window(1))
    c.receive_data(hf.SettingsFrame(settings={h2.settings.SettingCodes.INITIAL_WINDOW_SIZE: 10}).serialize())
    if c.local_flow_control_window(1) != 450:
        return fail(clause=2, what="INITIAL_WINDOW_SIZE decrease not applied to the open stream (may go negative)", got=c.local_flow_control_window(1))
    # (3) ids
    c = client()
    a, b = c.get_next_available_stream_id(), c.get_next_available_stream_id()
    c.send_headers(a, [(b":method", b"GET"), (b":authority", b"x"), (b":scheme", b"https"), (b":path", b"/")], end_stream=True)
    n = c.get_next_available_stream_id()
    if not (a == b == 1 and n == 3):
        return fail(clause=3, what="stream id allocation", got=[a, b, n])
    # (4) queue
    d1, d2 = c.data_to_send(), c.data_to_send()
    if not d1 or d2 != b"":
        return fail(clause=4, what="data_to_send does not clear the queue", first=len(d1), second=len(d2))
    # (5) acknowledge never raises (open, closed, unknown streams)
    c.receive_data(hf.HeadersFrame(stream_id=1, data=hpack.Encoder().encode([(b":status", b"200")]), flags=["END_HEADERS"]).serialize()
                   + hf.DataFrame(stream_id=1, data=b"abc", flags=["END_STREAM"]).serialize())
    c.send_headers(3, [(b":method", b"GET"), (b":authority", b"x"), (b":scheme", b"https"), (b":path", b"/")], end_stream=True)
    c.receive_data(hf.RstStreamFrame(stream_id=3, error_code=8).serialize())
    for sid, size in ((1, 3), (1, 0), (3, 10), (3, 0)):
        try:
            c.acknowledge_received_data(size, sid)
        except Exception as e:  # noqa: BLE001
            return fail(clause=5, what="acknowledge_received_data raised", stream=sid, size=size, exc=repr(e))
    # (6) GOAWAY
    c.receive_data(hf.GoAwayFrame(stream_id=0, last_stream_id=1, error_code=0).serialize())
    try:
        c.send_headers(5, [(b":method", b"GET"), (b":authority", b"x"), (b":scheme", b"https"), (b":path", b"/")], end_stream=True)
        return fail(clause=6, what="send_headers after GOAWAY did not raise")
    except h2.exceptions.ProtocolError:
        pass
    # (7) connection-level preface calls: fine on an open machine, refused (ProtocolError) on a closed one
    c = h2.connection.H2Connection(config=h2.config.H2Configuration(client_side=True, validate_inbound_headers=False))
    try:
        c.initiate_connection()
        c.increment_flow_control_window(2 ** 24)
    except Exception as e:  # noqa: BLE001
        return fail(clause=7, what="preface calls raised on an open connection", exc=repr(e))
    c.close_connection()
    for call in (lambda: c.initiate_connection(), lambda: c.increment_flow_control_window(2 ** 24)):
        try:
            call()
            return fail(clause=7, what="preface call accepted on a closed connection")
        except h2.exceptions.ProtocolError:
            pass
    print(json.dumps({"audit": "h2_contract", "result": "held", "explored": len(cuts) + 12, "bound": "1 scripted 12-frame conversation x (all single cuts + 300 seeded multi-cuts + byte-by-byte) + 12 point checks of window / id / queue / ack / GOAWAY clauses", "seed": SEED}))
    return 0


if __name__ == "__main__":
    sys.exit(main())
