"""Bounded audit of the assumed h11 contract (A-h11) - a stand-in, never counted as proved.

Assumption audited: as a client, h11.Connection's event sequence (Response / InformationalResponse /
Data / EndOfMessage / ConnectionClosed and `trailing_data`) depends only on the byte stream fed to
receive_data(), not on how it is cut into segments; Data events concatenate to exactly the framed
body; send() returns bytes that an independent h11 server parses back to the same request.

Bound: a fixed family of 14 response shapes (Content-Length, chunked with extensions and trailers,
close-delimited, interim 100/103, 101 upgrade with pipelined bytes, HEAD-like empty bodies), every
single cut position, and VERIF_SEED-seeded random multi-cuts (200 per shape).  Exit 0 = assumption
held on everything explored, 1 = counterexample (printed as JSON), other = crash.
"""
import json
import os
import random
import sys

import h11

SEED = int(os.environ.get("VERIF_SEED", "1"))

SHAPES = [
    b"HTTP/1.1 200 OK\r\nContent-Length: 11\r\nX-A: 1\r\nx-a: 2\r\n\r\nhello world",
    b"HTTP/1.1 200 OK\r\nContent-Length: 0\r\n\r\n",
    b"HTTP/1.1 204 No Content\r\n\r\n",
    b"HTTP/1.1 200 OK\r\nTransfer-Encoding: chunked\r\n\r\n5\r\nhello\r\n6\r\n world\r\n0\r\n\r\n",
    b"HTTP/1.1 200 OK\r\nTransfer-Encoding: chunked\r\n\r\n5;ext=1\r\nhello\r\n0\r\nTrailer: t\r\n\r\n",
    b"HTTP/1.1 200 OK\r\nTransfer-Encoding: chunked\r\n\r\n1\r\na\r\n1\r\nb\r\n1\r\nc\r\n0\r\n\r\n",
    b"HTTP/1.0 200 OK\r\n\r\nclose delimited body",
    b"HTTP/1.1 200 OK\r\nConnection: close\r\n\r\nuntil eof",
    b"HTTP/1.1 100 Continue\r\n\r\nHTTP/1.1 200 OK\r\nContent-Length: 2\r\n\r\nok",
    b"HTTP/1.1 103 Early Hints\r\nLink: </a>\r\n\r\nHTTP/1.1 100 Continue\r\n\r\nHTTP/1.1 404 Not Found\r\nContent-Length: 1\r\n\r\nx",
    b"HTTP/1.1 101 Switching Protocols\r\nUpgrade: websocket\r\nConnection: Upgrade\r\n\r\n\x81\x05hello-after-head",
    b"HTTP/1.1 200 OK\r\nContent-Length: 5\r\n\r\nhelloHTTP/1.1 200 OK\r\n",
    b"HTTP/1.1 500 Oops\r\nContent-Length: 3\r\nSet-Cookie: a\r\nSet-Cookie: b\r\n\r\nerr",
    b"HTTP/1.1 200 \r\nContent-Length: 1\r\n\r\nz",
]


def run(segments, eof):
    """-> normalised observation of a client connection fed these segments"""
    conn = h11.Connection(our_role=h11.CLIENT)
    conn.send(h11.Request(method="GET", target="/", headers=[("Host", "x"), ("Connection", "upgrade"), ("Upgrade", "websocket")]))
    conn.send(h11.EndOfMessage())
    out = []
    body = b""

    def drain():
        nonlocal body
        while True:
            try:
                ev = conn.next_event()
            except h11.RemoteProtocolError as e:
                out.append(("error", str(e)))
                return False
            if ev is h11.NEED_DATA or ev is h11.PAUSED:
                return True
            if isinstance(ev, h11.Data):
                body += bytes(ev.data)
            elif isinstance(ev, (h11.Response, h11.InformationalResponse)):
                out.append((type(ev).__name__, ev.status_code, bytes(ev.reason), bytes(ev.http_version), [(bytes(k), bytes(v)) for k, v in ev.headers.raw_items()]))
            elif isinstance(ev, h11.EndOfMessage):
                out.append(("EndOfMessage", [(bytes(k), bytes(v)) for k, v in ev.headers]))
            elif isinstance(ev, h11.ConnectionClosed):
                out.append(("ConnectionClosed",))
                return False

    for seg in segments:
        conn.receive_data(seg)
        if not drain():
            break
    else:
        if eof:
            conn.receive_data(b"")
            drain()
    trailing = bytes(conn.trailing_data[0])
    return out, body, trailing if conn.their_state is h11.SWITCHED_PROTOCOL or conn.our_state is h11.SWITCHED_PROTOCOL else b"-"


def check_send_roundtrip(rnd):
    for _ in range(300):
        method = rnd.choice([b"GET", b"POST", b"PUT", b"OPTIONS"])
        target = rnd.choice([b"/", b"/a?b=c", b"*", b"http://h/abs"])
        headers = [(b"Host", b"example.com")] + [(rnd.choice([b"X-A", b"x-b", b"Accept"]), bytes(rnd.choice(b"abc123") for _ in range(rnd.randrange(0, 6)))) for _ in range(rnd.randrange(0, 4))]
        body = bytes(rnd.randrange(256) for _ in range(rnd.randrange(0, 40)))
        chunked = rnd.random() < 0.5
        headers.append((b"Transfer-Encoding", b"chunked") if chunked else (b"Content-Length", str(len(body)).encode()))
        c = h11.Connection(our_role=h11.CLIENT)
        wire = c.send(h11.Request(method=method, target=target, headers=headers))
        cuts = sorted(rnd.sample(range(len(body) + 1), min(len(body) + 1, rnd.randrange(1, 4))))
        pieces = [body[a:b] for a, b in zip([0] + cuts, cuts + [len(body)])]
        for p in pieces:
            if p:
                wire += c.send(h11.Data(data=p))
        wire += c.send(h11.EndOfMessage())
        s = h11.Connection(our_role=h11.SERVER)
        s.receive_data(wire)
        ev = s.next_event()
        got_body = b""
        while True:
            e = s.next_event()
            if isinstance(e, h11.Data):
                got_body += bytes(e.data)
            else:
                break
        got_headers = [(bytes(k), bytes(v)) for k, v in ev.headers.raw_items()]
        if (bytes(ev.method), bytes(ev.target), got_headers, got_body) != (method, target, headers, body) or not isinstance(e, h11.EndOfMessage):
            return {"what": "send() wire does not parse back", "method": method.decode(), "target": target.decode(), "headers": repr(headers), "body": repr(body), "wire": repr(wire)}
    return None


def main():
    rnd = random.Random(SEED)
    explored = 0
    for shape in SHAPES:
        for eof in (True, False):
            ref = run([shape], eof)
            cuts = [[shape[:i], shape[i:]] for i in range(1, len(shape))]
            for _ in range(200):
                n = rnd.randrange(2, 6)
                pos = sorted(rnd.sample(range(1, len(shape)), min(n, len(shape) - 1)))
                cuts.append([shape[a:b] for a, b in zip([0] + pos, pos + [len(shape)])])
            cuts.append([shape[i:i + 1] for i in range(len(shape))])
            for segs in cuts:
                explored += 1
                got = run(segs, eof)
                if got != ref:
                    print(json.dumps({"audit": "h11_contract", "result": "counterexample", "shape": repr(shape), "segments": [repr(s) for s in segs], "eof": eof, "whole": repr(ref), "split": repr(got)}))
                    return 1
    bad = check_send_roundtrip(rnd)
    if bad:
        print(json.dumps({"audit": "h11_contract", "result": "counterexample", **bad}))
        return 1
    print(json.dumps({"audit": "h11_contract", "result": "held", "explored": explored + 300, "bound": "14 response shapes x {eof, no eof} x (all single cuts + 200 seeded multi-cuts + byte-by-byte); 300 seeded request round trips", "seed": SEED}))
    return 0


if __name__ == "__main__":
    sys.exit(main())
