#!/usr/bin/env python3
"""Native replay of refuted obligations on pure(ish) functions.

Run with the overlay interpreter, cwd = the tree under test (PYTHONPATH=<repo>).  For the
function named on the command line it executes the REAL function on (a) the values of the
solver's counter-model where they are concrete, (b) a deterministic family of inputs derived
from VERIF_SEED, and compares with an independent concrete implementation of the contract's
spec function.  Exit 1 + JSON on stdout when a failing input is found, exit 0 otherwise.
This is evidence for the VIOLATION line, never the deciding step.
"""
from __future__ import annotations

import asyncio
import itertools
import json
import random
import sys

import httpcore
from httpcore import _models


def lower(b):
    return b.lower()


# ---------------------------------------------------------------------------------- specs


def spec_merge(default, override):
    default = [] if default is None else list(default)
    override = [] if override is None else list(override)
    keys = {k.lower() for k, _ in override}
    return [(k, v) for k, v in default if k.lower() not in keys] + override


def auth_host(host):
    """host inside an authority: IP-literals (anything with ':') bracketed"""
    return b"[" + host + b"]" if b":" in host and not host.startswith(b"[") else host


def spec_include(headers, scheme, host, port, content):
    DEF = {b"ftp": 21, b"http": 80, b"https": 443, b"ws": 80, b"wss": 443}
    names = {k.lower() for k, _ in headers}
    out = list(headers)
    if b"host" not in names:
        host = auth_host(host)
        hv = host if (port is None or port == DEF.get(scheme)) else host + b":" + str(port).encode()
        out = [(b"Host", hv)] + out
    if content is not None and b"content-length" not in names and b"transfer-encoding" not in names:
        if isinstance(content, bytes):
            out = out + [(b"Content-Length", str(len(content)).encode())]
        else:
            out = out + [(b"Transfer-Encoding", b"chunked")]
    return out


def spec_url(url: bytes):
    import urllib.parse

    p = urllib.parse.urlsplit(url)
    target = (p.path or b"/") + (b"?" + p.query if p.query else b"")
    return p.scheme, (p.hostname or b""), p.port, target


DEFAULT_PORT = {b"http": 80, b"https": 443, b"ws": 80, b"wss": 443, b"socks5": 1080, b"socks5h": 1080}


# ---------------------------------------------------------------------------------- generators


def gen_bytes(rnd, n=12, alphabet=b"abAB:;/?#-_. \x00\xff"):
    return bytes(rnd.choice(alphabet) for _ in range(rnd.randrange(0, n)))


def gen_headers(rnd):
    names = [b"Host", b"host", b"HOST", b"Content-Length", b"content-length", b"Transfer-Encoding", b"transfer-encoding", b"X-A", b"x-a", b"Accept", b"accept", b"Proxy-Authorization", b"proxy-authorization"]
    return [(rnd.choice(names), gen_bytes(rnd, 6, b"abc123")) for _ in range(rnd.randrange(0, 5))]


def gen_url(rnd):
    scheme = rnd.choice([b"http", b"https", b"ws", b"wss", b"HTTP"])
    host = rnd.choice([b"example.com", b"EXAMPLE.com", b"127.0.0.1", b"[::1]", b"a"])
    port = rnd.choice([b"", b":80", b":443", b":8080", b":0", b":21"])
    path = rnd.choice([b"", b"/", b"/a/b", b"/a;b/c;d", b"/a;p=1", b"/%2F/x", b"/./../a"])
    query = rnd.choice([b"", b"?", b"?x=1", b"?a=b/c&d"])
    frag = rnd.choice([b"", b"#f"])
    user = rnd.choice([b"", b"u:p@"])
    return scheme + b"://" + user + host + port + path + query + frag


# ---------------------------------------------------------------------------------- checks per function


class Fail(Exception):
    def __init__(self, inp, detail):
        self.inp, self.detail = inp, detail


def check_upgrade_read(rnd, model, tree):
    if tree == "sync":
        from httpcore._sync.http11 import HTTP11UpgradeStream as US

        class S:
            def __init__(self, chunks):
                self.chunks, self.reads = list(chunks), 0

            def read(self, max_bytes, timeout=None):
                self.reads += 1
                d = self.chunks.pop(0) if self.chunks else b""
                assert len(d) <= max_bytes
                return d

        call = lambda u, n: u.read(n)  # noqa: E731
    else:
        from httpcore._async.http11 import AsyncHTTP11UpgradeStream as US

        class S:
            def __init__(self, chunks):
                self.chunks, self.reads = list(chunks), 0

            async def read(self, max_bytes, timeout=None):
                self.reads += 1
                d = self.chunks.pop(0) if self.chunks else b""
                assert len(d) <= max_bytes
                return d

        call = lambda u, n: asyncio.run(u.read(n))  # noqa: E731
    cases = []
    for lead_len in (0, 1, 2, 3, 7, 16):
        for mb in (1, 2, 3, 5, 16, 64):
            cases.append((bytes(range(65, 65 + lead_len)), mb))
    for _ in range(200):
        cases.append((gen_bytes(rnd, 20), rnd.choice([1, 1, 2, 3, 4, 8, 100])))
    for leading, mb in cases:
        live = [b"L"] * 40
        s = S(live)
        u = US(s, leading)
        got = b""
        first = True
        for _ in range(len(leading) + 3):
            r = call(u, mb)
            if len(r) > mb:
                raise Fail({"leading": leading.hex(), "max_bytes": mb}, f"read returned {len(r)} > max_bytes")
            if first and leading and (not r or not leading.startswith(r) or s.reads):
                raise Fail({"leading": leading.hex(), "max_bytes": mb}, f"first read returned {r!r} with {s.reads} network reads; leading data must come first")
            first = False
            got += r
        expect = (leading + b"L" * 100)[: len(got)]
        if got != expect:
            raise Fail({"leading": leading.hex(), "max_bytes": mb}, f"bytes delivered {got!r} != bytes sent {expect!r}")


def check_merge(rnd, model, tree):
    mod = __import__("httpcore._sync.http_proxy" if tree == "sync" else "httpcore._async.http_proxy", fromlist=["merge_headers"])
    for _ in range(3000):
        d, o = gen_headers(rnd), gen_headers(rnd)
        for dd, oo in ((d, o), (None, o), (d, None)):
            got = mod.merge_headers(dd, oo)
            exp = spec_merge(dd, oo)
            if got != exp:
                raise Fail({"default": repr(dd), "override": repr(oo)}, f"merge_headers -> {got!r}, spec {exp!r}")


def check_include(rnd, model, tree):
    for _ in range(3000):
        h = gen_headers(rnd)
        scheme = rnd.choice([b"http", b"https", b"ws", b"wss", b"ftp"])
        port = rnd.choice([None, 80, 443, 21, 8080, 0])
        host = rnd.choice([b"example.com", b"::1", b"2001:db8::1", b"127.0.0.1", b"[::1]"])
        url = httpcore.URL(scheme=scheme, host=host, port=port, target=b"/")
        content = rnd.choice([None, b"", b"abc", iter([b"x"])])
        got = _models.include_request_headers(list(h), url=url, content=content)
        exp = spec_include(h, scheme, host, port, content)
        if got != exp:
            raise Fail({"headers": repr(h), "scheme": scheme.decode(), "host": host.decode(), "port": port, "content": repr(content)}, f"-> {got!r}, spec {exp!r}")


def check_url(rnd, model, tree):
    for _ in range(3000):
        u = gen_url(rnd)
        try:
            exp = spec_url(u)
            exp_port = exp[2]
        except ValueError:
            continue
        got = httpcore.URL(u)
        if (got.scheme, got.host, got.port, got.target) != exp:
            raise Fail({"url": u.decode("latin1")}, f"URL -> {(got.scheme, got.host, got.port, got.target)!r}, RFC split {exp!r}")
        s = httpcore.URL(u.decode("latin1")) if all(c < 128 for c in u) else got
        if s != got:
            raise Fail({"url": u.decode("latin1")}, "str and bytes forms parse differently")


def check_origin(rnd, model, tree):
    for scheme, dport in DEFAULT_PORT.items():
        for port in (None, 0, 1, dport, 8080):
            o = httpcore.URL(scheme=scheme, host=b"h", port=port, target=b"/").origin
            exp = dport if port is None else port
            if (o.scheme, o.host, o.port) != (scheme, b"h", exp):
                raise Fail({"scheme": scheme.decode(), "port": port}, f"origin port {o.port}, expected {exp}")


def check_origin_eq(rnd, model, tree):
    vals = [(b"http", b"a", 80), (b"https", b"a", 80), (b"http", b"b", 80), (b"http", b"a", 81)]
    for x, y in itertools.product(vals, vals):
        got = httpcore.Origin(*x) == httpcore.Origin(*y)
        if got != (x == y):
            raise Fail({"a": repr(x), "b": repr(y)}, f"Origin.__eq__ -> {got}")


def check_url_bytes(rnd, model, tree):
    for scheme in (b"http", b"https"):
        for host in (b"h.example", b"::1", b"2001:db8::1", b"[::1]", b"127.0.0.1"):
            for port in (None, 80, 8080):
                for target in (b"/", b"/a?b", b"*"):
                    u = httpcore.URL(scheme=scheme, host=host, port=port, target=target)
                    exp = scheme + b"://" + auth_host(host) + (b"" if port is None else b":" + str(port).encode()) + target
                    inp = {"scheme": scheme.decode(), "host": host.decode(), "port": port, "target": target.decode()}
                    if bytes(u) != exp:
                        raise Fail(inp, f"bytes(URL) {bytes(u)!r} != {exp!r}")
                    if target.startswith(b"/") and not host.startswith(b"["):
                        try:
                            back = httpcore.URL(bytes(u))
                        except Exception as e:  # noqa: BLE001
                            raise Fail(inp, f"URL(bytes(u)) raised {type(e).__name__}: {e}")
                        if back != u:
                            raise Fail(inp, f"URL(bytes(u)) = {back!r} != {u!r}")


def check_backoff(rnd, model, tree):
    mod = __import__("httpcore._sync.connection" if tree == "sync" else "httpcore._async.connection", fromlist=["exponential_backoff"])
    for factor in (0.5, 1, 2, 3):
        got = list(itertools.islice(mod.exponential_backoff(factor), 8))
        exp = [0] + [factor * 2 ** n for n in range(7)]
        if got != exp:
            raise Fail({"factor": factor}, f"backoff {got} != {exp}")


def check_has_body_headers(rnd, model, tree):
    mod = __import__("httpcore._sync.http2" if tree == "sync" else "httpcore._async.http2", fromlist=["has_body_headers"])
    for _ in range(2000):
        h = gen_headers(rnd)
        req = httpcore.Request("GET", "https://example.com/", headers=h)
        exp = any(k.lower() in (b"content-length", b"transfer-encoding") for k, _ in h)
        if mod.has_body_headers(req) != exp:
            raise Fail({"headers": repr(h)}, f"has_body_headers -> {not exp}")


def check_enforce(rnd, model, tree):
    cases = [b"abc", "abc", "café", b"\xff", 1, None]
    for v in cases:
        try:
            r = _models.enforce_bytes(v, name="x")
            ok = (isinstance(v, bytes) and r == v) or (isinstance(v, str) and v.isascii() and r == v.encode("ascii"))
            if not ok:
                raise Fail({"value": repr(v)}, f"enforce_bytes accepted -> {r!r}")
        except TypeError:
            if isinstance(v, bytes) or (isinstance(v, str) and v.isascii()):
                raise Fail({"value": repr(v)}, "enforce_bytes rejected a valid value")
    hs = [[("a", b"1"), (b"B", "2"), ("a", "3")], {"x": "1", b"y": b"2"}, None, [(b"k", b"v")] * 3]
    for h in hs:
        r = _models.enforce_headers(h, name="h")
        items = [] if h is None else (list(h.items()) if isinstance(h, dict) else list(h))
        exp = [(k.encode() if isinstance(k, str) else k, v.encode() if isinstance(v, str) else v) for k, v in items]
        if r != exp:
            raise Fail({"headers": repr(h)}, f"enforce_headers -> {r!r}, expected {exp!r}")


def check_connect(rnd, model, tree):
    """scripted backend: every retries setting 0..3 and every outcome sequence (ok / ConnectError /
    ConnectTimeout / ReadTimeout / RuntimeError at the TCP or TLS stage) up to length N+2; checks
    attempts, pauses, which failures are retried, targets, timeouts and TLS decisions"""
    import ssl

    sync = tree == "sync"
    mod = __import__("httpcore._sync.connection" if sync else "httpcore._async.connection", fromlist=["x"])
    HC = mod.HTTPConnection if sync else mod.AsyncHTTPConnection
    ctx = ssl.create_default_context()
    OUT = {"ok": None, "CE": httpcore.ConnectError, "CT": httpcore.ConnectTimeout, "RT": httpcore.ReadTimeout, "RE": RuntimeError}

    def run(scheme, retries, script, http2, sni):
        log = []
        script = list(script)

        def step(stage):
            o = script.pop(0) if script else ("ok", stage)
            while o[1] != stage and o[0] != "ok":
                # scripted failure belongs to the other stage: this stage succeeds
                script.insert(0, o)
                return
            if o[0] != "ok" and o[1] == stage:
                raise OUT[o[0]]("scripted")

        class Stream:
            def __init__(self, tls=False):
                self.tls = tls

            def get_extra_info(self, info):
                return None

        if sync:
            class S(Stream, httpcore.NetworkStream):
                def start_tls(self, ssl_context, server_hostname=None, timeout=None):
                    log.append(("start_tls", server_hostname, timeout)); step("tls"); return S(True)

                def close(self): log.append(("close",))

            class B(httpcore.NetworkBackend):
                def connect_tcp(self, host, port, timeout=None, local_address=None, socket_options=None):
                    log.append(("connect_tcp", host, port, timeout)); step("tcp"); return S()

                def sleep(self, seconds): log.append(("sleep", seconds))
        else:
            class S(Stream, httpcore.AsyncNetworkStream):
                async def start_tls(self, ssl_context, server_hostname=None, timeout=None):
                    log.append(("start_tls", server_hostname, timeout)); step("tls"); return S(True)

                async def aclose(self): log.append(("close",))

            class B(httpcore.AsyncNetworkBackend):
                async def connect_tcp(self, host, port, timeout=None, local_address=None, socket_options=None):
                    log.append(("connect_tcp", host, port, timeout)); step("tcp"); return S()

                async def sleep(self, seconds): log.append(("sleep", seconds))
        origin = httpcore.Origin(scheme, b"example.com", 8443)
        conn = HC(origin=origin, retries=retries, http2=http2, network_backend=B(), ssl_context=ctx)
        ext = {"timeout": {"connect": 7.5, "read": 1.0, "write": 2.0}}
        if sni:
            ext["sni_hostname"] = "sni.example"
        req = httpcore.Request("GET", httpcore.URL(scheme=scheme, host=b"example.com", port=8443, target=b"/"), extensions=ext)
        try:
            r = conn._connect(req) if sync else asyncio.run(conn._connect(req))
            return log, "ok", r
        except BaseException as e:  # noqa: BLE001
            return log, type(e).__name__, None

    kinds = ["ok", "CE", "CT", "RT", "RE"]
    for scheme in (b"http", b"https", b"wss"):
        stages = ["tcp"] + (["tls"] if scheme != b"http" else [])
        for retries in range(0, 4):
            for n in range(0, retries + 3):
                for seq in itertools.product([(k, st) for k in kinds[1:] for st in stages], repeat=n):
                    if rnd.random() > (1.0 if n <= 1 else (0.3 if n == 2 else 0.01)):
                        continue
                    http2, sni = rnd.random() < 0.5, rnd.random() < 0.5
                    log, outcome, res = run(scheme, retries, seq, http2, sni)
                    inp = {"scheme": scheme.decode(), "retries": retries, "failures": [f"{k}@{st}" for k, st in seq], "http2": http2, "sni": sni}
                    attempts = sum(1 for e in log if e[0] == "connect_tcp")
                    sleeps = [e[1] for e in log if e[0] == "sleep"]
                    retryable = [k in ("CE", "CT") for k, _ in seq]
                    # expected number of attempts: stop at first non-retryable failure or after retries+1
                    exp_attempts = 0
                    exp_outcome = "ok"
                    for i in range(retries + 1):
                        exp_attempts += 1
                        if i >= len(seq):
                            break
                        if not retryable[i] or i == retries:
                            exp_outcome = OUT[seq[i][0]].__name__
                            break
                    if attempts != exp_attempts or outcome != exp_outcome:
                        raise Fail(inp, f"{attempts} attempts, outcome {outcome}; expected {exp_attempts} attempts, outcome {exp_outcome}; log {log}")
                    exp_sleeps = [0, 0.5, 1.0, 2.0, 4.0][: max(0, exp_attempts - 1)]
                    if sleeps != exp_sleeps:
                        raise Fail(inp, f"pauses {sleeps}, expected {exp_sleeps}")
                    for e in log:
                        if e[0] == "connect_tcp" and (e[1], e[2], e[3]) != ("example.com", 8443, 7.5):
                            raise Fail(inp, f"connect_tcp called with {e[1:]}")
                        if e[0] == "start_tls" and (e[1], e[2]) != ("sni.example" if sni else "example.com", 7.5):
                            raise Fail(inp, f"start_tls called with {e[1:]}")
                    if outcome == "ok" and (scheme != b"http") != any(e[0] == "start_tls" for e in log):
                        raise Fail(inp, f"TLS decision wrong for scheme {scheme!r}: {log}")



class _FakeSock:
    """scripted socket: send() accepts at most `cap` bytes; `fail` = exception to raise on the k-th op"""

    def __init__(self, cap=1 << 30, fail=None, fail_at=0, recv_data=b"data"):
        self.cap, self.fail, self.fail_at, self.recv_data = cap, fail, fail_at, recv_data
        self.sent = b""
        self.timeout = "unset"
        self.ops = []

    def settimeout(self, t):
        self.timeout = t

    def _op(self, name):
        self.ops.append((name, self.timeout))
        if self.fail is not None and len(self.ops) - 1 == self.fail_at:
            raise self.fail

    def send(self, data):
        self._op("send")
        n = max(1, min(self.cap, len(data)))
        self.sent += bytes(data[:n])
        return n

    def sendall(self, data):
        self._op("sendall")
        self.sent += bytes(data)

    def recv(self, n):
        self._op("recv")
        return self.recv_data[:n]

    def close(self):
        self.ops.append(("close", self.timeout))


def check_sync_stream(rnd, model, tree):
    """SyncStream.read / write against a scripted socket: short sends, the timeout in force at each
    blocking call, and the class of the mapped exception (timeout -> *Timeout, any other OSError -> *Error)"""
    import socket
    from httpcore._backends.sync import SyncStream

    for cap in (1, 2, 7, 1500, 1 << 20):
        for size in (0, 1, 5, 1499, 1500, 1501, 10240):
            for timeout in (None, 0.25, 3.0):
                buf = bytes(rnd.randrange(256) for _ in range(size))
                sk = _FakeSock(cap=cap)
                SyncStream(sk).write(buf, timeout=timeout)
                inp = {"op": "write", "send_accepts_at_most": cap, "len(buffer)": size, "timeout": timeout}
                if sk.sent != buf:
                    raise Fail(inp, f"{len(sk.sent)} of {size} bytes reached the socket (in order: {sk.sent == buf[:len(sk.sent)]})")
                bad = [o for o in sk.ops if o[0] in ("send", "sendall") and o[1] != timeout]
                if bad:
                    raise Fail(inp, f"send issued under socket timeout {bad[0][1]!r}, expected {timeout!r}")
    cases = [(socket.timeout("t"), "Timeout"), (OSError(32, "EPIPE"), "Error"), (ConnectionResetError(104, "reset"), "Error"), (BrokenPipeError(32, "pipe"), "Error")]
    for exc, suffix in cases:
        for op in ("read", "write"):
            for fail_at in (0, 1):
                if op == "read" and fail_at:
                    continue
                sk = _FakeSock(cap=3, fail=exc, fail_at=fail_at)
                inp = {"op": op, "socket_raises": repr(exc), "at_call": fail_at}
                try:
                    r = SyncStream(sk).read(100, timeout=1.0) if op == "read" else SyncStream(sk).write(b"0123456789", timeout=1.0)
                except Exception as e:  # noqa: BLE001
                    want = ("Read" if op == "read" else "Write") + suffix
                    if type(e).__name__ != want:
                        raise Fail(inp, f"raised {type(e).__name__}, expected {want}")
                else:
                    raise Fail(inp, f"socket failure became a normal return {r!r}")
    for timeout in (None, 0.5):
        sk = _FakeSock(recv_data=b"hello world")
        r = SyncStream(sk).read(5, timeout=timeout)
        inp = {"op": "read", "max_bytes": 5, "timeout": timeout}
        if r != b"hello":
            raise Fail(inp, f"read returned {r!r}, the socket returned b'hello'")
        if [o for o in sk.ops if o[0] == "recv" and o[1] != timeout]:
            raise Fail(inp, f"recv issued under socket timeout {sk.ops[0][1]!r}")


def check_async_stream(rnd, model, tree, which):
    """AnyIOStream / TrioStream read+write against a scripted runtime stream: whole buffer handed over,
    a runtime failure is never turned into EOF, exception classes match the cause"""
    if which == "anyio":
        import anyio
        from httpcore._backends.anyio import AnyIOStream as S

        broken, run = anyio.BrokenResourceError, anyio.run
    else:
        import trio
        from httpcore._backends.trio import TrioStream as S

        broken, run = trio.BrokenResourceError, trio.run

    class RT:
        def __init__(self, fail=None):
            self.fail, self.sent = fail, b""

        async def receive(self, max_bytes=65536):
            if self.fail:
                raise self.fail
            return b"hello"[:max_bytes]

        receive_some = receive

        async def send(self, item=None, data=None):
            if self.fail:
                raise self.fail
            self.sent += item if item is not None else data

        async def send_all(self, data):
            await self.send(data=data)

    def mk_reset():
        e = broken()
        e.__cause__ = ConnectionResetError(104, "reset")
        return e

    async def scenario():
        for size in (1, 1500, 70000):
            buf = bytes(rnd.randrange(256) for _ in range(size))
            rt = RT()
            await S(rt).write(buf, timeout=1.0)
            if rt.sent != buf:
                raise Fail({"op": "write", "len(buffer)": size}, f"{len(rt.sent)} of {size} bytes handed to the runtime")
        r = await S(RT()).read(3, timeout=1.0)
        if r != b"hel":
            raise Fail({"op": "read", "max_bytes": 3}, f"read returned {r!r}")
        for op in ("read", "write"):
            for exc in (broken(), mk_reset()):
                inp = {"op": op, "runtime_raises": repr(exc), "cause": repr(exc.__cause__)}
                try:
                    r = await (S(RT(exc)).read(10, timeout=1.0) if op == "read" else S(RT(exc)).write(b"abc", timeout=1.0))
                except Exception as e:  # noqa: BLE001
                    want = "ReadError" if op == "read" else "WriteError"
                    if type(e).__name__ != want:
                        raise Fail(inp, f"raised {type(e).__name__}, expected {want}")
                else:
                    raise Fail(inp, f"runtime failure became a normal return {r!r}")

    run(scenario)

CHECKS = {
    "HTTPConnection._connect": check_connect,
    "SyncStream.read": check_sync_stream,
    "SyncStream.write": check_sync_stream,
    "AnyIOStream.read": lambda r, m, t: check_async_stream(r, m, t, "anyio"),
    "AnyIOStream.write": lambda r, m, t: check_async_stream(r, m, t, "anyio"),
    "TrioStream.read": lambda r, m, t: check_async_stream(r, m, t, "trio"),
    "TrioStream.write": lambda r, m, t: check_async_stream(r, m, t, "trio"),
    "AsyncHTTP11UpgradeStream.read": check_upgrade_read,
    "merge_headers": check_merge,
    "include_request_headers": check_include,
    "URL.__init__": check_url,
    "URL.origin": check_origin,
    "Origin.__eq__": check_origin_eq,
    "URL.__bytes__": check_url_bytes,
    "exponential_backoff": check_backoff,
    "has_body_headers": check_has_body_headers,
    "enforce_bytes": check_enforce,
    "enforce_headers": check_enforce,
}


def main():
    func, tree, seed = sys.argv[1], sys.argv[2], int(sys.argv[3])
    model = json.loads(sys.argv[4]) if len(sys.argv) > 4 else {}
    key = next((k for k in CHECKS if func.endswith(k)), None)
    if key is None:
        print(json.dumps({"applies": False}))
        return 0
    rnd = random.Random(seed)
    try:
        CHECKS[key](rnd, model, tree)
    except Fail as f:
        print(json.dumps({"applies": True, "failing_input": f.inp, "detail": f.detail, "function": func, "tree": tree, "httpcore": httpcore.__file__}))
        return 1
    print(json.dumps({"applies": True, "failing_input": None, "function": func, "tree": tree, "httpcore": httpcore.__file__}))
    return 0


if __name__ == "__main__":
    sys.exit(main())
