#!/bin/sh
# usage: tools/seedtest.sh <patch.diff> <prop> [<prop>...]   -- run checks against a scratch copy of /repo with the patch applied
set -e
PATCH="$1"; shift
D=$(mktemp -d /var/tmp/seedtest.XXXXXX)
trap 'rm -rf "$D"' EXIT
mkdir -p "$D/repo"
cp -r /repo/httpcore /repo/scripts "$D/repo/"
(cd "$D/repo" && patch -p1 -s < "$PATCH")
cd /verif
for P in "$@"; do
  ./check "$P" --repo "$D/repo" --no-evidence 2>&1 | grep -E "VIOLATION|KNOWN|UNDECIDED|CHECKER|exit" | sed "s|$D|SCRATCH|g" | cut -c1-260
done
