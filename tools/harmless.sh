#!/bin/sh
# run every claimed check against each harmless edit (must all stay exit 0)
cd /verif
for P in harmless/*.diff; do
  D=$(mktemp -d /var/tmp/harmless.XXXXXX); mkdir -p $D/repo; cp -r /repo/httpcore /repo/scripts $D/repo/
  (cd $D/repo && patch -p1 -s < /verif/$P) || { echo "$P: patch failed"; rm -rf $D; continue; }
  BAD=""
  for C in ${PROPS:-C01 C02 C03 C04 C05 C06 C07 C08 C09 C10 C11 C12 C13 C14 C15 C16 C17 C18 C19 C20}; do
    PYVC_CACHE_DIR=$D/cache ./check $C --repo $D/repo --no-evidence --jobs ${JOBS:-8} > $D/out.txt 2>&1; rc=$?
    [ $rc -ne 0 ] && BAD="$BAD $C:$rc" && grep -E "^VIOLATION|^UNDECIDED|^CHECKER" $D/out.txt | head -3 | cut -c1-220
  done
  echo "$(basename $P): ${BAD:-all green}"
  rm -rf $D
done
