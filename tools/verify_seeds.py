#!/usr/bin/env python3
"""Confirm every seeded change on scratch worktrees of /repo (outside /repo and /verif):
 (1) patch applies to the current tree, (2) the unedited test suite still passes with it,
 (3) demo.py fails with it, (4) demo.py passes without it.  Writes seeded/<id>/meta.json."""
import json, os, subprocess, sys, tempfile, shutil, concurrent.futures as cf
HERE = os.path.dirname(os.path.dirname(os.path.abspath(__file__)))
PY = "/venv/bin/python"
props = {json.loads(l)["id"]: json.loads(l) for l in open(os.path.join(HERE, "properties.jsonl"))}

def sh(cmd, cwd, timeout):
    try:
        p = subprocess.run(cmd, cwd=cwd, capture_output=True, text=True, timeout=timeout)
        return p.returncode, (p.stdout + p.stderr)[-1500:]
    except subprocess.TimeoutExpired:
        return 124, "timeout"

def one(seed):
    sdir = os.path.join(HERE, "seeded", seed)
    wt = tempfile.mkdtemp(prefix="seedwt.", dir="/var/tmp"); os.rmdir(wt)
    meta = {"seed": seed, "breaks_property": seed.split("-")[0]}
    try:
        subprocess.run(["git", "-C", "/repo", "worktree", "add", "-q", "--detach", wt, "HEAD"], check=True, capture_output=True)
        demo = os.path.join(sdir, "demo.py")
        rc0, out0 = sh([PY, demo], wt, 300)
        meta["demo_without_change"] = {"exit": rc0, "tail": out0[-300:]}
        ap = subprocess.run(["git", "-C", wt, "apply", "--3way", os.path.join(sdir, "patch.diff")], capture_output=True, text=True)
        if ap.returncode != 0:
            ap = subprocess.run(["patch", "-p1", "-s", "-i", os.path.join(sdir, "patch.diff")], cwd=wt, capture_output=True, text=True)
        meta["patch_applies"] = ap.returncode == 0
        if ap.returncode == 0:
            rct, outt = sh([PY, "-m", "pytest", "-q", "-p", "no:cacheprovider", "-x"], wt, 600)
            meta["test_suite_with_change"] = {"exit": rct, "tail": outt.strip().splitlines()[-1] if outt.strip() else ""}
            rc1, out1 = sh([PY, demo], wt, 300)
            meta["demo_with_change"] = {"exit": rc1, "tail": out1[-400:]}
        meta["confirmed"] = bool(meta.get("patch_applies") and meta["test_suite_with_change"]["exit"] == 0 and meta["demo_with_change"]["exit"] not in (0, 124) and rc0 == 0)
    except Exception as e:
        meta["error"] = f"{type(e).__name__}: {e}"
        meta["confirmed"] = False
    finally:
        subprocess.run(["git", "-C", "/repo", "worktree", "remove", "--force", wt], capture_output=True)
        shutil.rmtree(wt, ignore_errors=True)
    notes = os.path.join(sdir, "notes.md")
    meta["needs_to_manifest"] = open(notes).read()[:1500] if os.path.exists(notes) else ""
    meta["what_was_run"] = "git worktree of /repo HEAD under /var/tmp; demo.py on the clean worktree; git apply patch.diff; /venv/bin/python -m pytest -q -x; demo.py again; worktree removed"
    meta["origin"] = "written by a fresh sub-agent that saw only the property text and its own scratch worktree"
    json.dump(meta, open(os.path.join(sdir, "meta.json"), "w"), indent=1)
    return seed, meta["confirmed"], meta.get("patch_applies"), meta.get("test_suite_with_change", {}).get("tail"), meta.get("demo_with_change", {}).get("exit"), rc0 if "demo_without_change" in meta else None

seeds = sys.argv[1:] or sorted(x for x in os.listdir(os.path.join(HERE, "seeded")) if os.path.isdir(os.path.join(HERE, "seeded", x)) and not x.startswith("_"))
with cf.ThreadPoolExecutor(4) as ex:
    for r in ex.map(one, seeds):
        print(*r, flush=True)
