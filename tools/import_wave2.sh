#!/bin/sh
# usage: tools/import_wave2.sh Cnn   - copy /tmp/seed_out2/Cnn/<n>/ to seeded/Cnn-w2-<n>/ and remove the agent's worktree
p=$1
for n in 1 2 3 4; do
  [ -f /tmp/seed_out2/$p/$n/patch.diff ] || continue
  d=/verif/seeded/$p-w2-$n; mkdir -p $d
  cp /tmp/seed_out2/$p/$n/patch.diff /tmp/seed_out2/$p/$n/demo.py $d/
  [ -f /tmp/seed_out2/$p/$n/notes.md ] && cp /tmp/seed_out2/$p/$n/notes.md $d/
done
wt=/tmp/wt2_$p
[ -d $wt ] && git -C /repo worktree remove --force $wt
rm -rf $wt
git -C /repo worktree prune
