#!/usr/bin/env python3
"""Regenerate MANIFEST.json from pyvc/props.py (claimed properties) + properties.jsonl."""
import json, os, sys
HERE = os.path.dirname(os.path.dirname(os.path.abspath(__file__)))
sys.path.insert(0, HERE)
from pyvc.props import PROPS

allp = [json.loads(l) for l in open(os.path.join(HERE, "properties.jsonl"))]
NA = json.load(open(os.path.join(HERE, "tools", "not_applicable.json")))
checks = []
for p in allp:
    pid = p["id"]
    if pid not in PROPS:
        continue
    sp = PROPS[pid]
    level = sp.get("level", "proof")
    checks.append({
        "property_id": pid,
        "quick_cmd": f"./check {pid} --tier quick",
        "thorough_cmd": f"./check {pid} --tier thorough",
        "evidence_file": f"evidence/{pid}.json",
        "replay_cmd_template": f"./check {pid} --repo /repo  # replay file {{path}} names the failed obligation, path and model",
        "engine": "pyvc",
        "level_claimed": {
            "category": level,
            "text": ("Contract-based deductive verification of the real functions (python ast re-read on every run): " + sp["explanation"]
                     + ". Every obligation is a path-condition => goal VC discharged by z3 for all inputs / iterations (loops cut by invariants, calls by contracts); "
                     "holds for the code as far as the assumed contracts of the libraries and the listed meta-theorems hold."),
            "design_ref": f"DESIGN.md section 4 ({pid}) and section 9",
        },
        "level_note": "assumed / trusted: " + "; ".join(sp.get("trusted", [])) + (". NOT decided: " + "; ".join(sp["not_decided"]) if sp.get("not_decided") else "")
                      + (". Bounded stand-ins (never counted as proved): " + "; ".join(sp["bounded"]) if sp.get("bounded") else ""),
        "technique": sp.get("technique", "contract-based deductive verification: ast -> VC generation (symbolic execution with contracts, loop invariants, rely/guarantee havoc at awaits) -> z3"),
    })
m = {
    "version": 1,
    "setup_cmd": "./setup.sh",
    "hooks": {
        "guard": "HTTPCORE_VERIF",
        "enable": "no hooks: contracts are sidecars in /verif/contracts, the repository source is parsed, never edited or instrumented",
        "baseline_off_cmd": "cd /repo && /venv/bin/python -m pytest -ra -q -p no:cacheprovider --timeout=900 --continue-on-collection-errors",
        "source_commits": [],
        "add_only": True,
    },
    "engines": [{"name": "pyvc", "path": "pyvc/", "serves_properties": [c["property_id"] for c in checks],
                 "kind_free_text": "home-built deductive verifier: python ast of /repo -> path-based VC generation against sidecar contracts -> z3 (DESIGN section 2)"}],
    "checks": checks,
    "notes": "Repairs of genuine defects are unguarded 'fix:' commits in /repo (see known_findings.json, status fixed); remaining genuine defects are listed there with status known and replay probes under design_probes/.",
    "not_applicable": [{"property_id": p["id"], "reason": NA.get(p["id"], "not built yet")} for p in allp if p["id"] not in PROPS],
}
json.dump(m, open(os.path.join(HERE, "MANIFEST.json"), "w"), indent=1)
print("claimed:", [c["property_id"] for c in checks], "not applicable:", [x["property_id"] for x in m["not_applicable"]])
