#!/usr/bin/env python3
"""Run every claimed check against every seeded change (scratch copies outside /repo and /verif).
usage: tools/seedmatrix.py [--seeds C17-1,C20-2] [--props C17,C20] [--par 4]
Writes seeded/matrix.json: per seed, per property: exit code + violated obligations."""
import argparse, json, os, shutil, subprocess, sys, tempfile, concurrent.futures as cf
HERE = os.path.dirname(os.path.dirname(os.path.abspath(__file__)))
sys.path.insert(0, HERE)
from pyvc.props import PROPS

def run_seed(seed, props, jobs):
    d = tempfile.mkdtemp(prefix="seedmx.", dir="/var/tmp")
    out = {}
    try:
        repo = os.path.join(d, "repo"); os.makedirs(repo)
        shutil.copytree("/repo/httpcore", os.path.join(repo, "httpcore"))
        shutil.copytree("/repo/scripts", os.path.join(repo, "scripts"))
        patch = os.path.join(HERE, "seeded", seed, "patch.diff")
        p = subprocess.run(["patch", "-p1", "-s", "-i", patch], cwd=repo, capture_output=True, text=True)
        if p.returncode != 0:
            return seed, {"_error": "patch does not apply: " + (p.stdout + p.stderr)[-300:]}
        env = dict(os.environ, PYVC_CACHE_DIR=os.path.join(d, "cache"))
        for prop in props:
            r = subprocess.run([os.path.join(HERE, "check"), prop, "--repo", repo, "--no-evidence", "--jobs", str(jobs)], cwd=HERE, env=env, capture_output=True, text=True, timeout=3600)
            viol = sorted({l.split("obligation=")[1].split(" ")[0] for l in r.stdout.splitlines() if l.startswith("VIOLATION")})
            other = [l for l in r.stdout.splitlines() if l.startswith(("UNDECIDED", "CHECKER"))][:5]
            out[prop] = {"exit": r.returncode, "violations": viol, "other": other}
    finally:
        shutil.rmtree(d, ignore_errors=True)
    return seed, out

def main():
    ap = argparse.ArgumentParser()
    ap.add_argument("--seeds"); ap.add_argument("--props"); ap.add_argument("--par", type=int, default=4); ap.add_argument("--jobs", type=int, default=4)
    ap.add_argument("--own", action="store_true", help="run each change only against the check of the property it was written for")
    a = ap.parse_args()
    seeds = a.seeds.split(",") if a.seeds else sorted(x for x in os.listdir(os.path.join(HERE, "seeded")) if os.path.isdir(os.path.join(HERE, "seeded", x)) and not x.startswith("_"))
    props = a.props.split(",") if a.props else sorted(PROPS)
    path = os.path.join(HERE, "seeded", "matrix.json")
    matrix = json.load(open(path)) if os.path.exists(path) else {}
    with cf.ThreadPoolExecutor(a.par) as ex:
        for seed, out in ex.map(lambda s: run_seed(s, [s.split("-")[0]] if a.own else props, a.jobs), seeds):
            matrix.setdefault(seed, {}).update(out)
            own = seed.split("-")[0]
            fired = [p for p, v in out.items() if isinstance(v, dict) and v.get("exit") == 1]
            errs = [f"{p}:{v.get('exit')}" for p, v in out.items() if isinstance(v, dict) and v.get("exit") not in (0, 1)]
            print(f"{seed}: own={own} {'CAUGHT' if own in fired else ('caught-by-other' if fired else 'MISSED')} fired={fired} nonbinary={errs} {out.get('_error','')}", flush=True)
            json.dump(matrix, open(path, "w"), indent=1, sort_keys=True)

main()
