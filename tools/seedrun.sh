#!/bin/sh
# usage: tools/seedrun.sh <seed-id> <prop>...   (seed-id = directory name under /verif/seeded)
exec /verif/tools/seedtest.sh /verif/seeded/$1/patch.diff $(shift; echo "$@")
