"""Census: which functions of /repo/httpcore are under contract (verified), trusted (assumed), inlined, or untouched."""
import ast, os, sys, json
HERE = os.path.dirname(os.path.dirname(os.path.abspath(__file__)))
sys.path.insert(0, HERE)
from pyvc.run import build_registry

def funcs(root):
    out = {}
    for dp, dn, fn in os.walk(os.path.join(root, "httpcore")):
        for f in fn:
            if not f.endswith(".py"):
                continue
            p = os.path.join(dp, f)
            mod = os.path.relpath(p, os.path.join(root, "httpcore"))[:-3].replace("/", ".")
            t = ast.parse(open(p).read())
            def walk(node, prefix):
                for n in node.body:
                    if isinstance(n, (ast.FunctionDef, ast.AsyncFunctionDef)):
                        out[f"httpcore.{mod}.{prefix}{n.name}"] = (n.end_lineno - n.lineno + 1)
                    elif isinstance(n, ast.ClassDef):
                        walk(n, prefix + n.name + ".")
            walk(t, "")
    return out

def main():
    repo = sys.argv[1] if len(sys.argv) > 1 else "/repo"
    reg = build_registry()
    fs = funcs(repo)
    ck = {}
    for k, c in reg.contracts.items():
        ck[k] = c
    rows = []
    for f, n in sorted(fs.items()):
        if f.startswith("httpcore._sync."):
            continue
        c = ck.get(f)
        st = "none"
        if c is not None:
            st = "trusted" if c.trusted else "contract"
        elif f in reg.inline_ok:
            st = "inline"
        rows.append((st, f, n, sorted(c.props) if c is not None else []))
    for st in ("none", "trusted", "inline"):
        print("==", st)
        for r in rows:
            if r[0] == st:
                print("  ", r[1], r[2], r[3])
    print("contract:", sum(1 for r in rows if r[0] == "contract"), "of", len(rows))
    unknown = [k for k in ck if k not in fs]
    print("contract keys not in repo:", unknown)

main()
