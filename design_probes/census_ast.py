import ast, collections, sys, os
root="/repo/httpcore"
files=["_models.py","_exceptions.py","_synchronization.py","_trace.py","_async/connection_pool.py","_async/connection.py","_async/http11.py","_async/http2.py","_async/http_proxy.py","_async/socks_proxy.py","_async/interfaces.py","_backends/sync.py","_backends/anyio.py","_backends/trio.py","_backends/auto.py"]
stmt=collections.Counter(); expr=collections.Counter(); calls=collections.Counter(); nfun=0; awaits=0; loops=0
perfile={}
for f in files:
    t=ast.parse(open(os.path.join(root,f)).read())
    fs=[n for n in ast.walk(t) if isinstance(n,(ast.FunctionDef,ast.AsyncFunctionDef))]
    perfile[f]=(len(fs), sum(isinstance(n,ast.Await) for n in ast.walk(t)), sum(isinstance(n,(ast.For,ast.AsyncFor,ast.While)) for n in ast.walk(t)), sum(isinstance(n,(ast.ListComp,ast.SetComp,ast.GeneratorExp,ast.DictComp)) for n in ast.walk(t)), sum(isinstance(n,ast.Try) for n in ast.walk(t)), sum(isinstance(n,(ast.With,ast.AsyncWith)) for n in ast.walk(t)), sum(isinstance(n,(ast.Yield,ast.YieldFrom)) for n in ast.walk(t)))
    for fn in fs:
        nfun+=1
        for n in ast.walk(fn):
            if isinstance(n,ast.stmt): stmt[type(n).__name__]+=1
            elif isinstance(n,ast.expr): expr[type(n).__name__]+=1
print("functions",nfun)
print("file: (funcs, awaits, loops, comprehensions, try, with, yield)")
for k,v in perfile.items(): print(f"  {k:32s}",v)
print("stmts",dict(stmt.most_common()))
print("exprs",dict(expr.most_common()))
