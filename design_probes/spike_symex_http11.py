# Throwaway spike: path-based symbolic execution of real httpcore AST -> z3 VCs.
# Targets: AsyncHTTP11UpgradeStream.read (C17 slicing) and
#          AsyncHTTP11Connection._response_closed (C01/C05 idle-iff-done).
import ast, sys, z3, time, itertools, copy

SRC = sys.argv[1] if len(sys.argv) > 1 else "/repo/httpcore/_async/http11.py"
tree = ast.parse(open(SRC).read())

def find(cls, fn):
    for n in tree.body:
        if isinstance(n, ast.ClassDef) and n.name == cls:
            for m in n.body:
                if isinstance(m, (ast.FunctionDef, ast.AsyncFunctionDef)) and m.name == fn:
                    return m
    raise KeyError((cls, fn))

Bytes = z3.SeqSort(z3.BitVecSort(8))
fresh = itertools.count()
def fv(name, sort): return z3.Const(f"{name}!{next(fresh)}", sort)

def py_slice(s, lo, hi):
    # Python slice semantics on sequences for int-or-None bounds (step 1)
    n = z3.Length(s)
    def clamp(k, default):
        if k is None: return default
        return z3.If(k < 0, z3.If(n + k < 0, 0, n + k), z3.If(k > n, n, k))
    a = clamp(lo, z3.IntVal(0)); b = clamp(hi, n)
    return z3.SubSeq(s, a, z3.If(b - a < 0, 0, b - a))

class State:
    def __init__(self):
        self.vars = {}; self.heap = {}; self.pc = []; self.trace = []; self.shield = 0
    def clone(self):
        s = State(); s.vars = dict(self.vars); s.heap = dict(self.heap); s.pc = list(self.pc)
        s.trace = list(self.trace); s.shield = self.shield; return s

class VC:
    def __init__(self, label, st, goal): self.label, self.st, self.goal = label, st, goal

vcs = []
def oblige(label, st, goal): vcs.append(VC(label, st.clone(), goal))

# ---- C17: UpgradeStream.read ------------------------------------------------
def run_read():
    fn = find("AsyncHTTP11UpgradeStream", "read")
    st = State()
    lead0 = z3.Const("leading0", Bytes); future = z3.Const("net_future", Bytes)
    maxb = z3.Int("max_bytes")
    st.heap["_leading_data"] = lead0
    st.vars["max_bytes"] = maxb
    st.pc.append(maxb >= 1)
    # contract of underlying stream.read(n): returns r, prefix of future, len<=n ; future' = rest
    outs = []
    def ev(e, st):
        if isinstance(e, ast.Attribute) and isinstance(e.value, ast.Name) and e.value.id == "self":
            return st.heap[e.attr]
        if isinstance(e, ast.Name): return st.vars[e.id]
        if isinstance(e, ast.Constant) and isinstance(e.value, int): return z3.IntVal(e.value)
        if isinstance(e, ast.BinOp) and isinstance(e.op, ast.Add): return ev(e.left, st) + ev(e.right, st)
        if isinstance(e, ast.Subscript) and isinstance(e.slice, ast.Slice):
            lo = ev(e.slice.lower, st) if e.slice.lower else None
            hi = ev(e.slice.upper, st) if e.slice.upper else None
            return py_slice(ev(e.value, st), lo, hi)
        if isinstance(e, ast.Await):
            c = e.value  # self._stream.read(max_bytes, timeout)
            assert ast.unparse(c.func) == "self._stream.read"
            r = fv("r", Bytes); rest = fv("rest", Bytes)
            st.pc += [st.heap["net"] == z3.Concat(r, rest), z3.Length(r) <= ev(c.args[0], st)]
            st.heap["net"] = rest
            return r
        raise NotImplementedError(ast.dump(e))
    st.heap["net"] = future
    def truthy(v): return z3.Length(v) > 0
    def ex(stmts, st):
        for s in stmts:
            if isinstance(s, ast.If):
                c = truthy(ev(s.test, st))
                a = st.clone(); a.pc.append(c); ex_all.append((s.body, a))
                b = st.clone(); b.pc.append(z3.Not(c)); ex_all.append((s.orelse, b))
                return
            if isinstance(s, ast.Assign):
                t = s.targets[0]; v = ev(s.value, st)
                if isinstance(t, ast.Attribute): st.heap[t.attr] = v
                else: st.vars[t.id] = v
            elif isinstance(s, ast.Return):
                outs.append((st, ev(s.value, st))); return
            else: raise NotImplementedError(ast.dump(s))
    ex_all = [(fn.body, st)]
    while ex_all:
        body, s = ex_all.pop(); ex(body, s)
    # postcondition (from C17): result ++ (leading' ++ net') == leading0 ++ future  and len(result) <= max_bytes
    for s, res in outs:
        oblige("C17:http11.UpgradeStream.read:post.no_loss", s,
               z3.Concat(res, s.heap["_leading_data"], s.heap["net"]) == z3.Concat(lead0, future))
        oblige("C17:http11.UpgradeStream.read:post.max_bytes", s, z3.Length(res) <= maxb)
        oblige("C17:http11.UpgradeStream.read:post.leading_first", s,
               z3.Implies(z3.Length(lead0) > 0, z3.And(z3.PrefixOf(res, lead0), z3.Length(res) >= 1, s.heap["net"] == future)))

# ---- C01/C05: _response_closed ----------------------------------------------
NEW, ACTIVE, IDLE, CLOSED = 0, 1, 2, 3
H_IDLE, H_SEND, H_DONE, H_OTHER = 0, 1, 2, 3
def run_response_closed():
    fn = find("AsyncHTTP11Connection", "_response_closed")
    st = State()
    for f, srt in [("_state", z3.IntSort()), ("our", z3.IntSort()), ("their", z3.IntSort()), ("stream_open", z3.BoolSort()),
                   ("_expire_at_none", z3.BoolSort()), ("_expire_at", z3.RealSort()), ("_keepalive_expiry_none", z3.BoolSort()), ("_keepalive_expiry", z3.RealSort())]:
        st.heap[f] = z3.Const(f + "0", srt)
    init = dict(st.heap)
    outcomes = []  # (state, kind) kind in normal / raise:<cls>
    def cond(e, st):
        # the if-test in the real code, by unparse-pattern (spike only; real engine translates generally)
        src = ast.unparse(e)
        if src == "self._h11_state.our_state is h11.DONE and self._h11_state.their_state is h11.DONE":
            return z3.And(st.heap["our"] == H_DONE, st.heap["their"] == H_DONE)
        if src == "self._keepalive_expiry is not None": return z3.Not(st.heap["_keepalive_expiry_none"])
        raise NotImplementedError(src)
    def ex(stmts, st, k):
        if not stmts: return k(st)
        s, rest = stmts[0], stmts[1:]
        if isinstance(s, ast.AsyncWith):
            assert ast.unparse(s.items[0].context_expr) == "self._state_lock"
            # lock acquire = await: may raise Cancelled when not shielded (scope-cancel model)
            c = st.clone(); c.trace.append("Cancelled@state_lock.acquire"); outcomes.append((c, "raise:Cancelled"))
            st.trace.append("lock")
            return ex(s.body, st, lambda st2: (st2.trace.append("unlock"), ex(rest, st2, k))[1])
        if isinstance(s, ast.If):
            c = cond(s.test, st)
            a = st.clone(); a.pc.append(c); ex(s.body + rest, a, k)
            b = st.clone(); b.pc.append(z3.Not(c)); ex(s.orelse + rest, b, k)
            return
        if isinstance(s, ast.Assign):
            tgt = ast.unparse(s.targets[0]); val = ast.unparse(s.value)
            if tgt == "self._state" and val == "HTTPConnectionState.IDLE": st.heap["_state"] = z3.IntVal(IDLE)
            elif tgt == "now" and val == "time.monotonic()": st.vars["now"] = fv("now", z3.RealSort())
            elif tgt == "self._expire_at" and val == "now + self._keepalive_expiry":
                st.heap["_expire_at"] = st.vars["now"] + st.heap["_keepalive_expiry"]; st.heap["_expire_at_none"] = z3.BoolVal(False)
            else: raise NotImplementedError((tgt, val))
            return ex(rest, st, k)
        if isinstance(s, ast.Expr):
            src = ast.unparse(s.value)
            if src == "self._h11_state.start_next_cycle()":
                # assumed h11 contract: requires both DONE (else h11.LocalProtocolError); ensures both IDLE
                oblige("C15:http11._response_closed:call[start_next_cycle].pre.both_done", st,
                       z3.And(st.heap["our"] == H_DONE, st.heap["their"] == H_DONE))
                st.heap["our"] = z3.IntVal(H_IDLE); st.heap["their"] = z3.IntVal(H_IDLE)
                return ex(rest, st, k)
            if src == "await self.aclose()":
                # contract of self.aclose (verified separately): state'=CLOSED, stream closed; may raise Cancelled if unshielded
                c = st.clone(); c.heap["_state"] = z3.IntVal(CLOSED); c.trace.append("Cancelled@aclose"); outcomes.append((c, "raise:Cancelled"))
                st.heap["_state"] = z3.IntVal(CLOSED); st.heap["stream_open"] = z3.BoolVal(False)
                return ex(rest, st, k)
            raise NotImplementedError(src)
        raise NotImplementedError(ast.dump(s))
    ex(fn.body, st, lambda s: outcomes.append((s, "normal")))
    for s, kind in outcomes:
        if kind == "normal":
            both = z3.And(init["our"] == H_DONE, init["their"] == H_DONE)
            oblige("C01:http11._response_closed:post.idle_iff_both_done", s, (s.heap["_state"] == IDLE) == both)
            oblige("C01:http11._response_closed:post.else_closed", s, z3.Implies(z3.Not(both), z3.And(s.heap["_state"] == CLOSED, z3.Not(s.heap["stream_open"]))))
            oblige("C01:http11._response_closed:post.idle_means_fresh_cycle", s, z3.Implies(s.heap["_state"] == IDLE, z3.And(s.heap["our"] == H_IDLE, s.heap["their"] == H_IDLE)))
            oblige("C09:http11._response_closed:post.expiry_armed", s, z3.Implies(z3.And(s.heap["_state"] == IDLE, z3.Not(init["_keepalive_expiry_none"])), z3.Not(s.heap["_expire_at_none"])))
        else:
            # exceptional post under "called inside shield": unreachable -> must be proved from shield precondition; here we just record
            oblige(f"C05:http11._response_closed:exc.not_left_active[{s.trace[-1]}]", s, z3.Or(s.heap["_state"] == IDLE, s.heap["_state"] == CLOSED))

def discharge():
    ok = bad = 0
    for vc in vcs:
        sv = z3.Solver(); sv.set("timeout", 10000)
        sv.add(*vc.st.pc); sv.add(z3.Not(vc.goal))
        t = time.time(); r = sv.check(); dt = time.time() - t
        if r == z3.unsat: ok += 1; print(f"  discharged {vc.label}  [{dt*1000:.0f} ms]")
        else:
            bad += 1; print(f"  FAILED({r}) {vc.label}  [{dt*1000:.0f} ms]")
            if r == z3.sat:
                m = sv.model(); print("     counterexample:", {str(d): m[d] for d in m.decls() if "!" not in str(d)})
    print(f"{ok} discharged, {bad} failed, of {len(vcs)}")

run_read(); run_response_closed(); discharge()
