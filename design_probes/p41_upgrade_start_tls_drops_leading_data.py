import sys, os

sys.path.insert(0, os.getcwd())

# Pre-existing (UNCHANGED library): AsyncHTTP11UpgradeStream.start_tls() /
# HTTP11UpgradeStream.start_tls() delegate to the underlying stream and return
# ITS TLS stream, so any bytes that arrived in the same segment as the
# "200 Connection established" head (held in _leading_data) are silently dropped
# instead of being fed to the TLS layer.  AsyncTunnelHTTPConnection takes exactly
# this path for https/wss origins.  (A well-behaved TLS server does not speak
# before the ClientHello, so this needs a proxy/server that sends early bytes.)
import anyio
import httpcore


class Stream(httpcore.AsyncNetworkStream):
    def __init__(self, chunks):
        self.chunks = list(chunks)

    async def read(self, max_bytes, timeout=None):
        return self.chunks.pop(0) if self.chunks else b""

    async def write(self, buffer, timeout=None):
        pass

    async def aclose(self):
        pass

    async def start_tls(self, ssl_context, server_hostname=None, timeout=None):
        return self  # "TLS" layer that is transparent, so we can see what it is fed

    def get_extra_info(self, info):
        return None


async def main():
    raw = Stream([b"HTTP/1.1 200 OK\r\n\r\nEARLY", b"LATER"])
    origin = httpcore.Origin(b"http", b"proxy", 3128)
    async with httpcore.AsyncHTTP11Connection(origin=origin, stream=raw) as conn:
        url = httpcore.URL(scheme=b"http", host=b"proxy", port=3128, target=b"example.com:443")
        async with conn.stream("CONNECT", url, headers={"Host": "example.com:443"}) as response:
            handed = response.extensions["network_stream"]
            tls = await handed.start_tls(None, "example.com")
            first = await tls.read(1024)
            print("first bytes seen above start_tls():", first, "(b'EARLY' was dropped)" if first != b"EARLY" else "")
            return 0 if first == b"EARLY" else 1


sys.exit(anyio.run(main))
