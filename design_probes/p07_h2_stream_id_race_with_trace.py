import anyio, httpcore, hpack, hyperframe.frame as hf
from h2.settings import SettingCodes
class S(httpcore.AsyncMockStream):
    async def read(self, max_bytes, timeout=None):
        await anyio.sleep(0.001)
        if not self._buffer:
            await anyio.sleep(999)
        return self._buffer.pop(0)
async def trace(name, info):
    await anyio.sleep(0)
async def main():
    enc = hpack.Encoder()
    def resp(sid, body):
        return hf.HeadersFrame(stream_id=sid, data=enc.encode([(b":status", b"200")]), flags=["END_HEADERS"]).serialize() + hf.DataFrame(stream_id=sid, data=body, flags=["END_STREAM"]).serialize()
    frames = [hf.SettingsFrame(settings={SettingCodes.MAX_CONCURRENT_STREAMS: 10}).serialize(),
              resp(1, b"one"), resp(3, b"three"), resp(5, b"five")]
    origin = httpcore.Origin(b"https", b"example.com", 443)
    conn = httpcore.AsyncHTTP2Connection(origin=origin, stream=S(frames, http2=True))
    # warm-up request so that max_streams is raised to 10
    r = await conn.request("GET", "https://example.com/0", extensions={"trace": trace}); print("warm", r.status, r.content, r.extensions["stream_id"])
    out = []
    async def req(i):
        try:
            r = await conn.request("GET", f"https://example.com/{i}", extensions={"trace": trace}); out.append((i, r.status, r.content, r.extensions["stream_id"]))
        except BaseException as e:
            out.append((i, type(e).__name__, str(e)))
    with anyio.move_on_after(2) as sc:
        async with anyio.create_task_group() as tg:
            for i in range(1,3): tg.start_soon(req, i)
    print(out, "timeout:", sc.cancelled_caught)
anyio.run(main)
