"""
Possible PRE-EXISTING violation of C10 in the unchanged library
("ALPN offering h2 only when HTTP/2 is enabled; HTTP/2 is spoken only when
negotiated or when HTTP/1.1 is disabled").

The ALPN list is not passed to start_tls(): every connection class calls
`ssl_context.set_alpn_protocols(...)` on the (possibly user supplied, possibly
shared) SSLContext and only afterwards - after an `await` on the trace hook in
the async case, or simply later in another thread in the sync case - performs
the handshake with that context.  When one SSLContext is shared by an
HTTP/1.1-only pool and an HTTP/2-enabled pool (a common thing to do: building
a context loads the CA bundle and is slow), a handshake of the HTTP/1.1-only
pool can go out offering "h2"; if the server picks it, the pool that has
http2=False speaks HTTP/2.

Deterministic interleaving: pool A (http2=False) has an async trace callback
which, at "connection.start_tls.started" (i.e. after A has set its ALPN list),
lets a request on pool B (http2=True) run to completion.

Prints what was offered / spoken.  Exits 1 if the violation is observed.
"""

import sys, os

sys.path.insert(0, os.getcwd())

import ssl
import typing

import anyio

import httpcore
from httpcore._backends.base import AsyncNetworkBackend, AsyncNetworkStream


class RecordingContext(ssl.SSLContext):
    """An SSLContext that remembers the ALPN list it currently offers."""

    def __new__(cls, *args, **kwargs):
        self = super().__new__(cls, ssl.PROTOCOL_TLS_CLIENT)
        self.offered: typing.List[str] = []
        return self

    def set_alpn_protocols(self, protocols):
        self.offered = list(protocols)
        super().set_alpn_protocols(protocols)


class SSLObject:
    def __init__(self, selected: str) -> None:
        self._selected = selected

    def selected_alpn_protocol(self) -> str:
        return self._selected


class Stream(AsyncNetworkStream):
    def __init__(self, label: str, log: list) -> None:
        self.label = label
        self.log = log
        self.ssl_object = None
        self.replies: list = []

    async def write(self, buffer: bytes, timeout=None) -> None:
        if buffer:
            self.log.append((self.label, "write", bytes(buffer[:24])))
        if b"\r\n\r\n" in buffer and not buffer.startswith(b"PRI"):
            self.replies.append(b"HTTP/1.1 200 OK\r\nContent-Length: 0\r\n\r\n")

    async def read(self, max_bytes: int, timeout=None) -> bytes:
        return self.replies.pop(0) if self.replies else b""

    async def aclose(self) -> None:
        pass

    async def start_tls(self, ssl_context, server_hostname=None, timeout=None):
        # What a real handshake would put in the ClientHello *now*.
        offered = list(ssl_context.offered)
        # The server supports both and prefers h2, like most servers do.
        selected = "h2" if "h2" in offered else "http/1.1"
        self.log.append((self.label, "handshake", tuple(offered), selected))
        self.ssl_object = SSLObject(selected)
        return self

    def get_extra_info(self, info: str):
        if info == "ssl_object":
            return self.ssl_object
        if info == "is_readable":
            return False
        return None


class Backend(AsyncNetworkBackend):
    def __init__(self, label: str, log: list) -> None:
        self.label = label
        self.log = log

    async def connect_tcp(self, host, port, timeout=None, local_address=None, socket_options=None):
        return Stream(self.label, self.log)

    async def connect_unix_socket(self, path, timeout=None, socket_options=None):
        raise NotImplementedError()

    async def sleep(self, seconds: float) -> None:
        pass


async def main() -> int:
    log: list = []
    ctx = RecordingContext()
    a_at_tls = anyio.Event()
    b_done = anyio.Event()

    pool_a = httpcore.AsyncConnectionPool(
        ssl_context=ctx, http2=False, network_backend=Backend("A(http2=False)", log)
    )
    pool_b = httpcore.AsyncConnectionPool(
        ssl_context=ctx, http2=True, network_backend=Backend("B(http2=True)", log)
    )

    async def trace_a(name, info):
        if name == "connection.start_tls.started":
            a_at_tls.set()
            await b_done.wait()

    async def run_a():
        try:
            await pool_a.request(
                "GET", "https://a.example.com/", extensions={"trace": trace_a}
            )
        except Exception as exc:
            log.append(("A(http2=False)", "error", type(exc).__name__))

    async def run_b():
        await a_at_tls.wait()
        try:
            await pool_b.request("GET", "https://b.example.com/")
        except Exception as exc:  # our fake server does not speak h2 frames
            log.append(("B(http2=True)", "error", type(exc).__name__))
        b_done.set()

    async with anyio.create_task_group() as tg:
        tg.start_soon(run_a)
        tg.start_soon(run_b)

    for entry in log:
        print("  ", entry)

    bad_offer = [
        e for e in log if e[0].startswith("A") and e[1] == "handshake" and "h2" in e[2]
    ]
    bad_speak = [
        e for e in log if e[0].startswith("A") and e[1] == "write" and e[2].startswith(b"PRI * HTTP/2.0")
    ]
    if bad_offer or bad_speak:
        print("VIOLATION (unchanged library):")
        if bad_offer:
            print("  - pool with http2=False offered ALPN", bad_offer[0][2])
        if bad_speak:
            print("  - pool with http2=False sent the HTTP/2 connection preface")
        return 1
    print("no violation observed")
    return 0


if __name__ == "__main__":
    sys.exit(anyio.run(main))
