import sys, os; sys.path.insert(0, os.getcwd())
"""
PRE-EXISTING (unchanged library): a SETTINGS frame that LOWERS MAX_CONCURRENT_STREAMS
below the number of streams currently open wedges every stream on the connection.

`_receive_remote_settings_change()` runs inside `_receive_events()` with the read lock
held and blocks in `self._max_streams_semaphore.acquire()` until some stream ends - but
no stream can end, because ending needs the read lock (and the frames that follow the
SETTINGS frame in the very same read are not dispatched until the acquire returns).

Prints WEDGED (exit 1) if the two responses do not complete, OK (exit 0) otherwise.
"""
import anyio
import h2.config, h2.connection, h2.events, h2.settings
import httpcore

MCS = h2.settings.SettingCodes.MAX_CONCURRENT_STREAMS


class ServerStream(httpcore.AsyncNetworkStream):
    def __init__(self):
        self.h2 = h2.connection.H2Connection(
            config=h2.config.H2Configuration(client_side=False, header_encoding=None))
        self.h2.local_settings = h2.settings.Settings(client=False, initial_values={MCS: 100})
        self.h2.initiate_connection()
        self.outbox = bytearray(self.h2.data_to_send())
        self.readable = anyio.Event()
        self.requests = []

    async def write(self, buffer, timeout=None):
        for ev in self.h2.receive_data(buffer):
            if isinstance(ev, h2.events.RequestReceived):
                self.requests.append(ev.stream_id)
                if ev.stream_id == 1:
                    # stream 1: headers now, body later
                    self.h2.send_headers(1, [(b":status", b"200")])
                if ev.stream_id == 3:
                    # two streams are open: lower the limit to 1, then finish both
                    self.h2.update_settings({MCS: 1})
                    self.h2.send_data(1, b"one", end_stream=True)
                    self.h2.send_headers(3, [(b":status", b"200")])
                    self.h2.send_data(3, b"three", end_stream=True)
        data = self.h2.data_to_send()
        if data:
            self.outbox += data
            self.readable.set()

    async def read(self, max_bytes, timeout=None):
        while not self.outbox:
            await self.readable.wait()
            self.readable = anyio.Event()
        chunk = bytes(self.outbox[:max_bytes]); del self.outbox[:max_bytes]
        return chunk

    async def aclose(self): pass
    def get_extra_info(self, info): return None


async def main():
    server = ServerStream()
    conn = httpcore.AsyncHTTP2Connection(
        origin=httpcore.Origin(b"https", b"example.com", 443), stream=server)
    out = {}
    got1 = anyio.Event()

    async def a():
        async with conn.stream("GET", "https://example.com/1") as r:
            # first read also delivers the server's SETTINGS (limit 100)
            got1.set()
            out[1] = b"".join([c async for c in r.aiter_stream()])

    async def b():
        await got1.wait()
        out[3] = (await conn.request("GET", "https://example.com/3")).content

    with anyio.move_on_after(3) as scope:
        async with anyio.create_task_group() as tg:
            tg.start_soon(a); tg.start_soon(b)
    if scope.cancelled_caught or out != {1: b"one", 3: b"three"}:
        print("WEDGED: after SETTINGS lowered the limit 100 -> 1 with two streams open, "
              f"completed bodies: {out}")
        return 1
    print("OK", out)
    return 0

sys.exit(anyio.run(main))
