"""
Pre-existing (UNCHANGED library): a request that the pool re-transmits after an
HTTP/2 GOAWAY is sent with an EMPTY body the second time, when the caller gave the
body as a one-shot iterator.

Sequence:
  * HTTP/2 connection #1 accepts the request (HEADERS + DATA "hello world" +
    END_STREAM), then the server answers with GOAWAY(last_stream_id=0), i.e. "I have
    not processed stream 1, retry elsewhere".
  * httpcore raises ConnectionNotAvailable internally and the pool sends the same
    Request object on connection #2. `request.stream` is the caller's generator and
    has already been exhausted by attempt #1, so attempt #2 carries no
    DATA bytes at all: the server sees a well-formed POST with an empty body and
    answers 200, the caller is told nothing. (With an explicit Content-Length header
    the second attempt is malformed instead: content-length 11, zero bytes.)

Prints what each transmission attempt looked like to an independent h2 server.
Exit status 1 when an attempt is not faithful.
"""

import sys, os

sys.path.insert(0, os.getcwd())

import typing

import h2.config
import h2.connection
import h2.events

import httpcore

BODY = [b"hello ", b"world"]


class H2Server(httpcore.NetworkStream):
    def __init__(self, index: int, attempts: list) -> None:
        self._index = index
        self._attempts = attempts
        self._conn = h2.connection.H2Connection(
            config=h2.config.H2Configuration(
                client_side=False, validate_inbound_headers=False
            )
        )
        self._conn.initiate_connection()
        self._out = self._conn.data_to_send()
        self._bodies: typing.Dict[int, bytes] = {}
        self._heads: typing.Dict[int, list] = {}

    def write(self, buffer: bytes, timeout=None) -> None:
        try:
            events = self._conn.receive_data(buffer)
        except Exception as exc:  # a malformed request, as seen by the server
            self._attempts.append((self._index, "server-side error", repr(exc)))
            self._out += self._conn.data_to_send()
            return
        for event in events:
            if isinstance(event, h2.events.RequestReceived):
                self._heads[event.stream_id] = event.headers
                self._bodies[event.stream_id] = b""
            elif isinstance(event, h2.events.DataReceived):
                self._bodies[event.stream_id] += event.data
                self._conn.acknowledge_received_data(
                    event.flow_controlled_length, event.stream_id
                )
            elif isinstance(event, h2.events.StreamEnded):
                sid = event.stream_id
                self._attempts.append((self._index, self._heads[sid], self._bodies[sid]))
                if self._index == 0:
                    # Refuse: nothing has been processed, go elsewhere.
                    self._conn.close_connection(last_stream_id=0)
                else:
                    self._conn.send_headers(sid, [(b":status", b"200")], end_stream=True)
        self._out += self._conn.data_to_send()

    def read(self, max_bytes: int, timeout=None) -> bytes:
        data, self._out = self._out[:max_bytes], self._out[max_bytes:]
        return data

    def close(self) -> None:
        pass

    def get_extra_info(self, info: str) -> typing.Any:
        return False if info == "is_readable" else None


class Backend(httpcore.NetworkBackend):
    def __init__(self) -> None:
        self.attempts: list = []
        self.connections = 0

    def connect_tcp(self, host, port, timeout=None, local_address=None, socket_options=None):
        stream = H2Server(self.connections, self.attempts)
        self.connections += 1
        return stream


def main() -> int:
    backend = Backend()
    outcome = None
    with httpcore.ConnectionPool(network_backend=backend, http1=False, http2=True) as pool:
        try:
            response = pool.request(
                "POST",
                "http://example.com/upload",
                content=iter(BODY),
            )
            outcome = f"response {response.status}"
        except Exception as exc:
            outcome = f"{type(exc).__name__}: {exc}"

    print("outcome for the caller:", outcome)
    bad = 0
    for attempt in backend.attempts:
        print("attempt on connection", attempt[0], "->", attempt[1:])
        if attempt[-1] != b"".join(BODY):
            bad += 1
    if bad:
        print(f"NOT FAITHFUL: {bad} transmission attempt(s) without the caller's body")
        return 1
    print("all attempts faithful")
    return 0


if __name__ == "__main__":
    sys.exit(main())
