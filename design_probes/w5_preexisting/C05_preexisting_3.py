"""
Pre-existing (unchanged library), plain asyncio only: AsyncShieldCancellation is an
anyio CancelScope(shield=True), which does not shield from a native
asyncio Task.cancel().  If the task that closes a response is cancelled natively
while it is suspended inside the (supposedly shielded) clean-up - the first
suspension point is the acquisition of the HTTP/1.1 connection's state lock in
_response_closed() - the clean-up is abandoned half-way: the response streams are
marked closed (so closing again is a no-op), but the connection stays ACTIVE for
ever and the pool keeps counting the request.
"""
import sys, os
sys.path.insert(0, os.getcwd())
import asyncio
import httpcore

RESP = [b"HTTP/1.1 200 OK\r\n", b"Content-Length: 2\r\n", b"\r\n", b"ok"]


async def main():
    pool = httpcore.AsyncConnectionPool(network_backend=httpcore.AsyncMockBackend(RESP), max_connections=1)
    closing = asyncio.Event()

    async def user():
        async with pool.stream("GET", "http://a.example/") as response:
            await response.aread()
            closing.set()
        # leaving the block closes the response

    task = asyncio.ensure_future(user())
    await closing.wait()   # we run again at the first suspension point of the close
    task.cancel()
    try:
        await task
    except asyncio.CancelledError:
        pass
    print("after:", pool, pool.connections)
    try:
        await pool.request("GET", "http://b.example/", extensions={"timeout": {"pool": 0.5}})
    except httpcore.PoolTimeout:
        print("FAIL: PoolTimeout; stuck:", pool, pool.connections)
        sys.exit(1)
    print("PASS")

asyncio.run(main())
