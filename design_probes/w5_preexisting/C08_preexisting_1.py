import sys, os; sys.path.insert(0, os.getcwd())

"""
PRE-EXISTING (unchanged library): on a shared HTTP/2 connection, the sync
`HTTP2Connection.handle_request` picks the stream id

    stream_id = self._h2_state.get_next_available_stream_id()
    self._events[stream_id] = []

and only later, in `_send_request_headers`, calls `h2_state.send_headers(stream_id, ...)`,
which is what makes h2 advance "next available stream id".  Nothing makes the two
steps atomic between threads (in the async flavour there is no await in between, so
it is atomic there).  Two threads that get past the stream semaphore together are
handed the SAME stream id: one of them fails with an h2 ProtocolError surfaced as
LocalProtocolError (and they share one `_events[stream_id]` list).

The interleaving is forced with a barrier inside get_next_available_stream_id().
Exit status 1 + "VIOLATION REPRODUCED" when the defect shows, 0 otherwise.
"""
import queue
import threading
import traceback

import h2.config
import h2.connection
import h2.events

import httpcore

URL = "http://example.com/"


class H2ServerStream(httpcore.NetworkStream):
    """A well-behaved in-memory HTTP/2 server (prior knowledge, no TLS)."""

    def __init__(self):
        self._server = h2.connection.H2Connection(
            config=h2.config.H2Configuration(client_side=False)
        )
        self._server.initiate_connection()
        self._lock = threading.Lock()
        self._outgoing = queue.Queue()
        self._flush()
        self._closed = False

    def _flush(self):
        data = self._server.data_to_send()
        if data:
            self._outgoing.put(data)

    def write(self, buffer, timeout=None):
        with self._lock:
            for event in self._server.receive_data(buffer):
                if isinstance(event, h2.events.StreamEnded):
                    sid = event.stream_id
                    body = b"stream-%d" % sid
                    self._server.send_headers(
                        sid, [(":status", "200"), ("content-length", str(len(body)))]
                    )
                    self._server.send_data(sid, body, end_stream=True)
            self._flush()

    def read(self, max_bytes, timeout=None):
        if self._closed:
            raise httpcore.ReadError("closed")
        try:
            return self._outgoing.get(timeout=5.0 if timeout is None else timeout)
        except queue.Empty:
            raise httpcore.ReadTimeout("no data") from None

    def close(self):
        self._closed = True

    def get_extra_info(self, info):
        return None


class Backend(httpcore.NetworkBackend):
    def connect_tcp(
        self, host, port, timeout=None, local_address=None, socket_options=None
    ):
        return H2ServerStream()


def main():
    pool = httpcore.ConnectionPool(
        http1=False, http2=True, max_connections=1, network_backend=Backend()
    )
    # Warm-up: the connection is established and the server's SETTINGS
    # (MAX_CONCURRENT_STREAMS=100) have been received.
    r = pool.request("GET", URL)
    assert r.status == 200 and r.content == b"stream-1", (r.status, r.content)

    (conn,) = pool.connections
    h2_state = conn._connection._h2_state
    real = h2_state.get_next_available_stream_id
    barrier = threading.Barrier(2)

    def get_next_available_stream_id():
        sid = real()
        try:
            barrier.wait(5)  # both threads have read the id; neither has used it
        except threading.BrokenBarrierError:
            pass
        return sid

    h2_state.get_next_available_stream_id = get_next_available_stream_id

    problems = []

    def worker(name):
        try:
            r = pool.request("GET", URL, extensions={"timeout": {"read": 5.0}})
            if r.status != 200 or not r.content.startswith(b"stream-"):
                problems.append(f"{name}: wrong response {r.status} {r.content!r}")
            else:
                print(f"{name}: ok {r.content!r}")
        except BaseException:
            problems.append(f"{name}: failed:\n{traceback.format_exc(limit=3)}")

    threads = [threading.Thread(target=worker, args=(n,), daemon=True) for n in "AB"]
    for t in threads:
        t.start()
    for t in threads:
        t.join(30)
        if t.is_alive():
            problems.append(f"{t.name}: still blocked after 30s")

    if problems:
        print("VIOLATION REPRODUCED on the unchanged library:")
        for p in problems:
            print(" -", p)
        sys.exit(1)
    print("not reproduced")


if __name__ == "__main__":
    main()
