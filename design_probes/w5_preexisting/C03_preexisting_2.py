"""
Pre-existing (UNCHANGED library): an HTTP/2 request that is rightly rejected with
LocalProtocolError (its head cannot legally be encoded; nothing of it is written)
nevertheless corrupts the encoding of the NEXT requests on that connection.

h2 validates outbound headers lazily, while the HPACK encoder is already consuming
them: the header fields in front of the illegal one ("x-first", "x-second" below,
the illegal one is "te: gzip") have been entered into the encoder's dynamic table
when the validation error is raised. The server never receives that header block, so
its decoder table is now out of step: the following, perfectly legal request is
written with indexes the server cannot resolve ("Invalid table index"), or - when the
index happens to exist - would resolve to the wrong header fields.

Exit status 1 when a legal request did not decode faithfully on the server side.
"""
import sys, os
sys.path.insert(0, os.getcwd())
import typing
import h2.config, h2.connection, h2.events
import httpcore

class H2Server(httpcore.NetworkStream):
    def __init__(self, log):
        self._log = log
        self._conn = h2.connection.H2Connection(config=h2.config.H2Configuration(client_side=False, validate_inbound_headers=False))
        self._conn.initiate_connection()
        self._out = self._conn.data_to_send()
    def write(self, buffer, timeout=None):
        try:
            events = self._conn.receive_data(buffer)
        except Exception as exc:
            self._log.append(("server error", repr(exc)))
            self._out += self._conn.data_to_send()
            return
        for event in events:
            if isinstance(event, h2.events.RequestReceived):
                self._log.append(("request", event.headers))
                self._conn.send_headers(event.stream_id, [(b":status", b"200")], end_stream=True)
        self._out += self._conn.data_to_send()
    def read(self, max_bytes, timeout=None):
        data, self._out = self._out[:max_bytes], self._out[max_bytes:]
        return data
    def close(self): pass
    def get_extra_info(self, info): return False if info == "is_readable" else None

log = []
origin = httpcore.Origin(b"https", b"example.com", 443)
with httpcore.HTTP2Connection(origin=origin, stream=H2Server(log)) as conn:
    conn.request("GET", "https://example.com/one", headers={"x-a": "1"})
    try:
        conn.request("GET", "https://example.com/two", headers=[("x-first", "aaaa"), ("x-second", "bbbb"), ("te", "gzip")])
    except Exception as exc:
        print("second:", type(exc).__name__, exc)
    try:
        r = conn.request("GET", "https://example.com/three", headers=[("x-third", "cccc")])
        print("third:", r.status)
        r = conn.request("GET", "https://example.com/two", headers=[("x-first", "aaaa"), ("x-second", "bbbb")])
    except Exception as exc:
        print("third:", type(exc).__name__, exc)
for entry in log: print(entry)
decoded = [dict(entry[1]).get(b":path") for entry in log if entry[0] == "request"]
if b"/three" not in decoded:
    print("NOT FAITHFUL: the legal request GET /three was not decodable by the server")
    sys.exit(1)
