"""
Pre-existing (UNCHANGED library): an HTTP/2 server that lowers
SETTINGS_MAX_CONCURRENT_STREAMS below the number of streams that are currently
open (which RFC 9113 section 5.1.2 allows) deadlocks the connection, although it
answers every request.

AsyncHTTP2Connection._receive_remote_settings_change() shrinks the stream
semaphore by *acquiring* it, while the caller (_receive_events) holds the read
lock.  With N streams open the semaphore only has (old_max - N) free permits, so
the acquire blocks until a stream finishes - but no stream can finish, because
finishing needs the read lock.  Every request on the connection, and every
later one, is blocked for ever (read timeouts do not apply: nobody is reading).

Run with `--control` to see the same exchange complete when the server does not
change the setting.

Prints HANG (exit 1) if the two requests are still blocked after 5 s,
OK (exit 0) if they complete.
"""

import sys, os; sys.path.insert(0, os.getcwd())  # noqa: E702

import anyio
import h2.config
import h2.connection
import h2.events
import h2.settings

import httpcore

# `--control` runs the same exchange without the SETTINGS change (completes).
LOWER_LIMIT = "--control" not in sys.argv


class H2ServerStream(httpcore.AsyncNetworkStream):
    """An in-memory HTTP/2 server that answers every request."""

    def __init__(self) -> None:
        self._server = h2.connection.H2Connection(
            config=h2.config.H2Configuration(client_side=False)
        )
        self._server.initiate_connection()
        self._outgoing = bytearray(self._server.data_to_send())
        self._readable = anyio.Event()
        self._readable.set()
        self._open_streams = []
        self._lowered = False

    async def write(self, buffer, timeout=None):
        for event in self._server.receive_data(buffer):
            if isinstance(event, h2.events.RequestReceived):
                self._open_streams.append(event.stream_id)
        if len(self._open_streams) == 2 and not self._lowered:
            # Two streams are open: lower the limit to 1, then answer both.
            self._lowered = True
            if LOWER_LIMIT:
                self._server.update_settings(
                    {h2.settings.SettingCodes.MAX_CONCURRENT_STREAMS: 1}
                )
            for stream_id in self._open_streams:
                self._server.send_headers(stream_id, [(":status", "200")])
                self._server.send_data(stream_id, b"ok", end_stream=True)
        data = self._server.data_to_send()
        if data:
            self._outgoing += data
            self._readable.set()

    async def read(self, max_bytes, timeout=None):
        while not self._outgoing:
            self._readable = anyio.Event()
            await self._readable.wait()
        data = bytes(self._outgoing[:max_bytes])
        del self._outgoing[:max_bytes]
        return data

    async def aclose(self):
        pass

    def get_extra_info(self, info):
        return None


class Backend(httpcore.AsyncNetworkBackend):
    async def connect_tcp(self, host, port, timeout=None, local_address=None, socket_options=None):
        return H2ServerStream()


async def main():
    results = []
    async with httpcore.AsyncConnectionPool(
        http1=False, http2=True, network_backend=Backend()
    ) as pool:

        async def fetch():
            response = await pool.request(
                "GET", "http://example.com/", extensions={"timeout": {"read": 2.0, "pool": 2.0}}
            )
            results.append((response.status, response.content))

        with anyio.move_on_after(5) as scope:
            async with anyio.create_task_group() as tg:
                tg.start_soon(fetch)
                tg.start_soon(fetch)

        if scope.cancelled_caught:
            print(f"HANG: requests still blocked after 5s (completed: {results!r}); {pool!r}")
            return 1
    print(f"OK: {results!r}")
    return 0


if __name__ == "__main__":
    sys.exit(anyio.run(main))
