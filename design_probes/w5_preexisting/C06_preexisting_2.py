import sys, os; sys.path.insert(0, os.getcwd())  # noqa: E702

"""
Pre-existing (UNCHANGED library), borderline: the pool is closed while a request is
still *establishing* its connection (no response is outstanding yet). aclose() drops the
connection object, whose aclose() is a no-op because there is no stream yet; the
connect then completes, the request is served on a connection the pool no longer knows,
the response is read and closed - and the stream stays open for ever.

Prints LEAK (exit 1) if the unchanged library leaks, OK (exit 0) otherwise.
"""
import anyio

import httpcore


class Backend(httpcore.AsyncMockBackend):
    def __init__(self, buffer):
        super().__init__(buffer)
        self.connecting = anyio.Event()
        self.proceed = anyio.Event()
        self.streams = []

    async def connect_tcp(self, *args, **kwargs):
        self.connecting.set()
        await self.proceed.wait()
        stream = await super().connect_tcp(*args, **kwargs)
        self.streams.append(stream)
        return stream


async def main() -> int:
    backend = Backend([b"HTTP/1.1 200 OK\r\nContent-Length: 2\r\n\r\nok"])
    pool = httpcore.AsyncConnectionPool(network_backend=backend)
    result = {}

    async def request():
        response = await pool.request("GET", "http://example.com/")
        result["status"] = response.status

    async with anyio.create_task_group() as tg:
        tg.start_soon(request)
        await backend.connecting.wait()
        await pool.aclose()  # nothing to close yet: the stream does not exist
        backend.proceed.set()

    print("request result:", result, "| pool.connections:", pool.connections)
    open_streams = [s for s in backend.streams if not s._closed]
    if open_streams:
        print(f"LEAK (pre-existing): {len(open_streams)} stream(s) open, pool closed and empty")
        return 1
    print("OK")
    return 0


if __name__ == "__main__":
    sys.exit(anyio.run(main))
