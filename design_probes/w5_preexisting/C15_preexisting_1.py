"""
Pre-existing (UNCHANGED library): invalid input of the caller that comes out as a bare
AssertionError / ValueError / KeyError / UnicodeDecodeError instead of LocalProtocolError or
UnsupportedProtocol.  Prints what each call raises; no network is used (mock backends).
"""
import sys, os
sys.path.insert(0, os.getcwd())
import anyio, httpcore

RESP = [b"HTTP/1.1 200 OK\r\nContent-Length: 5\r\n\r\nhello"]

def show(label, f):
    try:
        print(label, "->", f())
    except BaseException as exc:
        print(label, "-> raised", type(exc).__module__ + "." + type(exc).__name__, repr(str(exc))[:100])

# 1. async pool given a sync iterator as request body
async def a1():
    async with httpcore.AsyncConnectionPool(network_backend=httpcore.AsyncMockBackend(RESP)) as pool:
        r = await pool.request("POST", "http://example.com/", content=iter([b"abc"]))
        return r.status
show("async pool + sync iterator body", lambda: anyio.run(a1))

# 1b. sync pool given a str body
def s1():
    with httpcore.ConnectionPool(network_backend=httpcore.MockBackend(RESP)) as pool:
        return pool.request("POST", "http://example.com/", content="abc").status
show("sync pool + str body", s1)

# 2. URL with a bad port
def s2(url):
    with httpcore.ConnectionPool(network_backend=httpcore.MockBackend(RESP)) as pool:
        return pool.request("GET", url).status
show("port out of range", lambda: s2("http://example.com:99999/"))
show("port not numeric", lambda: s2("http://example.com:abc/"))
show("bad ipv6", lambda: s2("http://[::1/"))

# 3. proxy with unknown scheme
def s3():
    with httpcore.ConnectionPool(proxy=httpcore.Proxy("socks4://127.0.0.1:1080"), network_backend=httpcore.MockBackend(RESP)) as pool:
        return pool.request("GET", "https://example.com/").status
show("proxy socks4://", s3)
def s4():
    with httpcore.HTTPProxy("ftp://127.0.0.1:1080", network_backend=httpcore.MockBackend(RESP)) as pool:
        return pool.request("GET", "http://example.com/").status
show("HTTPProxy ftp://", s4)
# 4. non-ascii host bytes
show("non-ascii host", lambda: s2(b"http://ex\xc3\xa4mple.com/"))
# 5. header value with newline
def s5():
    with httpcore.ConnectionPool(network_backend=httpcore.MockBackend(RESP)) as pool:
        return pool.request("GET", "http://example.com/", headers={"X": "a\nb"}).status
show("header newline", s5)
# 6. direct connection + unsupported scheme
def s6():
    with httpcore.HTTPConnection(origin=httpcore.Origin(b"http", b"example.com", 80), network_backend=httpcore.MockBackend(RESP)) as c:
        return c.request("GET", "ftp://example.com/").status
show("HTTPConnection ftp://", s6)
