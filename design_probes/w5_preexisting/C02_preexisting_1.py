"""
Pre-existing (UNCHANGED library): over HTTP/2, repeated `cookie` header fields in
a response are not reported as sent.  h2's default `normalize_inbound_headers=True`
(httpcore only switches off `validate_inbound_headers`) joins all `cookie` fields
into a single one with "; " and moves it to the end of the header list, so both
"duplicates" and "order" of the headers are changed.  (`cookie` is a request
header, so a server sending it in a response is unusual - minor.)

Prints what was sent and what is reported; exits 1 when they differ.
"""
import sys, os

sys.path.insert(0, os.getcwd())

import hpack
import hyperframe.frame

import httpcore

sent = [
    (b"cookie", b"a=1"),
    (b"x-first", b"1"),
    (b"cookie", b"b=2"),
    (b"x-last", b"2"),
]
buffer = [
    hyperframe.frame.SettingsFrame().serialize(),
    hyperframe.frame.HeadersFrame(
        stream_id=1,
        data=hpack.Encoder().encode([(b":status", b"200")] + sent),
        flags=["END_HEADERS"],
    ).serialize(),
    hyperframe.frame.DataFrame(stream_id=1, data=b"ok", flags=["END_STREAM"]).serialize(),
]
origin = httpcore.Origin(b"https", b"example.com", 443)
with httpcore.HTTP2Connection(origin=origin, stream=httpcore.MockStream(buffer)) as conn:
    response = conn.request("GET", "https://example.com/")
print("sent    :", sent)
print("reported:", response.headers)
sys.exit(0 if response.headers == sent else 1)
