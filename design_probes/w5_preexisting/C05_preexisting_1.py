"""
Pre-existing (unchanged library): an HTTP/2 request that is cancelled while the
connection preface is being set up (cancellation *requested* while the preface
is written, *delivered* at the next checkpoint, which is the first
`_max_streams_semaphore.acquire()` in AsyncHTTP2Connection.handle_async_request)
leaves the connection ACTIVE with no stream: it is not idle, never expires, is
not closed, so with max_connections=1 a request for another origin blocks for ever.
"""
import sys, os
sys.path.insert(0, os.getcwd())
import anyio
import httpcore


class Stream(httpcore.AsyncNetworkStream):
    def __init__(self, owner):
        self.owner = owner
        self.closed = False

    async def write(self, buffer, timeout=None):
        # The write itself completes, but the caller's scope is cancelled meanwhile.
        if self.owner.scope is not None:
            self.owner.scope.cancel()
            self.owner.scope = None

    async def read(self, max_bytes, timeout=None):
        await anyio.sleep_forever()

    async def aclose(self):
        self.closed = True

    async def start_tls(self, ssl_context, server_hostname=None, timeout=None):
        return self

    def get_extra_info(self, info):
        return httpcore._backends.mock.MockSSLObject(http2=True) if info == "ssl_object" else None


class Backend(httpcore.AsyncNetworkBackend):
    def __init__(self):
        self.scope = None

    async def connect_tcp(self, host, port, timeout=None, local_address=None, socket_options=None):
        return Stream(self)


async def main():
    backend = Backend()
    pool = httpcore.AsyncConnectionPool(network_backend=backend, http2=True, max_connections=1, keepalive_expiry=0.05)
    with anyio.CancelScope() as scope:
        backend.scope = scope
        await pool.request("GET", "https://a.example/")
    print("after cancelled request:", pool, pool.connections)
    await anyio.sleep(0.1)  # more than keepalive_expiry
    try:
        with anyio.fail_after(1):
            await pool.request("GET", "https://b.example/", extensions={"timeout": {"pool": 0.5}})
    except httpcore.PoolTimeout:
        print("FAIL: PoolTimeout for another origin; stuck connection:", pool.connections)
        sys.exit(1)
    except TimeoutError:
        print("request to b proceeded past the pool (blocked on read, as expected)")
    print("PASS")

anyio.run(main)
