"""
Pre-existing (UNCHANGED library): HTTP/2, the server lowers
SETTINGS_MAX_CONCURRENT_STREAMS below the number of streams that are open.

`_receive_remote_settings_change()` then tries to take back more permits of the
stream semaphore than are free, and waits for them *while holding the read
lock*; the open streams need the read lock to complete and give their permits
back.  Both requests hang for ever, although the server has sent complete
responses for both and has closed the connection ("a call never hangs once its
input has ended").
"""
import sys, os

sys.path.insert(0, os.getcwd())

import anyio
import hpack
import hyperframe.frame as hf

import httpcore


def settings(n):
    return hf.SettingsFrame(settings={hf.SettingsFrame.MAX_CONCURRENT_STREAMS: n}).serialize()


def response(stream_id):
    enc = hpack.Encoder()
    return (
        hf.HeadersFrame(
            stream_id=stream_id,
            data=enc.encode([(b":status", b"200")]),
            flags=["END_HEADERS"],
        ).serialize()
        + hf.DataFrame(stream_id=stream_id, data=b"hello", flags=["END_STREAM"]).serialize()
    )


async def main():
    backend = httpcore.AsyncMockBackend(
        [settings(100), settings(1), response(1), response(3)], http2=True
    )
    results = {}

    async def fetch(name):
        try:
            r = await pool.request("GET", f"https://example.com/{name}")
            results[name] = (r.status, r.content)
        except Exception as exc:
            results[name] = exc

    async with httpcore.AsyncConnectionPool(network_backend=backend, http2=True) as pool:
        with anyio.move_on_after(5) as scope:
            async with anyio.create_task_group() as tg:
                tg.start_soon(fetch, "a")
                tg.start_soon(fetch, "b")
        if scope.cancelled_caught:
            print("HANG: after 5 s the requests are still pending:", results, repr(pool))
            return 1
    print("completed:", results)
    return 0


sys.exit(anyio.run(main))
