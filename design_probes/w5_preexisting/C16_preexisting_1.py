import sys, os; sys.path.insert(0, os.getcwd())

# Observation on the UNCHANGED library (borderline w.r.t. C16, upstream behaviour):
# on a shared HTTP/2 connection a request that configured read=0.2 can wait for a
# response without any limit, because it queues on the connection's read lock
# behind another request that is reading with *its* (absent = unlimited) read
# timeout.  The request with the limit never gets to issue a read of its own, so
# its read timeout is never applied to anything.
#
# Exits 0 and prints what happened (it is a reproducer, not a pass/fail demo).

import typing

import anyio
import h2.config
import h2.connection

import httpcore


def server_settings_frame() -> bytes:
    conn = h2.connection.H2Connection(config=h2.config.H2Configuration(client_side=False))
    conn.initiate_connection()
    return conn.data_to_send()


class Stream(httpcore.AsyncNetworkStream):
    def __init__(self) -> None:
        self.reads: typing.List[typing.Optional[float]] = []
        self._first = True
        self._never = anyio.Event()

    async def read(self, max_bytes: int, timeout: typing.Optional[float] = None) -> bytes:
        self.reads.append(timeout)
        if self._first:
            self._first = False
            return server_settings_frame()
        try:
            with anyio.fail_after(timeout):
                await self._never.wait()
        except TimeoutError:
            raise httpcore.ReadTimeout("timed out")
        return b""

    async def write(self, buffer: bytes, timeout: typing.Optional[float] = None) -> None:
        pass

    async def aclose(self) -> None:
        pass

    def get_extra_info(self, info: str) -> typing.Any:
        return None


async def main() -> None:
    stream = Stream()
    origin = httpcore.Origin(b"https", b"example.com", 443)
    conn = httpcore.AsyncHTTP2Connection(origin=origin, stream=stream)
    outcome: dict = {}

    async def request(name: str, timeout: dict, started: anyio.Event) -> None:
        try:
            started.set()
            await conn.request("GET", "https://example.com/", extensions={"timeout": timeout})
            outcome[name] = "a response"
        except BaseException as exc:  # noqa
            outcome[name] = repr(exc)
            raise

    with anyio.move_on_after(3.0):
        async with anyio.create_task_group() as tg:
            a_started = anyio.Event()
            tg.start_soon(request, "A (no read timeout)", {}, a_started)
            await a_started.wait()
            for _ in range(20):  # let A reach its blocking read
                await anyio.sleep(0)
            tg.start_soon(request, "B (read=0.2)", {"read": 0.2, "write": 0.2, "connect": 0.2, "pool": 0.2}, anyio.Event())

    print("timeouts of the reads that were issued:", stream.reads)
    print("after 3 s:", outcome)
    print("max concurrent streams allowed by the peer:", conn._max_streams, "| open streams:", sorted(conn._events))
    if "ReadTimeout" not in outcome.get("B (read=0.2)", ""):
        print("OBSERVED: request B (read=0.2) was still waiting after 3 s - it never issued a read, it waits on the read lock held by A")
    else:
        print("request B got its ReadTimeout")


anyio.run(main)
