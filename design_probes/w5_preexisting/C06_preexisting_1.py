import sys, os; sys.path.insert(0, os.getcwd())  # noqa: E702

"""
Pre-existing (UNCHANGED library): a socket option that the OS refuses makes
AnyIOBackend.connect_tcp (and TrioBackend / SyncBackend alike) raise ConnectError
*after* the TCP connection has been made, and nobody closes that connection. With
`retries=N` every retry leaves one more socket behind. Under asyncio the transport is
registered with the event loop, so it is not even garbage collected.

Prints LEAK (exit 1) if the unchanged library leaks, OK (exit 0) otherwise.
"""
import socket

import anyio

import httpcore
import httpcore._backends.anyio as backend_module


async def main() -> int:
    listener = socket.socket()
    listener.bind(("127.0.0.1", 0))
    listener.listen(8)
    port = listener.getsockname()[1]

    opened = []
    real_connect_tcp = anyio.connect_tcp

    async def recording_connect_tcp(*args, **kwargs):
        stream = await real_connect_tcp(*args, **kwargs)
        opened.append(stream.extra(anyio.abc.SocketAttribute.raw_socket))
        return stream

    backend_module.anyio.connect_tcp = recording_connect_tcp
    try:
        bad_option = (socket.SOL_SOCKET, 0x7FFF, 1)  # ENOPROTOOPT
        async with httpcore.AsyncConnectionPool(
            socket_options=[bad_option], retries=2
        ) as pool:
            try:
                await pool.request("GET", f"http://127.0.0.1:{port}/")
            except httpcore.ConnectError as exc:
                print("request failed as expected:", repr(exc))
    finally:
        backend_module.anyio.connect_tcp = real_connect_tcp

    still_open = [s for s in opened if s.fileno() != -1]
    print(f"{len(opened)} TCP connections were made, {len(still_open)} still open "
          "after the pool has been closed")
    listener.close()
    if still_open:
        print("LEAK (pre-existing)")
        return 1
    print("OK")
    return 0


if __name__ == "__main__":
    sys.exit(anyio.run(main))
