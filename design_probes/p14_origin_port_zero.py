"""KF-origin-port-0: explicit port 0 is replaced by the scheme's default port in URL.origin."""
import httpcore
u0 = httpcore.URL("http://example.com:0/")
u = httpcore.URL("http://example.com/")
print("port attr:", u0.port, "origin port:", u0.origin.port, "same origin as implicit:", u0.origin == u.origin)
assert u0.port == 0
bad = u0.origin == u.origin
print("DEFECT-REPRODUCED" if bad else "not reproduced")
raise SystemExit(1 if bad else 0)
