import sys, os; sys.path.insert(0, os.getcwd())

"""
Pre-existing (UNCHANGED library): on a shared HTTP/2 connection the network
read is performed by whichever request holds the connection's read lock, using
THAT request's read timeout.  A request that configured a read timeout but has
to queue behind a request without one (absent => unlimited) waits on the lock
with no limit at all, so its own read timeout is never applied.

Deterministic thanks to trio's MockClock (virtual time, autojump).

  t=0  B: GET without timeouts on an HTTP/2 connection; the server sends its
          SETTINGS and then goes silent.  B blocks in read(timeout=None).
  t=1  A: GET with read timeout 5 on the same connection.  Expected by the
          property: ReadTimeout at about t=6.  Observed: A is still blocked
          at t=100 (it never issued a read, it waits for B's unlimited one).
"""

import typing

import h2.config
import h2.connection
import trio
import trio.testing

import httpcore


class SilentH2Stream(httpcore.AsyncNetworkStream):
    """Sends the server preface (SETTINGS) and then nothing, ever."""

    def __init__(self) -> None:
        server = h2.connection.H2Connection(
            config=h2.config.H2Configuration(client_side=False)
        )
        server.initiate_connection()
        self._pending = [server.data_to_send()]
        self.reads: typing.List[typing.Optional[float]] = []

    async def read(self, max_bytes: int, timeout: typing.Optional[float] = None) -> bytes:
        self.reads.append(timeout)
        if self._pending:
            return self._pending.pop(0)
        try:
            with trio.fail_after(float("inf") if timeout is None else timeout):
                await trio.sleep_forever()
        except trio.TooSlowError:
            raise httpcore.ReadTimeout() from None
        raise AssertionError  # pragma: nocover

    async def write(self, buffer: bytes, timeout: typing.Optional[float] = None) -> None:
        await trio.lowlevel.checkpoint()

    async def aclose(self) -> None:
        pass

    def get_extra_info(self, info: str) -> typing.Any:
        return None


async def main() -> int:
    stream = SilentH2Stream()
    origin = httpcore.Origin(b"https", b"example.com", 443)
    result = {}

    async def request_a(conn) -> None:
        t0 = trio.current_time()
        try:
            await conn.request(
                "GET", "https://example.com/a", extensions={"timeout": {"read": 5}}
            )
            result["a"] = "response"
        except httpcore.ReadTimeout:
            result["a"] = f"ReadTimeout after {trio.current_time() - t0:.1f}s"

    async def request_b(conn) -> None:
        await conn.request("GET", "https://example.com/b")

    conn = httpcore.AsyncHTTP2Connection(origin=origin, stream=stream)
    with trio.move_on_after(100):
        async with trio.open_nursery() as nursery:
            nursery.start_soon(request_b, conn)
            await trio.sleep(1)
            nursery.start_soon(request_a, conn)

    print("timeouts passed to the network reads:", stream.reads)
    if "a" in result and result["a"].startswith("ReadTimeout after 5"):
        print("A:", result["a"], "- as specified")
        return 0
    print(
        "PRE-EXISTING VIOLATION: A (read timeout 5s) outcome:",
        result.get("a", "still blocked after 99s of virtual time"),
    )
    return 1


if __name__ == "__main__":
    clock = trio.testing.MockClock(autojump_threshold=0)
    sys.exit(trio.run(main, clock=clock))
