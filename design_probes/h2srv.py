"""tiny in-memory HTTP/2 server endpoint used by the probes: an h2 server-side state machine
behind an AsyncNetworkStream; the probe scripts what the server does on each request."""
import anyio, h2.config, h2.connection, h2.events, httpcore
class H2ServerStream(httpcore.AsyncNetworkStream):
    def __init__(self, on_event=None, settings=None):
        self.srv = h2.connection.H2Connection(config=h2.config.H2Configuration(client_side=False))
        self.settings = settings
        self.on_event = on_event or (lambda srv, ev: None)
        self.inbox = []            # bytes for the client
        self.events = []
        self.started = False
        self.closed = False
        self.wake = anyio.Event()
    async def write(self, buffer, timeout=None):
        if not self.started:
            self.started = True
            self.srv.initiate_connection()
            if self.settings: self.srv.update_settings(self.settings)
        for ev in self.srv.receive_data(bytes(buffer)):
            self.events.append(ev); self.on_event(self.srv, ev)
        self.flush()
    def flush(self):
        d = self.srv.data_to_send()
        if d:
            self.inbox.append(d); self.wake.set()
    async def read(self, max_bytes, timeout=None):
        while not self.inbox:
            self.wake = anyio.Event()
            if self.closed: return b""
            with anyio.fail_after(timeout if timeout is not None else 5):
                await self.wake.wait()
        d = self.inbox.pop(0)
        if len(d) > max_bytes:
            self.inbox.insert(0, d[max_bytes:]); d = d[:max_bytes]
        return d
    async def aclose(self): self.closed = True; self.wake.set()
    def get_extra_info(self, info): return None
