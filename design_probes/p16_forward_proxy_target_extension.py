"""KF-forward-proxy-target-extension: through a forwarding proxy a request that carries the
'target' extension is sent with that raw target on the request line, not the absolute URL."""
import httpcore

written = []
class S(httpcore.NetworkStream):
    def __init__(self): self.buf = [b"HTTP/1.1 200 OK\r\nContent-Length: 0\r\n\r\n"]
    def read(self, max_bytes, timeout=None): return self.buf.pop(0) if self.buf else b""
    def write(self, buffer, timeout=None): written.append(buffer)
    def close(self): pass
    def start_tls(self, *a, **k): return self
    def get_extra_info(self, info): return None
class B(httpcore.NetworkBackend):
    def connect_tcp(self, host, port, timeout=None, local_address=None, socket_options=None): return S()

with httpcore.ConnectionPool(proxy=httpcore.Proxy("http://proxy.local:8080"), network_backend=B()) as pool:
    pool.request("GET", "http://example.com/a/b", extensions={"target": b"/a%2Fb"})
line = b"".join(written).split(b"\r\n")[0]
print("request line via forwarding proxy:", line)
bad = not line.startswith(b"GET http://example.com")
print("DEFECT-REPRODUCED" if bad else "not reproduced")
raise SystemExit(1 if bad else 0)
