"""KF-socks-cancel-stuck-connecting: AsyncSocks5Connection catches `Exception` only, so a
cancellation during establishment never sets _connect_failed: the connection stays CONNECTING
in the pool for ever (max_connections=1 pool is dead) and its stream is not closed."""
import anyio, httpcore
opened, closed = [], []
class S(httpcore.AsyncNetworkStream):
    async def read(self, max_bytes, timeout=None):
        await anyio.sleep(timeout or 100); raise httpcore.ReadTimeout()
    async def write(self, buffer, timeout=None): pass
    async def aclose(self): closed.append(self)
    async def start_tls(self, *a, **k): return self
    def get_extra_info(self, info): return None
class B(httpcore.AsyncNetworkBackend):
    async def connect_tcp(self, host, port, timeout=None, local_address=None, socket_options=None):
        s = S(); opened.append(s); return s
    async def sleep(self, s): pass
async def main():
    async with httpcore.AsyncConnectionPool(proxy=httpcore.Proxy("socks5://127.0.0.1:1080"), network_backend=B(), max_connections=1) as pool:
        with anyio.move_on_after(0.1):
            await pool.request("GET", "http://example.com/")   # hangs in the SOCKS negotiation read
        print("after cancel:", pool.connections)
        stuck = len(pool.connections) == 1 and "CONNECTING" in repr(pool.connections[0])
        try:
            await pool.request("GET", "http://other.example/", extensions={"timeout": {"pool": 0.2, "connect": 0.2}})
            dead = False
        except httpcore.PoolTimeout:
            dead = True
        except httpcore.TimeoutException:
            dead = False   # got a connection; the scripted proxy never answers the negotiation
        print("stuck:", stuck, "pool dead:", dead, "opened", len(opened), "closed", len(closed))
    bad = stuck and dead
    print("DEFECT-REPRODUCED" if bad else "not reproduced")
    raise SystemExit(1 if bad else 0)
anyio.run(main)
