import sys, os; sys.path.insert(0, os.getcwd())
"""
PRE-EXISTING (unchanged library): a response that is closed (or a request that is
cancelled) before END_STREAM gives its slot back to the semaphore, but no RST_STREAM is
ever sent, so the stream stays open for the server (and for the local h2 state machine).
With the server limit MAX_CONCURRENT_STREAMS=1 the next request does not wait - it fails
with LocalProtocolError(TooManyStreamsError) (or, with a bigger limit, the server sees
more open streams than it allowed).

Prints VIOLATION (exit 1) or OK (exit 0).
"""
import anyio
import h2.config, h2.connection, h2.events, h2.settings
import httpcore

MCS = h2.settings.SettingCodes.MAX_CONCURRENT_STREAMS


class ServerStream(httpcore.AsyncNetworkStream):
    def __init__(self):
        self.h2 = h2.connection.H2Connection(
            config=h2.config.H2Configuration(client_side=False, header_encoding=None))
        self.h2.local_settings = h2.settings.Settings(client=False, initial_values={MCS: 1})
        self.h2.initiate_connection()
        self.outbox = bytearray(self.h2.data_to_send())
        self.readable = anyio.Event()
        self.resets = 0

    async def write(self, buffer, timeout=None):
        for ev in self.h2.receive_data(buffer):
            if isinstance(ev, h2.events.RequestReceived):
                self.h2.send_headers(ev.stream_id, [(b":status", b"200")])
                if ev.stream_id == 1:
                    self.h2.send_data(1, b"first part, more to come")   # no END_STREAM
                else:
                    self.h2.send_data(ev.stream_id, b"done", end_stream=True)
            elif isinstance(ev, h2.events.StreamReset):
                self.resets += 1
        data = self.h2.data_to_send()
        if data:
            self.outbox += data
            self.readable.set()

    async def read(self, max_bytes, timeout=None):
        while not self.outbox:
            await self.readable.wait()
            self.readable = anyio.Event()
        chunk = bytes(self.outbox[:max_bytes]); del self.outbox[:max_bytes]
        return chunk

    async def aclose(self): pass
    def get_extra_info(self, info): return None


async def main():
    server = ServerStream()
    conn = httpcore.AsyncHTTP2Connection(
        origin=httpcore.Origin(b"https", b"example.com", 443), stream=server)
    async with conn.stream("GET", "https://example.com/1") as r:
        async for chunk in r.aiter_stream():
            break                      # caller has seen enough; leaves the block -> aclose()
    print("after early close: RST_STREAM frames seen by server:", server.resets,
          "| streams still open for the server:", server.h2.open_inbound_streams)
    try:
        with anyio.fail_after(3):
            r = await conn.request("GET", "https://example.com/3")
        print("OK", r.content)
        return 0 if server.resets else 1
    except BaseException as exc:
        print("VIOLATION: second request did not wait/succeed:", repr(exc))
        return 1

sys.exit(anyio.run(main))
