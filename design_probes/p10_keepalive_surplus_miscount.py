import httpcore
b = httpcore.MockBackend([b"HTTP/1.1 200 OK\r\nContent-Length: 2\r\n\r\n", b"hi"])
with httpcore.ConnectionPool(network_backend=b, max_connections=10, max_keepalive_connections=1) as pool:
    with pool.stream("GET", "http://a.example/") as ra:          # A stays active
        rb = pool.request("GET", "http://b.example/")             # B completes -> should become idle (1 idle <= limit 1)
        print("idle limit 1, one active + one just-finished:", pool.connections)
    print("after A closed:", pool.connections)
