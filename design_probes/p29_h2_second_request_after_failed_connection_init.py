"""Reported by a seeding sub-agent as a pre-existing defect (wave 4, C15): two concurrent requests on a
fresh HTTP/2 connection; the first one's connection preface write fails, so it closes the connection;
the second, which was waiting on _init_lock, runs _send_connection_init() again on the closed h2 state
machine and raises a raw h2.exceptions.ProtocolError to its caller."""
import anyio, httpcore, sys

class S(httpcore.AsyncMockStream):
    def __init__(self):
        super().__init__([], http2=True)
        self.writes = 0
    async def write(self, buffer, timeout=None):
        self.writes += 1
        await anyio.sleep(0.05)
        raise httpcore.WriteError("connection reset")

async def main():
    conn = httpcore.AsyncHTTP2Connection(origin=httpcore.Origin(b"https", b"example.com", 443), stream=S())
    out = {}
    async def req(name, delay):
        await anyio.sleep(delay)
        try:
            await conn.request("GET", "https://example.com/")
            out[name] = "ok"
        except BaseException as e:
            out[name] = f"{type(e).__module__}.{type(e).__name__}"
    async with anyio.create_task_group() as tg:
        tg.start_soon(req, "A", 0)
        tg.start_soon(req, "B", 0.01)
    print(out)
    bad = any(not v.startswith("httpcore") for v in out.values())
    print("DEFECT-REPRODUCED" if bad else "not reproduced")
    return 1 if bad else 0

sys.exit(anyio.run(main))
