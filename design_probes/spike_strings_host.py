import z3, time
S = z3.StringSort()
host, path, query, params = z3.Strings("host path query params")
port = z3.Int("port"); port_none = z3.Bool("port_none"); default = z3.Int("default")
def chk(name, hyps, goal, to=10000):
    s = z3.Solver(); s.set("timeout", to); s.add(*hyps); s.add(z3.Not(goal))
    t=time.time(); r=s.check(); print(f"{name:55s} {'PROVED' if r==z3.unsat else r} {time.time()-t:.2f}s", (s.model() if r==z3.sat else ""))
# Host header synthesis (include_request_headers), symbolic port formatting via str.from_int
hv = z3.If(z3.Or(port_none, port == default), host, z3.Concat(host, z3.StringVal(":"), z3.IntToStr(port)))
digits = z3.Plus(z3.Range("0","9"))
regname = z3.Star(z3.Union(z3.Range("a","z"), z3.Range("0","9"), z3.Re("-"), z3.Re(".")))
ip6 = z3.Concat(z3.Re("["), z3.Plus(z3.Union(z3.Range("0","9"), z3.Range("a","f"), z3.Re(":"), z3.Re("."))), z3.Re("]"))
host_wf = z3.Concat(z3.Union(regname, ip6), z3.Option(z3.Concat(z3.Re(":"), digits)))
# (1) for registered names the synthesised Host is well-formed
chk("Host wf for reg-name hosts", [z3.InRe(host, regname), port >= 0, port <= 65535], z3.InRe(hv, host_wf))
# (2) for parsed IPv6 hosts (brackets stripped by .hostname) it is not -> expect counterexample
ip6_stripped = z3.Plus(z3.Union(z3.Range("0","9"), z3.Range("a","f"), z3.Re(":")))
chk("Host wf for stripped IPv6 hosts (expect sat)", [z3.InRe(host, ip6_stripped), z3.Contains(host, ":"), port >= 0, port <= 65535], z3.InRe(hv, host_wf))
# (3) port present iff not default
chk("port suffix iff non-default", [z3.InRe(host, regname), port >= 0, port<=65535, z3.Not(port_none), port != default], z3.SuffixOf(z3.Concat(z3.StringVal(":"), z3.IntToStr(port)), hv))
chk("no port suffix if default", [z3.InRe(host, regname), z3.Or(port_none, port == default)], hv == host)
# (4) target composition under assumed urlparse contract: parsed.path excludes ';params' of last segment
full_path = z3.Concat(path, z3.If(params == z3.StringVal(""), z3.StringVal(""), z3.Concat(z3.StringVal(";"), params)))
target = z3.Concat(z3.If(path == z3.StringVal(""), z3.StringVal("/"), path), z3.If(query == z3.StringVal(""), z3.StringVal(""), z3.Concat(z3.StringVal("?"), query)))
spec = z3.Concat(z3.If(full_path == z3.StringVal(""), z3.StringVal("/"), full_path), z3.If(query == z3.StringVal(""), z3.StringVal(""), z3.Concat(z3.StringVal("?"), query)))
chk("target == RFC path+query (urlparse contract; expect sat)", [], target == spec)
chk("target == RFC path+query when no params", [params == z3.StringVal("")], target == spec)
