import httpcore, hpack, hyperframe.frame as hf, traceback
def run(frames, http2=True):
    backend = httpcore.MockBackend(frames, http2=http2)
    with httpcore.ConnectionPool(network_backend=backend, http2=True) as pool:
        try:
            with pool.stream("GET", "https://example.com/") as r:
                print("status", r.status)
                print("body", r.read())
        except BaseException as e:
            print("EXC", type(e).__module__, type(e).__name__, e)
enc = hpack.Encoder()
# (a) bad :status
run([hf.SettingsFrame().serialize(),
     hf.HeadersFrame(stream_id=1, data=enc.encode([(b":status", b"abc")]), flags=["END_HEADERS","END_STREAM"]).serialize()])
enc = hpack.Encoder()
# (b) valid headers then garbage frame during body
run([hf.SettingsFrame().serialize(),
     hf.HeadersFrame(stream_id=1, data=enc.encode([(b":status", b"200")]), flags=["END_HEADERS"]).serialize(),
     b"\x00\x00\x05\x08\x00\x00\x00\x00\x01" + b"\x00\x00\x00\x00\x00",  # WINDOW_UPDATE len 5 (invalid) 
     ])
enc = hpack.Encoder()
# (b2) garbage during headers phase
run([hf.SettingsFrame().serialize(),
     b"\x00\x00\x05\x08\x00\x00\x00\x00\x01" + b"\x00\x00\x00\x00\x00"])
enc = hpack.Encoder()
# (b3) DATA on stream before headers
run([hf.SettingsFrame().serialize(),
     hf.DataFrame(stream_id=1, data=b"x").serialize()])
# (b4) bad hpack
run([hf.SettingsFrame().serialize(),
     hf.HeadersFrame(stream_id=1, data=b"\xff\xff\xff\xff\xff", flags=["END_HEADERS"]).serialize()])
