"""Tunnel twin of p26/p27: a request from an already-cancelled scope is cancelled while acquiring the
_connect_lock of the TunnelHTTPConnection the pool just created for it; nobody else will ever send the
CONNECT.  The inner proxy connection is unconnected and not marked failed, so the tunnel connection is
neither available, idle nor closed."""
import anyio, httpcore, sys

async def main():
    b = httpcore.AsyncMockBackend([b"HTTP/1.1 200 OK\r\n\r\n", b"HTTP/1.1 200 OK\r\nContent-Length: 0\r\n\r\n"])
    async with httpcore.AsyncConnectionPool(proxy=httpcore.Proxy("http://localhost:8080/"), network_backend=b, max_connections=1) as pool:
        with anyio.CancelScope() as scope:
            scope.cancel()
            await pool.request("GET", "https://example.com/")
        print("after the cancelled request:", pool.connections)
        try:
            r = await pool.request("GET", "https://example.org/", extensions={"timeout": {"pool": 0.3}})
            out = r.status
        except Exception as e:
            out = type(e).__name__
        print("next request:", out)
    bad = out != 200
    print("DEFECT-REPRODUCED" if bad else "not reproduced")
    return 1 if bad else 0

sys.exit(anyio.run(main))
