import anyio, httpcore, time
class B(httpcore.AsyncMockBackend):
    async def connect_tcp(self, host, port, timeout=None, local_address=None, socket_options=None):
        with anyio.CancelScope(shield=True):
            await anyio.sleep(0.1)     # connect completes just after the caller's deadline
        return await super().connect_tcp(host, port)
async def main():
    b = B([b"HTTP/1.1 200 OK\r\nContent-Length: 0\r\n\r\n"])
    async with httpcore.AsyncConnectionPool(network_backend=b, max_connections=1) as pool:
        with anyio.move_on_after(0.05):
            await pool.request("GET", "http://example.com/")
        print("after cancelled request:", pool.connections, repr(pool))
        try:
            r = await pool.request("GET", "http://example.org/", extensions={"timeout": {"pool": 0.2}})
            print("second:", r.status)
        except Exception as e:
            print("second request:", type(e).__name__)
        try:
            r = await pool.request("GET", "http://example.com/", extensions={"timeout": {"pool": 0.2}})
            print("third (same origin):", r.status)
        except Exception as e:
            print("third request (same origin):", type(e).__name__)
anyio.run(main)
