"""KF-h2-exit-between-gate-and-stream-registration: a request that passed the HTTP/2 ACTIVE
gate and is cancelled before its stream is registered (here: inside the 99 semaphore acquires
that follow the connection preface, each of which is a checkpoint) leaves the connection ACTIVE
with no stream for ever: never idle, never expired, not closed -> its pool slot is dead."""
import anyio, httpcore, hpack, hyperframe.frame as hf
class S(httpcore.AsyncMockStream):
    async def read(self, max_bytes, timeout=None):
        await anyio.sleep(999); return b""
    async def write(self, buffer, timeout=None):
        await anyio.sleep(0)
async def main():
    origin = httpcore.Origin(b"https", b"example.com", 443)
    conn = httpcore.AsyncHTTP2Connection(origin=origin, stream=S([], http2=True), keepalive_expiry=0.01)
    scope = anyio.CancelScope()
    async def requester():
        with scope:
            await conn.request("GET", "https://example.com/")
    async def canceller():
        while not conn._sent_connection_init:      # preface written: the request is now in the acquire loop
            await anyio.sleep(0)
        scope.cancel()
    async with anyio.create_task_group() as tg:
        tg.start_soon(requester); tg.start_soon(canceller)
    await anyio.sleep(0.05)
    print("connection:", conn, "idle:", conn.is_idle(), "closed:", conn.is_closed(), "expired:", conn.has_expired(), "streams:", conn._events)
    bad = not conn.is_idle() and not conn.is_closed() and not conn.has_expired()
    print("DEFECT-REPRODUCED" if bad else "not reproduced")
    raise SystemExit(1 if bad else 0)
anyio.run(main)
