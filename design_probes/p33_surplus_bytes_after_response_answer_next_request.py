import sys, os; sys.path.insert(0, os.getcwd())

"""
Pre-existing (UNCHANGED library) violation of C01.

If surplus bytes follow a complete HTTP/1.1 response in the same network read
(a duplicated / unsolicited second response), they stay in h11's receive
buffer.  `_response_closed()` only looks at the h11 states (DONE/DONE), calls
`start_next_cycle()` and returns the connection to the pool as IDLE;
`has_expired()` only polls the *socket*, so it cannot see buffered bytes.
The next request on that connection is then answered from the buffer.
"""

import httpcore
from httpcore._backends.mock import MockBackend

backend = MockBackend(
    [
        # one read: the answer to request 1, immediately followed by a surplus response
        b"HTTP/1.1 200 OK\r\nContent-Length: 1\r\n\r\nA"
        b"HTTP/1.1 200 OK\r\nContent-Length: 5\r\n\r\nSTALE",
        # what the server really answers to request 2
        b"HTTP/1.1 200 OK\r\nContent-Length: 1\r\n\r\nB",
    ]
)
with httpcore.ConnectionPool(network_backend=backend) as pool:
    r1 = pool.request("GET", "http://example.com/a")
    print("request 1 ->", r1.content, pool.connections)
    r2 = pool.request("GET", "http://example.com/b")
    print("request 2 ->", r2.content, pool.connections)

# (the mock back end replays its script on every NEW connection: after the repair request 2 travels on a fresh connection and reads
# the script's first response again - what matters is that the connection holding the surplus bytes was not reused)
if r2.content != b"STALE":
    print("not reproduced")
else:
    print("DEFECT-REPRODUCED: request 2 was answered with the surplus bytes left over from exchange 1")
    sys.exit(1)
