"""Regression probe for fix 83ee32c: a request issued from an already-cancelled scope gets a fresh
connection assigned by the pool and is cancelled at the first checkpoint, which is acquiring the
connection's _request_lock.  Nobody else is establishing that connection.  If the cancellation does
not mark it failed it stays CONNECTING for ever (not available, not idle, not closed): with
max_connections=1 the pool is dead."""
import anyio, httpcore, sys

async def main():
    b = httpcore.AsyncMockBackend([b"HTTP/1.1 200 OK\r\nContent-Length: 0\r\n\r\n"])
    async with httpcore.AsyncConnectionPool(network_backend=b, max_connections=1) as pool:
        with anyio.CancelScope() as scope:
            scope.cancel()
            await pool.request("GET", "http://example.com/")
        print("after the cancelled request:", pool.connections)
        try:
            r = await pool.request("GET", "http://example.org/", extensions={"timeout": {"pool": 0.3}})
            out = r.status
        except Exception as e:
            out = type(e).__name__
        print("next request:", out)
    bad = out != 200
    print("DEFECT-REPRODUCED" if bad else "not reproduced")
    return 1 if bad else 0

sys.exit(anyio.run(main))
