import httpcore, hpack, hyperframe.frame as hf
from d4lib import RecBackend
def attempt(pool, url, **kw):
    try:
        r = pool.request("GET", url, **kw); print("  OK", r.status)
    except BaseException as e:
        print("  EXC", type(e).__name__, e)
ok = b"HTTP/1.1 200 OK\r\nContent-Length: 0\r\n\r\n"
print("wss via SOCKS5:")
b = RecBackend([b"\x05\x00", b"\x05\x00\x00\x01\xff\x00\x00\x01\x00\x50", ok])
with httpcore.SOCKSProxy("socks5://localhost:1080", network_backend=b) as p:
    attempt(p, "wss://example.com/")
print("  tls calls:", [x for x in b.log if x[0]=="start_tls"])
print("https via SOCKS5 (control):")
b = RecBackend([b"\x05\x00", b"\x05\x00\x00\x01\xff\x00\x00\x01\x00\x50", ok])
with httpcore.SOCKSProxy("socks5://localhost:1080", network_backend=b) as p:
    attempt(p, "https://example.com/")
print("  tls calls:", [x for x in b.log if x[0]=="start_tls"])
print("ws via HTTP proxy:")
b = RecBackend([b"HTTP/1.1 200 OK\r\n\r\n", ok])
with httpcore.HTTPProxy("http://localhost:8080", network_backend=b) as p:
    attempt(p, "ws://example.com/")
print("  log:", [x for x in b.log if x[0] in ("start_tls","write")][:4])
print("https via HTTP proxy with sni_hostname extension:")
b = RecBackend([b"HTTP/1.1 200 OK\r\n\r\n", ok])
with httpcore.HTTPProxy("http://localhost:8080", network_backend=b) as p:
    attempt(p, "https://example.com/", extensions={"sni_hostname": "sni.example"})
print("  tls calls:", [x for x in b.log if x[0]=="start_tls"])
print("direct https with sni_hostname (control):")
b = RecBackend([ok])
with httpcore.ConnectionPool(network_backend=b) as p:
    attempt(p, "https://example.com/", extensions={"sni_hostname": "sni.example"})
print("  tls calls:", [x for x in b.log if x[0]=="start_tls"])
