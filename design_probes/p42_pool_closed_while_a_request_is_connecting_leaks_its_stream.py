"""
Pre-existing (UNCHANGED library): closing the pool while a request is still
establishing its connection orphans the stream that the request then opens.

pool.aclose() empties `pool._connections`; `AsyncHTTPConnection.aclose()` is a
no-op while `_connection is None` (still connecting) and does not mark the
connection as failed/closed. The in-flight request then finishes connecting,
gets its response and closes it - but the connection is no longer in the pool,
so nobody ever closes its network stream (not even a second pool.aclose()).

Prints LEAK and exits 1 when the violation is observed.
Run from the worktree root:  /venv/bin/python out/preexisting_1.py
"""
import sys, os; sys.path.insert(0, os.getcwd())

import anyio
import httpcore


class Stream(httpcore.AsyncMockStream):
    pass


class SlowConnectBackend(httpcore.AsyncMockBackend):
    def __init__(self, buffer):
        super().__init__(buffer)
        self.streams = []
        self.connecting = anyio.Event()
        self.may_connect = anyio.Event()

    async def connect_tcp(self, *args, **kwargs):
        self.connecting.set()
        await self.may_connect.wait()
        stream = Stream(list(self._buffer))
        self.streams.append(stream)
        return stream


async def main() -> int:
    backend = SlowConnectBackend(
        [b"HTTP/1.1 200 OK\r\n", b"Content-Length: 2\r\n", b"\r\n", b"ok"]
    )
    pool = httpcore.AsyncConnectionPool(network_backend=backend)
    result = {}

    async def do_request():
        response = await pool.request("GET", "http://example.com/")
        result["status"] = response.status

    async with anyio.create_task_group() as tg:
        tg.start_soon(do_request)
        await backend.connecting.wait()
        await pool.aclose()          # pool closed while the request is mid-connect
        backend.may_connect.set()    # ... the connect then completes

    await pool.aclose()              # closing again does not help either
    print("request status:", result.get("status"), "| pool.connections:", pool.connections)
    open_streams = [s for s in backend.streams if not s._closed]
    if open_streams:
        print(f"LEAK: {len(open_streams)} stream(s) still open, owned by no pooled connection")
        return 1
    print("no leak")
    return 0


if __name__ == "__main__":
    sys.exit(anyio.run(main))
