"""
Pre-existing (UNCHANGED library): cancelling ONE request on a shared HTTP/2
connection can drop the frames of OTHER requests.

`_write_outgoing_data` takes *everything* that h2 has queued (`data_to_send()`), for
all streams, and then awaits the network write. If the task that happens to hold the
write lock is cancelled before its write has gone out, those bytes are gone: only
`Exception` is handled there, a cancellation neither marks the connection as broken
nor puts the bytes back. (With anyio on asyncio a cancelled `send()` writes nothing at
all, with trio a cancelled `send_all()` may have written a part.)

Sequence, made deterministic with a gate in the network stream:
  * C is uploading; its DATA write is stuck in the network (gate closed).
  * A (GET /a) and then B (GET /b) queue their HEADERS in h2 and wait for the write
    lock, in that order.
  * The gate opens for one write: C's DATA goes out, A gets the lock and takes
    HEADERS(/a) + HEADERS(/b) (+ C's END_STREAM) out of h2. The gate is closed again,
    so A's write is pending - and A is cancelled (its caller timed out).
  * B gets the lock, finds nothing left to send, and waits for a response to a
    request that never left the process. C never completes either.
  * The HPACK encoder has already indexed the header fields of /a and /b, so the
    next request (GET /d) is encoded against a dynamic table the server never saw.

Exit status 1 when a request that was neither cancelled nor failed did not reach the
server faithfully.
"""

import sys, os

sys.path.insert(0, os.getcwd())

import typing

import anyio
import h2.config
import h2.connection
import h2.events

import httpcore


class GatedH2Server(httpcore.AsyncNetworkStream):
    def __init__(self) -> None:
        self._conn = h2.connection.H2Connection(
            config=h2.config.H2Configuration(
                client_side=False, validate_inbound_headers=False
            )
        )
        self._conn.initiate_connection()
        self._out = self._conn.data_to_send()
        self._wakeup = anyio.Event()
        self.hold = False  # writes wait for `gate` while this is set
        self.gate = anyio.Event()
        self.write_pending = anyio.Event()
        self.paths: typing.List[bytes] = []
        self.errors: typing.List[str] = []

    async def write(self, buffer: bytes, timeout: typing.Optional[float] = None) -> None:
        if not buffer:
            return
        if self.hold:
            self.write_pending.set()
            await self.gate.wait()  # cancelled here => nothing was sent
            self.gate = anyio.Event()
        try:
            events = self._conn.receive_data(buffer)
        except Exception as exc:
            self.errors.append(repr(exc))
            events = []
        for event in events:
            if isinstance(event, h2.events.RequestReceived):
                self.paths.append(dict(event.headers)[b":path"])
            elif isinstance(event, h2.events.DataReceived):
                self._conn.acknowledge_received_data(
                    event.flow_controlled_length, event.stream_id
                )
            elif isinstance(event, h2.events.StreamEnded):
                self._conn.send_headers(
                    event.stream_id, [(b":status", b"200")], end_stream=True
                )
        self._out += self._conn.data_to_send()
        self._wakeup.set()

    async def read(self, max_bytes: int, timeout: typing.Optional[float] = None) -> bytes:
        while not self._out:
            self._wakeup = anyio.Event()
            await self._wakeup.wait()
        data, self._out = self._out[:max_bytes], self._out[max_bytes:]
        return data

    async def aclose(self) -> None:
        pass

    def get_extra_info(self, info: str) -> typing.Any:
        return False if info == "is_readable" else None


async def main() -> int:
    server = GatedH2Server()
    origin = httpcore.Origin(b"https", b"example.com", 443)
    results: typing.Dict[str, str] = {}

    async def get(conn, name: str) -> None:
        try:
            response = await conn.request("GET", f"https://example.com/{name}")
            results[name] = f"response {response.status}"
        except Exception as exc:
            results[name] = f"{type(exc).__name__}: {exc}"

    async def upload(conn) -> None:
        async def body() -> typing.AsyncIterator[bytes]:
            server.hold = True  # from now on the network is "full"
            yield b"payload"

        try:
            response = await conn.request(
                "POST", "https://example.com/c", content=body()
            )
            results["c"] = f"response {response.status}"
        except Exception as exc:
            results["c"] = f"{type(exc).__name__}: {exc}"

    async with httpcore.AsyncHTTP2Connection(origin=origin, stream=server) as conn:
        await get(conn, "warmup")  # handshake done, server settings known

        async with anyio.create_task_group() as tg:
            tg.start_soon(upload, conn)
            await server.write_pending.wait()  # C holds the write lock, stuck
            server.write_pending = anyio.Event()

            scope_a = anyio.CancelScope()

            async def task_a() -> None:
                with scope_a:
                    await get(conn, "a")

            tg.start_soon(task_a)
            await anyio.wait_all_tasks_blocked()  # A: HEADERS queued, waits for lock
            tg.start_soon(get, conn, "b")
            await anyio.wait_all_tasks_blocked()  # B: HEADERS queued, waits behind A

            server.gate.set()  # C's DATA goes out; A takes everything queued ...
            await server.write_pending.wait()  # ... and is stuck in the network
            scope_a.cancel()  # A's caller gives up
            await anyio.wait_all_tasks_blocked()
            server.hold = False
            server.gate.set()

            with anyio.move_on_after(2):
                while "b" not in results or "c" not in results:
                    await anyio.sleep(0.05)
            await get(conn, "d")
            tg.cancel_scope.cancel()

    print("results for the callers:", results)
    print("requests decoded by the server:", server.paths)
    print("server-side decoding errors:", server.errors)
    bad = []
    # a request may fail - but then its caller must be told; it must never be lost silently, and the connection must not go
    # on carrying requests that the peer can no longer decode
    for name in ("b", "d"):
        reached = ("/" + name).encode() in server.paths
        told = not results.get(name, "").startswith("response")
        if not reached and not told:
            bad.append(f"GET /{name} did not reach the server and its caller was not told")
        if not reached and name in results and results[name].startswith(("ReadTimeout", "RemoteProtocolError", "ConnectionNotAvailable")) :
            bad.append(f"GET /{name} was lost with the cancelled write of another request and surfaced only as {results[name]}")
    if server.errors:
        bad.append(f"the connection kept being used after frames were lost: the server could not decode {server.errors}")
    for line in bad:
        print("DEFECT-REPRODUCED:", line)
    if not bad:
        print("not reproduced")
    return 1 if bad else 0


if __name__ == "__main__":
    sys.exit(anyio.run(main))
