"""
Pre-existing (unchanged library): a queued request that is cancelled just as the
pool assigns it a NEWLY CREATED connection is handled by
AsyncConnectionPool._release_unused_connection() - but only for connections that
report is_available() == False.  With http2=True and an https origin a connection
that has not been established yet reports is_available() == True (it "may become
HTTP/2"), so the orphan is kept: it stays in the pool as "CONNECTING" for ever
(nobody is going to establish it), is not idle, never expires and is not closed.
With max_connections=1 a request for another origin then blocks for ever.

(Plain asyncio task.cancel() is used: it is delivered even if the awaited event
has been set in the same loop iteration; anyio scopes skip such tasks.)
"""
import sys, os
sys.path.insert(0, os.getcwd())
import asyncio
import httpcore

RESP = [b"HTTP/1.1 200 OK\r\n", b"Content-Length: 2\r\n", b"\r\n", b"ok"]


async def main():
    backend = httpcore.AsyncMockBackend(RESP)  # negotiates http/1.1
    pool = httpcore.AsyncConnectionPool(network_backend=backend, http2=True, max_connections=1)

    async with pool.stream("GET", "https://a.example/") as r1:
        r2 = asyncio.ensure_future(pool.request("GET", "https://b.example/"))
        while len(pool._requests) < 2:
            await asyncio.sleep(0)
        assert pool._requests[1].is_queued()
        await r1.aread()
    # r1 closed: the a.example connection was evicted, a new connection for
    # b.example was created and assigned to r2, which has not run yet.
    r2.cancel()
    try:
        await r2
    except asyncio.CancelledError:
        pass
    print("after:", pool, pool.connections)
    try:
        await pool.request("GET", "https://c.example/", extensions={"timeout": {"pool": 0.5}})
    except httpcore.PoolTimeout:
        print("FAIL: PoolTimeout for another origin; stuck connection:", pool.connections)
        sys.exit(1)
    print("PASS")

asyncio.run(main())
