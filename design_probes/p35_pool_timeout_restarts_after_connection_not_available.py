import sys, os; sys.path.insert(0, os.getcwd())

"""
Pre-existing (UNCHANGED library): the pool timeout is re-armed from zero each
time a queued request is handed a connection that then turns out to be
unavailable (ConnectionNotAvailable -> clear_connection() -> wait again with
the FULL pool timeout).  A request can therefore sit in the queue for longer
than its pool timeout before PoolTimeout is raised ("not later" is violated).

Real time, scaled down (pool timeout 1.0 s, hand-over at 0.6 s): the library measures the pool timeout with time.monotonic().

  t=0   A  : GET, streaming response kept open (pool max_connections=1)
  t=0   B  : GET with pool timeout 10  -> queued
  t=6   A closes its response; the idle connection is assigned to B, but
        before B's task runs the same task issues request C, which is handed
        the same (still IDLE) connection and wins the race for it.
        B gets ConnectionNotAvailable, is re-queued, waits ANOTHER 10s.
  t=16  B raises PoolTimeout (expected by the property: t=10).
"""

import trio
import trio.testing

import httpcore

RESPONSE = [
    b"HTTP/1.1 200 OK\r\n",
    b"Content-Length: 2\r\n",
    b"\r\n",
    b"ok",
]


async def main() -> int:
    result = {}
    backend = httpcore.AsyncMockBackend(RESPONSE * 3)

    async with httpcore.AsyncConnectionPool(
        network_backend=backend, max_connections=1
    ) as pool:

        async def request_b() -> None:
            t0 = trio.current_time()
            try:
                await pool.request(
                    "GET",
                    "http://example.com/b",
                    extensions={"timeout": {"pool": 1.0}},
                )
                result["b"] = ("response", trio.current_time() - t0)
            except httpcore.PoolTimeout:
                result["b"] = ("PoolTimeout", trio.current_time() - t0)

        async with trio.open_nursery() as nursery:
            # A: take the only connection and keep the response open.
            cm_a = pool.stream("GET", "http://example.com/a")
            response_a = await cm_a.__aenter__()
            nursery.start_soon(request_b)
            await trio.sleep(0.6)
            # A finishes at t=6 (body fully read, so the connection goes IDLE) ...
            await response_a.aread()
            await cm_a.__aexit__(None, None, None)
            # ... and the same task immediately issues C, keeping it open.
            cm_c = pool.stream("GET", "http://example.com/c")
            await cm_c.__aenter__()
            await trio.sleep(3)
            await cm_c.__aexit__(None, None, None)

    outcome, waited = result["b"]
    print(f"B: {outcome} after {waited:.2f}s in the queue; pool timeout was 1.0s")
    if outcome == "PoolTimeout" and abs(waited - 1.0) < 0.25:
        print("not reproduced")
        return 0
    print("DEFECT-REPRODUCED: PoolTimeout is late (timeout restarted after ConnectionNotAvailable)")
    return 1


if __name__ == "__main__":
    sys.exit(trio.run(main))
