"""SOCKS twin of p26: a request from an already-cancelled scope is cancelled while acquiring the
_connect_lock of the Socks5Connection the pool just created for it."""
import anyio, httpcore, sys

async def main():
    b = httpcore.AsyncMockBackend([b"\x05\x00", b"\x05\x00\x00\x01\xff\x00\x00\x01\x00\x50", b"HTTP/1.1 200 OK\r\nContent-Length: 0\r\n\r\n"])
    async with httpcore.AsyncSOCKSProxy(proxy_url="socks5://localhost:1080/", network_backend=b, max_connections=1) as pool:
        with anyio.CancelScope() as scope:
            scope.cancel()
            await pool.request("GET", "http://example.com/")
        print("after the cancelled request:", pool.connections)
        try:
            r = await pool.request("GET", "http://example.org/", extensions={"timeout": {"pool": 0.3}})
            out = r.status
        except Exception as e:
            out = type(e).__name__
        print("next request:", out)
    bad = out != 200
    print("DEFECT-REPRODUCED" if bad else "not reproduced")
    return 1 if bad else 0

sys.exit(anyio.run(main))
