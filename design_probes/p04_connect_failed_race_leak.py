import anyio, httpcore, hpack, hyperframe.frame as hf
class S(httpcore.AsyncMockStream):
    opened = 0; closed = 0
    async def aclose(self):
        if not self._closed: S.closed += 1
        await super().aclose()
class B(httpcore.AsyncMockBackend):
    def __init__(self, buffer, gate, **kw):
        super().__init__(buffer, **kw); self.gate = gate
    async def connect_tcp(self, host, port, timeout=None, local_address=None, socket_options=None):
        await self.gate.wait()
        S.opened += 1
        return S(list(self._buffer), http2=self._http2)
async def main():
    gate = anyio.Event()
    enc = hpack.Encoder()
    frames = [hf.SettingsFrame().serialize(),
              hf.HeadersFrame(stream_id=1, data=enc.encode([(b":status", b"200")]), flags=["END_HEADERS"]).serialize(),
              hf.DataFrame(stream_id=1, data=b"hi", flags=["END_STREAM"]).serialize()]
    b = B(frames, gate, http2=True)
    pool = httpcore.AsyncConnectionPool(network_backend=b, http2=True, max_connections=1)
    res = {}
    async def A():
        r = await pool.request("GET", "https://example.com/"); res["A"] = r.status
    async def Bt(scope_holder):
        with anyio.CancelScope() as sc:
            scope_holder.append(sc)
            try:
                await pool.request("GET", "https://example.com/")
            finally:
                res["B"] = "cancelled" if sc.cancel_called else "done"
    holder = []
    async with anyio.create_task_group() as tg:
        tg.start_soon(A)
        await anyio.sleep(0.01)
        tg.start_soon(Bt, holder)
        await anyio.sleep(0.01)
        print("before cancel:", pool.connections)
        holder[0].cancel()
        await anyio.sleep(0.01)
        print("after B cancel:", pool.connections)
        gate.set()
        await anyio.sleep(0.05)
    print(res, "pool.connections:", pool.connections, "opened", S.opened, "closed", S.closed)
    await pool.aclose()
    print("after pool close: opened", S.opened, "closed", S.closed)
anyio.run(main)
