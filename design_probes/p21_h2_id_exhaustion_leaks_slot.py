"""KF-h2-stream-id-exhaustion-leaks-slot: when h2 has no stream id left, handle_async_request has
already acquired a stream slot from the semaphore and raises ConnectionNotAvailable without
releasing it (simulated exhaustion: h2's highest_outbound_stream_id set to the maximum)."""
import anyio, httpcore, hyperframe.frame as hf
class S(httpcore.AsyncMockStream):
    async def read(self, max_bytes, timeout=None):
        await anyio.sleep(999); return b""
async def main():
    conn = httpcore.AsyncHTTP2Connection(origin=httpcore.Origin(b"https", b"example.com", 443), stream=S([], http2=True))
    conn._h2_state.highest_outbound_stream_id = 2 ** 31 - 1
    out = []
    for i in range(2):
        try:
            with anyio.fail_after(0.5):
                await conn.request("GET", "https://example.com/")
        except BaseException as e:
            out.append(type(e).__name__)
    sem = conn._max_streams_semaphore._anyio_semaphore
    print("outcomes:", out, "| permits left:", sem.value, "of max_streams", conn._max_streams)
    bad = out[0] == "ConnectionNotAvailable" and sem.value == 0
    print("DEFECT-REPRODUCED" if bad else "not reproduced")
    raise SystemExit(1 if bad else 0)
anyio.run(main)
