"""Candidate finding: two requests share one CONNECTING connection (http2=True, https origin: the pool
hands a second request to a connection that is still being established).  The first request's
connect fails -> _connect_failed = True and the pool drops the connection (is_closed() is True while
_connection is None).  The second request, queued at the connection's _request_lock, then finds
_connection is None, runs _connect again and succeeds - on a connection object the pool no longer
holds.  Its network stream is owned by no pooled connection and pool.aclose() never closes it."""
import anyio, httpcore, hpack, hyperframe.frame as hf, sys

opened, closed = [], []
enc = hpack.Encoder()
FRAMES = [hf.SettingsFrame().serialize(),
          hf.HeadersFrame(stream_id=1, data=enc.encode([(b":status", b"200")]), flags=["END_HEADERS"]).serialize()
          + hf.DataFrame(stream_id=1, data=b"hello", flags=["END_STREAM"]).serialize()]

class S(httpcore.AsyncMockStream):
    async def aclose(self):
        closed.append(self)
        await super().aclose()

class B(httpcore.AsyncMockBackend):
    def __init__(self):
        super().__init__([], http2=True)
        self.calls = 0
    async def connect_tcp(self, host, port, timeout=None, local_address=None, socket_options=None):
        self.calls += 1
        if self.calls == 1:
            await anyio.sleep(0.05)          # long enough for the second request to queue on the same connection
            raise httpcore.ConnectError("first attempt fails")
        s = S(list(FRAMES), http2=True)
        opened.append(s)
        return s

async def main():
    out = {}
    async with httpcore.AsyncConnectionPool(network_backend=B(), http2=True, max_connections=2) as pool:
        async def req(name, delay):
            await anyio.sleep(delay)
            try:
                r = await pool.request("GET", "https://example.com/")
                out[name] = r.status
            except Exception as e:
                out[name] = type(e).__name__
        async with anyio.create_task_group() as tg:
            tg.start_soon(req, "A", 0)
            tg.start_soon(req, "B", 0.01)
        print("outcomes:", out, "| pool.connections:", pool.connections, "| streams opened", len(opened), "closed", len(closed))
    print("after pool.aclose(): opened", len(opened), "closed", len(closed))
    bad = len(opened) > len(closed)
    print("DEFECT-REPRODUCED" if bad else "not reproduced")
    return 1 if bad else 0

sys.exit(anyio.run(main))
