"""KF-cancel-during-establishment-leaks-stream: cancellation delivered at the trace callback
right after connect_tcp returned leaves the opened stream unclosed."""
import anyio, httpcore
opened, closed = [], []

class S(httpcore.AsyncNetworkStream):
    async def read(self, max_bytes, timeout=None): await anyio.sleep(10); return b""
    async def write(self, buffer, timeout=None): pass
    async def aclose(self): closed.append(self)
    async def start_tls(self, *a, **k): return self
    def get_extra_info(self, info): return None

class B(httpcore.AsyncNetworkBackend):
    async def connect_tcp(self, host, port, timeout=None, local_address=None, socket_options=None):
        s = S(); opened.append(s); return s
    async def sleep(self, seconds): pass

async def main():
    scope = anyio.CancelScope()
    async def trace(name, info):
        if name == "connection.connect_tcp.complete":
            scope.cancel()
            await anyio.sleep(0)  # checkpoint: cancellation is delivered here
    async with httpcore.AsyncConnectionPool(network_backend=B()) as pool:
        with scope:
            await pool.request("GET", "http://example.com/", extensions={"trace": trace})
        print("pool after cancel:", pool.connections)
    print("opened", len(opened), "closed", len(closed))
    bad = len(opened) != len(closed)
    print("DEFECT-REPRODUCED" if bad else "not reproduced")
    raise SystemExit(1 if bad else 0)

anyio.run(main)
