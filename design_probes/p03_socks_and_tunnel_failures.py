import httpcore, ssl, typing
# SOCKS malformed reply / timeouts
class RecStream(httpcore.MockStream):
    def __init__(self, buffer, log, **kw):
        super().__init__(buffer, **kw); self.log = log
    def read(self, max_bytes, timeout=None):
        self.log.append(("read", timeout)); return super().read(max_bytes, timeout)
    def write(self, buffer, timeout=None):
        self.log.append(("write", timeout, bytes(buffer)[:20]))
    def close(self):
        self.log.append(("close",)); super().close()
    def start_tls(self, ssl_context, server_hostname=None, timeout=None):
        self.log.append(("start_tls", server_hostname, timeout))
        if getattr(self, "fail_tls", False):
            self.close()
            raise httpcore.ConnectError("tls failed")
        return self
class RecBackend(httpcore.MockBackend):
    def __init__(self, buffer, fail_tls=False, **kw):
        super().__init__(buffer, **kw); self.log = []; self.fail_tls = fail_tls
    def connect_tcp(self, host, port, timeout=None, local_address=None, socket_options=None):
        self.log.append(("connect_tcp", host, port, timeout))
        s = RecStream(list(self._buffer), self.log, http2=self._http2); s.fail_tls = self.fail_tls
        return s
T = {"timeout": {"connect": 1.0, "read": 2.0, "write": 3.0, "pool": 4.0}}
def attempt(pool, url="https://example.com/"):
    try:
        r = pool.request("GET", url, extensions=dict(T))
        print("OK", r.status)
    except BaseException as e:
        print("EXC", type(e).__module__, type(e).__name__, e)
    print("  conns:", pool.connections, repr(pool))

print("--- socks malformed auth reply")
b = RecBackend([b"\x05"])
with httpcore.SOCKSProxy("socks5://localhost:1080", network_backend=b) as p:
    attempt(p)
    print("  log", b.log)
print("--- socks ok, show timeouts")
b = RecBackend([b"\x05\x00", b"\x05\x00\x00\x01\xff\x00\x00\x01\x00\x50", b"HTTP/1.1 200 OK\r\nContent-Length: 0\r\n\r\n"])
with httpcore.SOCKSProxy("socks5://localhost:1080", network_backend=b) as p:
    attempt(p, "http://example.com/")
    print("  log", b.log)
print("--- socks refused -> stream closed?")
b = RecBackend([b"\x05\x00", b"\x05\x05\x00\x01\xff\x00\x00\x01\x00\x50"])
with httpcore.SOCKSProxy("socks5://localhost:1080", network_backend=b) as p:
    attempt(p, "http://example.com/")
    attempt(p, "http://example.org/")
print("  log", b.log)
print("--- tunnel: CONNECT ok then TLS fails")
b = RecBackend([b"HTTP/1.1 200 OK\r\n\r\n"], fail_tls=True)
with httpcore.HTTPProxy("http://localhost:8080", network_backend=b, max_connections=1) as p:
    attempt(p)
    print("  log", b.log)
    b.fail_tls = False
    try:
        r = p.request("GET", "https://example.org/", extensions={"timeout": {"pool": 0.05}})
    except BaseException as e:
        print("EXC2", type(e).__name__)
    print("  conns:", p.connections)
