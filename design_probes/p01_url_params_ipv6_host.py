import httpcore
from httpcore._models import include_request_headers
u = httpcore.URL("http://[::1]:8080/p")
print("ipv6:", u, bytes(u))
print(include_request_headers([], url=u, content=None))
u = httpcore.URL("http://[::1]/p"); print(include_request_headers([], url=u, content=None), bytes(u))
u = httpcore.URL("HTTP://User:pw@EXAMPLE.com:80/p?"); print(u, u.origin)
print(httpcore.URL("http://example.com:0/").origin)
print(httpcore.URL("http://example.com").target, httpcore.URL("http://example.com?x=1"))
print(httpcore.URL("http://example.com/p").origin == httpcore.URL("http://example.com:80/p").origin)
print(httpcore.URL("HTTP://example.com/p").scheme)
