"""
Pre-existing (UNCHANGED library): the caller's `target` request extension is
applied to the proxy-hop request as well, because the proxy connections build
their CONNECT / forwarded request with `extensions=request.extensions` and
`Request.__init__` rewrites `url.target` from that extension.

 * tunnelling proxy: the CONNECT names the caller's target instead of host:port
 * forwarding proxy: the request line is origin-form instead of the absolute URL

Exits 1 and prints what was seen when the defect is present, 0 otherwise.
"""
import sys, os

sys.path.insert(0, os.getcwd())

import httpcore


class RecStream(httpcore.MockStream):
    def __init__(self, buffer, log):
        super().__init__(buffer)
        self._log = log

    def write(self, buffer, timeout=None):
        self._log.append(bytes(buffer))


class RecBackend(httpcore.MockBackend):
    def __init__(self, buffer):
        super().__init__(buffer)
        self.log = []

    def connect_tcp(self, host, port, timeout=None, local_address=None, socket_options=None):
        return RecStream(list(self._buffer), self.log)


bad = []

# 1. tunnel
backend = RecBackend(
    [
        b"HTTP/1.1 200 OK\r\n\r\n",
        b"HTTP/1.1 200 OK\r\nContent-Length: 0\r\n\r\n",
    ]
)
with httpcore.ConnectionPool(
    proxy=httpcore.Proxy("http://127.0.0.1:8080/"), network_backend=backend
) as pool:
    pool.request("GET", "https://example.com/", extensions={"target": b"/secret/path?token=abc"})
first_line = b"".join(backend.log).split(b"\r\n")[0]
print("tunnel, first line on the proxy hop :", first_line)
if first_line != b"CONNECT example.com:443 HTTP/1.1":
    bad.append("CONNECT does not name exactly host:port: %r" % first_line)

# 2. forward
backend = RecBackend([b"HTTP/1.1 200 OK\r\nContent-Length: 0\r\n\r\n"])
with httpcore.ConnectionPool(
    proxy=httpcore.Proxy("http://127.0.0.1:8080/"), network_backend=backend
) as pool:
    pool.request("GET", "http://example.com/", extensions={"target": b"/a%2Fb"})
first_line = b"".join(backend.log).split(b"\r\n")[0]
print("forward, request line               :", first_line)
if not first_line.startswith(b"GET http://example.com"):
    bad.append("forwarded request line is not absolute-form: %r" % first_line)

if bad:
    print("PRE-EXISTING VIOLATION:")
    for b in bad:
        print("  -", b)
    sys.exit(1)
print("not reproduced")
