"""
Pre-existing (UNCHANGED library): HTTP/2 deadlock when the server lowers
SETTINGS_MAX_CONCURRENT_STREAMS below the number of streams in flight.

AsyncHTTP2Connection._receive_remote_settings_change() acquires the stream
semaphore (old_max - new_max) times *while holding the read lock*. If more than
`new_max` streams are active, the acquire blocks until a stream finishes - but
no stream can finish, because finishing needs the read lock. No timeout applies
to a semaphore acquire, so both calls hang for ever, even though the server's
byte stream has ended (the mock stream would return b"" on the next read, which
normally gives RemoteProtocolError("Server disconnected")).

Exits 0 if both requests fail with a documented exception, 1 on the hang.
"""
import sys, os

sys.path.insert(0, os.getcwd())

import anyio
import hyperframe.frame

import httpcore


def settings(n):
    return hyperframe.frame.SettingsFrame(
        settings={hyperframe.frame.SettingsFrame.MAX_CONCURRENT_STREAMS: n}
    ).serialize()


async def main() -> int:
    origin = httpcore.Origin(b"https", b"example.com", 443)
    stream = httpcore.AsyncMockStream([settings(100), settings(1)])
    results = {}

    async def req(i):
        try:
            await conn.request("GET", "https://example.com/")
            results[i] = "response"
        except Exception as exc:
            results[i] = f"{type(exc).__name__}: {exc}"

    async with httpcore.AsyncHTTP2Connection(origin=origin, stream=stream) as conn:
        with anyio.move_on_after(5) as scope:
            async with anyio.create_task_group() as tg:
                tg.start_soon(req, 1)
                tg.start_soon(req, 2)
        print("results:", results)
        if scope.cancelled_caught:
            print("HANG: requests still blocked after 5s although the input ended")
            return 1
    return 0


sys.exit(anyio.run(main))
