"""
PRE-EXISTING (unchanged library): a pool slot is lost for ever when a queued
request's pool timeout fires at the moment another thread assigns it a newly
created connection.

ConnectionPool.handle_request: the waiting thread R raises PoolTimeout out of
`wait_for_connection()` and then has to take the pool lock to remove itself
from the queue.  If thread A (closing its response) holds the lock at that
moment and - inside `_assign_requests_to_connections()` - creates a NEW
connection for R, that connection stays in `pool._connections` in the
"CONNECTING" state: nobody will ever call handle_request() on it, it is not
idle, not expired, not closed.  With max_connections=1 the pool is wedged:
every later request waits for ever (or gets PoolTimeout).

`create_connection()` is overridden only to hold thread A inside the locked
region until R's pool timeout (0.3 s) has fired.
Exit status 1 + message when reproduced, 0 otherwise.
"""
import sys, os; sys.path.insert(0, os.getcwd())  # noqa: E702

import threading
import time

import httpcore

RESPONSE_CLOSE = [
    b"HTTP/1.1 200 OK\r\n",
    b"Content-Length: 5\r\n",
    b"Connection: close\r\n",
    b"\r\n",
    b"hello",
]


class SlowCreatePool(httpcore.ConnectionPool):
    slow = False

    def create_connection(self, origin):
        if self.slow:
            time.sleep(0.8)  # > R's pool timeout: R is now waiting for the lock
        return super().create_connection(origin)


def main():
    pool = SlowCreatePool(
        max_connections=1, network_backend=httpcore.MockBackend(RESPONSE_CLOSE)
    )
    results = {}
    a_ready = threading.Event()
    a_may_close = threading.Event()

    def thread_a():
        with pool.stream("GET", "http://x.test/") as response:
            response.read()
            a_ready.set()
            a_may_close.wait(10)
        results["A"] = response.status

    def thread_r():
        try:
            results["R"] = pool.request(
                "GET", "http://x.test/", extensions={"timeout": {"pool": 0.3}}
            ).status
        except BaseException as exc:  # noqa: BLE001
            results["R"] = exc

    ta = threading.Thread(target=thread_a, daemon=True)
    ta.start()
    assert a_ready.wait(10)

    pool.slow = True
    tr = threading.Thread(target=thread_r, daemon=True)
    tr.start()
    while "1 queued" not in repr(pool):
        time.sleep(0.005)
    a_may_close.set()
    ta.join(10)
    tr.join(10)
    pool.slow = False

    print("results:", results)
    print("pool:", repr(pool), pool.connections)

    # The pool is completely quiet now.  A fresh request must go through.
    try:
        status = pool.request(
            "GET", "http://x.test/", extensions={"timeout": {"pool": 2.0}}
        ).status
        print("follow-up request:", status)
        print("not reproduced")
        return 0
    except httpcore.PoolTimeout:
        print(
            "PRE-EXISTING DEFECT REPRODUCED: the pool has no request in flight "
            f"but its only slot is occupied for ever: {pool.connections!r}"
        )
        return 1


if __name__ == "__main__":
    code = main()
    sys.stdout.flush()
    os._exit(code)
