import sys, os; sys.path.insert(0, os.getcwd())

"""
Pre-existing (UNCHANGED library) violation of C05.

A request that is queued on a full pool is handed a *freshly created*
connection by `_assign_requests_to_connections()` (run by whoever released the
slot).  If that waiting request is then cancelled by a *native asyncio*
cancellation (`task.cancel()`, `asyncio.wait_for`, `asyncio.timeout`) before it
has resumed from `wait_for_connection()`, the CancelledError is raised out of
the event wait although `pool_request.connection` is already set.  The
exception handler in `handle_async_request` only removes the request; the new
connection object, which nobody has ever called `handle_async_request` on,
stays in the pool as "CONNECTING" for ever: not available, not idle, not
expired, not closed.  With max_connections=1 the pool is dead.

(anyio/trio cancel scopes do not hit this, because they do not deliver the
cancellation to a task whose wake-up is already scheduled; the task then fails
at the next checkpoint *inside* connection.handle_async_request, which marks
the connection as failed.)

Exits 0 and prints PRE-EXISTING VIOLATION REPRODUCED when the problem shows.
"""

import asyncio

import httpcore

RESPONSE = [
    b"HTTP/1.1 200 OK\r\n",
    b"Content-Type: plain/text\r\n",
    b"Content-Length: 13\r\n",
    b"\r\n",
    b"Hello, world!",
]


async def main():
    backend = httpcore.AsyncMockBackend(list(RESPONSE))
    async with httpcore.AsyncConnectionPool(
        network_backend=backend, max_connections=1
    ) as pool:
        # A takes the only slot.
        req_a = httpcore.Request("GET", "http://example.com/", headers={"Host": "example.com"})
        resp_a = await pool.handle_async_request(req_a)

        # B queues up behind it.
        task_b = asyncio.ensure_future(pool.request("GET", "http://example.com/"))
        for _ in range(5):
            await asyncio.sleep(0)
        print("B queued:          ", repr(pool))

        # A lets go: its connection is closed (body unread), a new connection is
        # created for B and B's event is set - B has not run yet.
        await resp_a.aclose()
        print("A closed:          ", repr(pool), pool.connections)
        # B is cancelled before it gets to run.
        task_b.cancel()
        try:
            await task_b
        except asyncio.CancelledError:
            pass

        print("B cancelled:       ", repr(pool), pool.connections)
        stuck = [
            c
            for c in pool.connections
            if not (c.is_available() or c.is_idle() or c.is_closed() or c.has_expired())
        ]
        starved = False
        try:
            await pool.request(
                "GET", "http://example.com/", extensions={"timeout": {"pool": 1.0}}
            )
        except httpcore.PoolTimeout:
            starved = True
        print("follow-up starved: ", starved, "| requests counted:", len(pool._requests))
        return bool(stuck) and starved


if asyncio.run(main()):
    print("PRE-EXISTING VIOLATION REPRODUCED")
    sys.exit(0)
print("not reproduced")
sys.exit(1)
