"""
Pre-existing (UNCHANGED library, sync/threaded API): an HTTP/2 connection
reports IDLE - and starts its keep-alive expiry clock - while a request is in
flight, if that request was queued for a stream slot when the previous stream
completed.

HTTP2Connection._response_closed() releases the max-streams semaphore and then
decides "idle" from `not self._events`; a request that was blocked on that
semaphore has no entry in `_events` until its thread gets to run, which with
threads is practically always *after* the closing thread has finished (the
async variants happen to be saved by the checkpoint in `async with
self._state_lock`).  A pool then sees has_expired()/is_idle() on a busy
connection and closes it under the running stream.

Exit status 1 and a DEFECT line when the behaviour shows, 0 otherwise.
"""
import sys, os; sys.path.insert(0, os.getcwd())
import threading, time
import h2.config, h2.connection, h2.events, h2.settings
import httpcore


class Server(httpcore.NetworkStream):
    """In-memory HTTP/2 server allowing one concurrent stream; answers on demand."""
    def __init__(self):
        self.srv = h2.connection.H2Connection(
            config=h2.config.H2Configuration(client_side=False, header_encoding="utf-8"))
        self.srv.local_settings = h2.settings.Settings(
            client=False,
            initial_values={h2.settings.SettingCodes.MAX_CONCURRENT_STREAMS: 1})
        self.srv.initiate_connection()
        self.cond = threading.Condition()
        self.outbox = bytearray(self.srv.data_to_send())
        self.pending = {}
        self.closed = False
    def read(self, max_bytes, timeout=None):
        with self.cond:
            while not self.outbox:
                if self.closed:
                    raise httpcore.ReadError("closed")
                self.cond.wait()
            data = bytes(self.outbox[:max_bytes]); del self.outbox[:max_bytes]
            return data
    def write(self, buffer, timeout=None):
        with self.cond:
            for ev in self.srv.receive_data(buffer):
                if isinstance(ev, h2.events.RequestReceived):
                    self.pending[dict(ev.headers)[":path"]] = ev.stream_id
            self.outbox += self.srv.data_to_send()
            self.cond.notify_all()
    def wait_for_request(self, path):
        with self.cond:
            assert self.cond.wait_for(lambda: path in self.pending, 10), path
    def answer(self, path):
        with self.cond:
            sid = self.pending.pop(path)
            self.srv.send_headers(sid, [(":status", "200")])
            self.srv.send_data(sid, path.encode(), end_stream=True)
            self.outbox += self.srv.data_to_send()
            self.cond.notify_all()
    def close(self):
        with self.cond:
            self.closed = True; self.cond.notify_all()
    def get_extra_info(self, info):
        return None


def main():
    server = Server()
    origin = httpcore.Origin(b"https", b"example.com", 443)
    conn = httpcore.HTTP2Connection(origin=origin, stream=server, keepalive_expiry=0.05)
    results = {}
    def get(path):
        try:
            r = conn.request("GET", "https://example.com" + path)
            results[path] = (r.status, r.content)
        except Exception as exc:
            results[path] = exc
    t1 = threading.Thread(target=get, args=("/one",), daemon=True); t1.start()
    server.wait_for_request("/one")
    t2 = threading.Thread(target=get, args=("/two",), daemon=True); t2.start()
    time.sleep(0.3)                      # /two is now queued for the only stream slot
    assert "/two" not in server.pending
    server.answer("/one")
    server.wait_for_request("/two")      # /two is in flight, unanswered
    t1.join(10)
    time.sleep(0.1)                      # > keepalive_expiry
    bad = []
    if conn.is_idle():
        bad.append("is_idle() is True while /two is in flight: " + conn.info())
    if conn.has_expired():
        bad.append("has_expired() is True while /two is in flight "
                   "(a pool would now close the connection under that stream)")
    server.answer("/two")
    t2.join(10)
    for b in bad:
        print("DEFECT:", b)
    print(results)
    return 1 if bad else 0

rc = main(); sys.stdout.flush(); os._exit(rc)
