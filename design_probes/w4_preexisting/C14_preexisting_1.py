"""
Observation on the UNCHANGED library (not used as one of the changes):
after a graceful GOAWAY(last_stream_id=1), stream 1 is covered and the server
goes on to finish it, but the client aborts stream 1 with RemoteProtocolError
as soon as it needs another network read (AsyncHTTP2Connection._receive_events
raises for every stream once a GOAWAY has been stored).  So "earlier streams
may finish" only holds for data that arrived in the same read as the GOAWAY.
The failure is reported and nothing is re-sent, so at-most-once still holds.

Prints what happens; exits 0 either way.
"""
import sys, os

sys.path.insert(0, os.getcwd())

import anyio
import hpack
import hyperframe.frame

import httpcore


async def main():
    stream = httpcore.AsyncMockStream(
        [
            hyperframe.frame.SettingsFrame().serialize(),
            hyperframe.frame.HeadersFrame(
                stream_id=1,
                data=hpack.Encoder().encode([(b":status", b"200")]),
                flags=["END_HEADERS"],
            ).serialize(),
            # graceful shutdown, stream 1 is covered ...
            hyperframe.frame.GoAwayFrame(
                stream_id=0, error_code=0, last_stream_id=1
            ).serialize(),
            # ... and the server completes it (separate TCP segment).
            hyperframe.frame.DataFrame(
                stream_id=1, data=b"Hello, world!", flags=["END_STREAM"]
            ).serialize(),
        ]
    )
    origin = httpcore.Origin(b"https", b"example.com", 443)
    async with httpcore.AsyncHTTP2Connection(origin=origin, stream=stream) as conn:
        try:
            response = await conn.request("GET", "https://example.com/")
            print("stream 1 finished:", response.status, response.content)
        except httpcore.RemoteProtocolError as exc:
            print("stream 1 (covered by GOAWAY) was aborted:", repr(exc))


anyio.run(main)
