import sys, os; sys.path.insert(0, os.getcwd())

"""
Pre-existing (UNCHANGED library) violation of C07's "nobody is blocked for ever
against a server that answers every request".

HTTP/2: the server first announces MAX_CONCURRENT_STREAMS=100, two requests are
started on the connection, then the server sends a SETTINGS frame lowering
MAX_CONCURRENT_STREAMS to 1, immediately followed by the complete responses to
BOTH requests.

AsyncHTTP2Connection._receive_remote_settings_change() shrinks the stream
semaphore by *acquiring* it (100 - 1 = 99 times) while it holds `_read_lock`.
Two slots are held by the two in-flight streams, so the 99th acquire blocks for
ever: the task doing it is itself one of the two streams (so it never closes its
stream), and the other stream is parked on `_read_lock`.  Both responses are
sitting in the socket buffer; neither request ever returns.  No read timeout
can fire either - nobody is reading.

Exit status 1 + "HANG" when reproduced, 0 + "no hang" otherwise.
"""

import anyio
import hpack
import hyperframe.frame

import httpcore

MAX_CONCURRENT_STREAMS = 0x03


def headers(stream_id: int) -> bytes:
    return hyperframe.frame.HeadersFrame(
        stream_id=stream_id,
        data=hpack.Encoder().encode([(b":status", b"200")]),
        flags=["END_HEADERS", "END_STREAM"],
    ).serialize()


class Stream(httpcore.AsyncNetworkStream):
    def __init__(self) -> None:
        self.release_second_chunk = anyio.Event()
        self.chunks = [
            hyperframe.frame.SettingsFrame(
                settings={MAX_CONCURRENT_STREAMS: 100}
            ).serialize(),
            hyperframe.frame.SettingsFrame(
                settings={MAX_CONCURRENT_STREAMS: 1}
            ).serialize()
            + headers(1)
            + headers(3),
        ]
        self.reads = 0

    async def read(self, max_bytes, timeout=None):
        self.reads += 1
        if self.reads == 2:
            await self.release_second_chunk.wait()
        if self.chunks:
            return self.chunks.pop(0)
        await anyio.sleep_forever()

    async def write(self, buffer, timeout=None):
        pass

    async def aclose(self):
        pass

    def get_extra_info(self, info):
        return None


async def main() -> int:
    origin = httpcore.Origin(b"https", b"example.com", 443)
    stream = Stream()
    done = []

    async with httpcore.AsyncHTTP2Connection(origin=origin, stream=stream) as conn:

        async def fetch(name: str) -> None:
            response = await conn.request("GET", "https://example.com/")
            done.append((name, response.status))

        async with anyio.create_task_group() as tg:
            tg.start_soon(fetch, "A")
            tg.start_soon(fetch, "B")
            # Both streams are open (A is parked in the 2nd read, B on the read lock).
            await anyio.wait_all_tasks_blocked()
            assert len(conn._events) == 2, conn._events
            stream.release_second_chunk.set()

            with anyio.move_on_after(3) as guard:
                while len(done) < 2:
                    await anyio.sleep(0.01)
            if guard.cancelled_caught:
                print(
                    f"HANG: completed={done!r}, open streams={sorted(conn._events)}, "
                    f"unread bytes left in 'socket'={sum(map(len, stream.chunks))}, "
                    f"network reads={stream.reads}"
                )
                tg.cancel_scope.cancel()
                return 1
    print(f"no hang: {done!r}")
    return 0


if __name__ == "__main__":
    sys.exit(anyio.run(main))
