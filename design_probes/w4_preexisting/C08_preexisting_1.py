"""
PRE-EXISTING (unchanged library): an HTTP/2 connection is reported IDLE - and
is then evicted and closed by the pool - while another thread's request has
already been admitted to it.

HTTP2Connection.handle_request marks the connection ACTIVE under the state
lock, but only registers its stream in `self._events` after it obtained a
stream slot from `_max_streams_semaphore`.  HTTP2Connection._response_closed
decides "no more streams -> IDLE" by looking at `self._events` only.  A thread
waiting for a stream slot (server MAX_CONCURRENT_STREAMS=1 here) is therefore
invisible: when the thread that owns the only stream closes its response, the
connection flips to IDLE, the pool (max_connections=1, another thread queued
for a different origin) evicts and closes it, and the admitted request fails.

Exit status 1 + message when the defect is reproduced, 0 otherwise.
`sys.setswitchinterval` is only used to make the closing thread run through
without being pre-empted (it never blocks on that path).
"""
import sys, os; sys.path.insert(0, os.getcwd())  # noqa: E702

import queue
import threading
import time

import h2.config
import h2.connection
import h2.events
import h2.settings

import httpcore

TIMEOUT = 10.0


def wait_until(predicate, timeout=TIMEOUT):
    deadline = time.monotonic() + timeout
    while time.monotonic() < deadline:
        if predicate():
            return True
        time.sleep(0.005)
    return predicate()


class H2ServerStream(httpcore.NetworkStream):
    def __init__(self):
        self._srv = h2.connection.H2Connection(
            config=h2.config.H2Configuration(client_side=False)
        )
        self._srv.local_settings = h2.settings.Settings(
            client=False,
            initial_values={h2.settings.SettingCodes.MAX_CONCURRENT_STREAMS: 1},
        )
        self._lock = threading.Lock()
        self._to_client = queue.Queue()
        self.closed = False
        self._srv.initiate_connection()
        self._flush()

    def _flush(self):
        data = self._srv.data_to_send()
        if data:
            self._to_client.put(data)

    def read(self, max_bytes, timeout=None):
        if self.closed:
            raise httpcore.ReadError("closed")
        data = self._to_client.get()
        if data is None:
            self._to_client.put(None)
            return b""
        return data

    def write(self, buffer, timeout=None):
        if self.closed:
            raise httpcore.WriteError("closed")
        with self._lock:
            for event in self._srv.receive_data(buffer):
                if isinstance(event, h2.events.RequestReceived):
                    self._srv.send_headers(event.stream_id, [(b":status", b"200")])
                    self._srv.send_data(event.stream_id, b"hello", end_stream=True)
            self._flush()

    def close(self):
        self.closed = True
        self._to_client.put(None)

    def get_extra_info(self, info):
        return None


class Backend(httpcore.NetworkBackend):
    def connect_tcp(self, host, port, timeout=None, local_address=None,
                    socket_options=None):
        return H2ServerStream()


def main():
    pool = httpcore.ConnectionPool(
        http1=False, http2=True, max_connections=1, network_backend=Backend()
    )
    results = {}
    a_ready = threading.Event()
    a_may_close = threading.Event()

    def thread_a():
        try:
            with pool.stream("GET", "http://x.test/a") as response:
                response.read()
                a_ready.set()
                a_may_close.wait(TIMEOUT)
            results["A"] = response.status
        except BaseException as exc:  # noqa: BLE001
            results["A"] = exc

    def fetch(name, url):
        try:
            results[name] = pool.request("GET", url).status
        except BaseException as exc:  # noqa: BLE001
            results[name] = exc

    ta = threading.Thread(target=thread_a, daemon=True)
    ta.start()
    assert a_ready.wait(TIMEOUT)

    # B is admitted to the same connection and waits for a stream slot.
    tb = threading.Thread(target=fetch, args=("B", "http://x.test/b"), daemon=True)
    tb.start()
    assert wait_until(lambda: "Request Count: 2" in repr(pool.connections)), repr(
        pool.connections
    )

    # D wants another origin: queued, the pool is full and C is ACTIVE.
    td = threading.Thread(target=fetch, args=("D", "http://y.test/"), daemon=True)
    td.start()
    assert wait_until(lambda: "1 queued" in repr(pool)), repr(pool)

    sys.setswitchinterval(2.0)
    a_may_close.set()
    for t in (ta, tb, td):
        t.join(TIMEOUT)
    sys.setswitchinterval(0.005)

    print("results:", results)
    if isinstance(results.get("B"), BaseException):
        print(
            "PRE-EXISTING DEFECT REPRODUCED: request B to a well-behaved server "
            "failed because the connection it had been admitted to was reported "
            f"idle and evicted by another thread: {results['B']!r}"
        )
        return 1
    print("not reproduced")
    return 0


if __name__ == "__main__":
    code = main()
    sys.stdout.flush()
    os._exit(code)
