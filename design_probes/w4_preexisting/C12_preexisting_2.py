"""
Pre-existing (UNCHANGED library, async API): with a `trace` extension whose
callback yields to the event loop, two concurrent requests on one HTTP/2
connection are given the SAME stream id.

handle_async_request() calls h2's get_next_available_stream_id() (which does
not reserve the id) and only reserves it in send_headers(); in between sits
`async with Trace("send_request_headers", ...)`, which awaits the user's trace
callback.  A second request running in that gap gets the same id, overwrites
`_events[stream_id]`, and the two callers then share / fight over one stream.

Exit status 1 and a DEFECT line when the behaviour shows, 0 otherwise.
"""
import sys, os; sys.path.insert(0, os.getcwd())
import anyio, h2.config, h2.connection, h2.events
import httpcore


class Server(httpcore.AsyncNetworkStream):
    def __init__(self):
        self.srv = h2.connection.H2Connection(
            config=h2.config.H2Configuration(client_side=False, header_encoding="utf-8"))
        self.srv.initiate_connection()
        self.outbox = bytearray(self.srv.data_to_send())
        self.readable = anyio.Event(); self.readable.set()
        self.closed = False
    async def read(self, max_bytes, timeout=None):
        while not self.outbox:
            if self.closed:
                raise httpcore.ReadError("closed")
            self.readable = anyio.Event(); await self.readable.wait()
        data = bytes(self.outbox[:max_bytes]); del self.outbox[:max_bytes]; return data
    async def write(self, buffer, timeout=None):
        for ev in self.srv.receive_data(buffer):
            if isinstance(ev, h2.events.RequestReceived):
                path = dict(ev.headers)[":path"]
                self.srv.send_headers(ev.stream_id, [(":status", "200")])
                self.srv.send_data(ev.stream_id, path.encode(), end_stream=True)
        self.outbox += self.srv.data_to_send(); self.readable.set()
    async def aclose(self):
        self.closed = True; self.readable.set()
    def get_extra_info(self, info):
        return None


async def main():
    server = Server()
    origin = httpcore.Origin(b"https", b"example.com", 443)
    results, ids = {}, {}

    async def get(conn, path):
        async def trace(name, info):
            if name == "http2.send_request_headers.started":
                ids[path] = info["stream_id"]
            await anyio.sleep(0)          # e.g. an async logger / metrics hook
        try:
            r = await conn.request("GET", "https://example.com" + path,
                                   extensions={"trace": trace})
            results[path] = (r.status, r.content)
        except Exception as exc:
            results[path] = exc

    async with httpcore.AsyncHTTP2Connection(origin=origin, stream=server) as conn:
        with anyio.fail_after(20):
            await get(conn, "/warmup")    # SETTINGS processed: 100 streams allowed
            async with anyio.create_task_group() as tg:
                tg.start_soon(get, conn, "/x")
                tg.start_soon(get, conn, "/y")
    print("stream ids:", ids)
    print("results:", results)
    bad = ids.get("/x") == ids.get("/y") or results.get("/x") != (200, b"/x") \
        or results.get("/y") != (200, b"/y")
    if bad:
        print("DEFECT: concurrent requests /x and /y did not get their own streams")
    return 1 if bad else 0

sys.exit(anyio.run(main))
