import sys, os; sys.path.insert(0, os.getcwd())
# Pre-existing (unchanged library): response header fields are not always
# reported exactly as sent, because the underlying h2 / h11 parsers normalise.
#  (a) HTTP/2: h2's default normalize_inbound_headers=True folds multiple
#      "cookie" fields into one (surrounding whitespace is left alone here).
#  (b) HTTP/1.1: h11 collapses a repeated, identical Content-Length field.
import hpack, hyperframe.frame
import httpcore

sent = [(b"x-pad", b"  padded  "), (b"cookie", b"a=1"), (b"cookie", b"b=2")]
frames = [
    hyperframe.frame.SettingsFrame().serialize(),
    hyperframe.frame.HeadersFrame(
        stream_id=1,
        data=hpack.Encoder().encode([(b":status", b"200")] + sent),
        flags=["END_HEADERS", "END_STREAM"],
    ).serialize(),
]
origin = httpcore.Origin(b"https", b"example.com", 443)
with httpcore.HTTP2Connection(origin=origin, stream=httpcore.MockStream(frames)) as c:
    r = c.request("GET", "https://example.com/")
print("h2  sent    :", sent)
print("h2  reported:", r.headers)

buf = [b"HTTP/1.1 200 OK\r\nContent-Length: 5\r\nX-A: 1\r\nContent-Length: 5\r\n\r\nhello"]
with httpcore.ConnectionPool(network_backend=httpcore.MockBackend(buf)) as pool:
    r = pool.request("GET", "http://example.com/")
print("h11 sent    : Content-Length: 5, X-A: 1, Content-Length: 5")
print("h11 reported:", r.headers)
