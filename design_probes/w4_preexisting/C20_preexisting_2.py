"""
Pre-existing (unchanged library, by design): one kind of failure after the
connection was established IS retried. If an HTTP/2 server sends GOAWAY with
last_stream_id lower than the id of a stream that is waiting for its response
headers, the connection raises ConnectionNotAvailable and the pool silently
re-dispatches the request on a new connection (RFC 9113 says such a stream was
not processed, so this is safe - but it contradicts the literal wording "any
failure after the connection was established is never retried", and it is not
bounded by `retries`).  Exits 1 if the behaviour is present.
"""
import sys, os; sys.path.insert(0, os.getcwd())
import asyncio
import hpack, hyperframe.frame
import httpcore

GOAWAY = [hyperframe.frame.SettingsFrame().serialize(),
          hyperframe.frame.GoAwayFrame(stream_id=0, error_code=0, last_stream_id=0).serialize(), b""]
OK = [hyperframe.frame.SettingsFrame().serialize(),
      hyperframe.frame.HeadersFrame(stream_id=1, data=hpack.Encoder().encode([(b":status", b"200")]),
                                    flags=["END_HEADERS", "END_STREAM"]).serialize()]


class Backend(httpcore.AsyncMockBackend):
    def __init__(self):
        super().__init__([], http2=True)
        self.connects = 0
    async def connect_tcp(self, *args, **kwargs):
        self.connects += 1
        return httpcore.AsyncMockStream(list(GOAWAY if self.connects == 1 else OK), http2=True)


async def main():
    backend = Backend()
    async with httpcore.AsyncConnectionPool(network_backend=backend, http2=True, retries=0) as pool:
        r = await pool.request("POST", "https://example.com/", content=b"x")
    print("status", r.status, "connections opened:", backend.connects)
    return 1 if backend.connects > 1 else 0

sys.exit(asyncio.run(main()))
