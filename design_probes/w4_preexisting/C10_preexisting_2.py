"""
Pre-existing (UNCHANGED library): with an *https* proxy, the `sni_hostname`
request extension (meant for the TLS session with the origin) is also applied to
the TLS session with the PROXY, because the CONNECT request is created with
`extensions=request.extensions` and HTTPConnection._connect() reads
`sni_hostname` from whatever request it is given.  The proxy hop is therefore
verified against / sends SNI for the origin's override name instead of the proxy
host.

Exits 1 and prints the server_hostname values when the defect is present.
"""
import sys, os; sys.path.insert(0, os.getcwd())
import httpcore

tls = []


class Stream(httpcore.MockStream):
    def start_tls(self, ssl_context, server_hostname=None, timeout=None):
        tls.append(server_hostname)
        return self


class Backend(httpcore.MockBackend):
    def connect_tcp(self, host, port, **kw):
        return Stream(list(self._buffer))


backend = Backend(
    [
        b"HTTP/1.1 200 OK\r\n\r\n",
        b"HTTP/1.1 200 OK\r\nContent-Length: 2\r\n\r\n",
        b"ok",
    ]
)
with httpcore.ConnectionPool(
    proxy=httpcore.Proxy("https://proxy.corp.test:3129"), network_backend=backend
) as pool:
    pool.request(
        "GET", "https://203.0.113.7/", extensions={"sni_hostname": "origin.example"}
    )

print("server_hostname per TLS handshake (proxy hop, origin hop):", tls)
if tls != ["proxy.corp.test", "origin.example"]:
    print("PRE-EXISTING DEFECT: proxy hop uses the origin's sni_hostname override")
    sys.exit(1)
print("ok")
