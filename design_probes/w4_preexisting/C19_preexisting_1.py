import sys, os; sys.path.insert(0, os.getcwd())
# Observation on the UNCHANGED library (marginal to C19): with a forwarding proxy,
# a request that carries the "target" extension is sent to the proxy in ORIGIN form
# (the extension is re-applied when AsyncForwardHTTPConnection builds its proxy
# Request), so the absolute URL - and with it the port/scheme of the real origin -
# never reaches the proxy in the request line.
import httpcore

class S(httpcore.NetworkStream):
    def __init__(self, log): self.log = log; self.p = []
    def write(self, buffer, timeout=None): self.log.append(bytes(buffer)); self.p.append(b"HTTP/1.1 200 OK\r\nContent-Length: 0\r\n\r\n")
    def read(self, max_bytes, timeout=None): return self.p.pop(0) if self.p else b""
    def close(self): pass
    def get_extra_info(self, info): return None

class B(httpcore.NetworkBackend):
    def __init__(self): self.log = []
    def connect_tcp(self, host, port, timeout=None, local_address=None, socket_options=None): return S(self.log)

b = B()
with httpcore.ConnectionPool(proxy=httpcore.Proxy("http://localhost:8080/"), network_backend=b) as pool:
    pool.request("GET", "http://example.com:8000/path", extensions={"target": b"/un|escaped"})
line = b"".join(b.log).split(b"\r\n")[0]
print(line)
print("absolute-form target sent to proxy:", line.split(b" ")[1].startswith(b"http://"))
