"""
Pre-existing (UNCHANGED library): the `target` request extension leaks into the
CONNECT request that AsyncTunnelHTTPConnection/TunnelHTTPConnection builds,
because that request is created with `extensions=request.extensions` and
`Request.__init__` applies `extensions["target"]` to *any* request.

Consequence: the proxy is asked to open the tunnel to whatever the extension
says instead of to `<remote host>:<remote port>`, while httpcore labels the
resulting connection with the remote origin and writes the request to it.
(With a forward proxy the same leak replaces the absolute-form target by the
origin-form one.)

Exits 1 and prints the CONNECT line when the defect is present.
"""
import sys, os; sys.path.insert(0, os.getcwd())
import httpcore

written = []


class Stream(httpcore.MockStream):
    def write(self, buffer, timeout=None):
        written.append(bytes(buffer))


class Backend(httpcore.MockBackend):
    def connect_tcp(self, host, port, **kw):
        return Stream(list(self._buffer))


backend = Backend(
    [
        b"HTTP/1.1 200 OK\r\n\r\n",
        b"HTTP/1.1 200 OK\r\nContent-Length: 2\r\n\r\n",
        b"ok",
    ]
)
with httpcore.ConnectionPool(
    proxy=httpcore.Proxy("http://127.0.0.1:3128"), network_backend=backend
) as pool:
    r = pool.request(
        "GET",
        "https://example.com/",
        extensions={"target": b"other.example:8443"},
    )
    info = [repr(c) for c in pool.connections]

connect_line = written[0].split(b"\r\n")[0]
print("CONNECT line sent to the proxy:", connect_line)
print("pool thinks:", info)
if connect_line != b"CONNECT example.com:443 HTTP/1.1":
    print("PRE-EXISTING DEFECT: tunnel target taken from the `target` extension")
    sys.exit(1)
print("ok")
