"""
Pre-existing (UNCHANGED library, async API): the server lowering
SETTINGS_MAX_CONCURRENT_STREAMS while that many streams are open wedges every
stream of the connection.

_receive_remote_settings_change() takes slots off the max-streams semaphore with
`await acquire()` while the caller still holds the connection's read lock; if
the open streams already use those slots the acquire can only be satisfied by
a stream completing - which needs the read lock.  Nobody makes progress.

Exit status 1 and a DEFECT line when the behaviour shows, 0 otherwise.
"""
import sys, os; sys.path.insert(0, os.getcwd())
import anyio, h2.config, h2.connection, h2.events, h2.settings
import httpcore


class Server(httpcore.AsyncNetworkStream):
    def __init__(self):
        self.srv = h2.connection.H2Connection(
            config=h2.config.H2Configuration(client_side=False, header_encoding="utf-8"))
        self.srv.initiate_connection()
        self.outbox = bytearray(self.srv.data_to_send())
        self.readable = anyio.Event(); self.readable.set()
        self.pending = {}
        self.hold = False
        self.closed = False
    async def read(self, max_bytes, timeout=None):
        while not self.outbox:
            if self.closed:
                raise httpcore.ReadError("closed")
            self.readable = anyio.Event(); await self.readable.wait()
        data = bytes(self.outbox[:max_bytes]); del self.outbox[:max_bytes]; return data
    async def write(self, buffer, timeout=None):
        for ev in self.srv.receive_data(buffer):
            if isinstance(ev, h2.events.RequestReceived):
                self.pending[dict(ev.headers)[":path"]] = ev.stream_id
                if not self.hold:
                    self.answer(dict(ev.headers)[":path"])
        self.flush()
    def answer(self, path):
        sid = self.pending.pop(path)
        self.srv.send_headers(sid, [(":status", "200")])
        self.srv.send_data(sid, path.encode(), end_stream=True)
        self.flush()
    def flush(self):
        self.outbox += self.srv.data_to_send(); self.readable.set()
    async def aclose(self):
        self.closed = True; self.readable.set()
    def get_extra_info(self, info):
        return None


async def main():
    server = Server()
    origin = httpcore.Origin(b"https", b"example.com", 443)
    results = {}
    async def get(conn, path):
        try:
            r = await conn.request("GET", "https://example.com" + path)
            results[path] = (r.status, r.content)
        except Exception as exc:
            results[path] = exc
    wedged = False
    async with httpcore.AsyncHTTP2Connection(origin=origin, stream=server) as conn:
        await get(conn, "/warmup")
        server.hold = True
        with anyio.move_on_after(5) as scope:
            async with anyio.create_task_group() as tg:
                tg.start_soon(get, conn, "/x")
                tg.start_soon(get, conn, "/y")
                await anyio.wait_all_tasks_blocked()
                assert set(server.pending) == {"/x", "/y"}
                server.srv.update_settings({h2.settings.SettingCodes.MAX_CONCURRENT_STREAMS: 1})
                server.flush()
                await anyio.wait_all_tasks_blocked()
                server.answer("/x")
                server.answer("/y")
        wedged = scope.cancelled_caught
    print("results:", results)
    if wedged or results.get("/x") != (200, b"/x") or results.get("/y") != (200, b"/y"):
        print("DEFECT: streams /x and /y never completed after the server lowered "
              "MAX_CONCURRENT_STREAMS to 1 (wedged=%s)" % wedged)
        return 1
    return 0

sys.exit(anyio.run(main))
