"""
Pre-existing (UNCHANGED library): ALPN is configured by *mutating* the
ssl.SSLContext (`ssl_context.set_alpn_protocols(...)`) right before
`start_tls()`.  When the application hands the SAME context object to two pools
with different `http2` settings (or uses it as both `ssl_context` and
`proxy_ssl_context`), a second connection attempt that runs between
"set_alpn_protocols" and "start_tls" of the first changes what the first one
offers: the http2=False pool offers (and, if the server picks it, speaks) h2.
The window is the Trace("start_tls") entry: any thread switch in sync code, any
awaiting `trace` callback in async code.  Here a (sync) trace callback that
itself performs a request on the other pool pins it down without threads.

Exits 1 when the http2=False pool's ClientHello offers h2.
"""
import sys, os; sys.path.insert(0, os.getcwd())
import ssl
import httpcore

hellos = {}


class Stream(httpcore.MockStream):
    def __init__(self, host):
        super().__init__([b"HTTP/1.1 200 OK\r\nContent-Length: 2\r\n\r\n", b"ok"])
        self.host = host

    def start_tls(self, ssl_context, server_hostname=None, timeout=None):
        i, o = ssl.MemoryBIO(), ssl.MemoryBIO()
        obj = ssl_context.wrap_bio(i, o, server_hostname=server_hostname)
        try:
            obj.do_handshake()
        except ssl.SSLWantReadError:
            pass
        hellos[self.host] = o.read()
        return self

    def get_extra_info(self, info):
        return None


class Backend(httpcore.NetworkBackend):
    def connect_tcp(self, host, port, **kw):
        return Stream(host)


ctx = ssl.create_default_context()
pool_a = httpcore.ConnectionPool(ssl_context=ctx, http2=False, network_backend=Backend())
pool_b = httpcore.ConnectionPool(ssl_context=ctx, http2=True, network_backend=Backend())


def trace(name, info):
    if name == "connection.start_tls.started":
        pool_b.request("GET", "https://b.test/")


pool_a.request("GET", "https://a.test/", extensions={"trace": trace})
offers_h2 = b"\x02h2" in hellos["a.test"]
print("http2=False pool offered h2 in its ClientHello:", offers_h2)
if offers_h2:
    print("PRE-EXISTING DEFECT (needs an application-shared SSLContext)")
    sys.exit(1)
print("ok")
