"""
Pre-existing (unchanged library): a failure that is not a connection failure
is retried. SyncBackend.connect_tcp applies `socket_options` *after* the TCP
connection has been established, but still inside the OSError -> ConnectError
mapping. An invalid socket option (a configuration mistake, deterministic) is
therefore reported as ConnectError and the whole, successful, TCP connect is
repeated `retries` more times with back-off (each established socket is leaked
unclosed as well).  Same code shape in the anyio/trio backends.
Prints what it observed; exits 1 if the behaviour is present.
"""
import sys, os; sys.path.insert(0, os.getcwd())
import socket
import httpcore

listener = socket.socket(); listener.bind(("127.0.0.1", 0)); listener.listen(16)
port = listener.getsockname()[1]
listener.settimeout(0.2)


class Backend(httpcore.SyncBackend):
    sleeps = []
    def sleep(self, seconds):
        self.sleeps.append(seconds)


bad_option = (socket.SOL_SOCKET, 0x7FFF, 1)  # ENOPROTOOPT
with httpcore.ConnectionPool(retries=2, socket_options=[bad_option], network_backend=Backend()) as pool:
    try:
        pool.request("GET", f"http://127.0.0.1:{port}/")
    except Exception as exc:
        print("raised:", repr(exc))

accepted = 0
while True:
    try:
        listener.accept(); accepted += 1
    except socket.timeout:
        break
print("TCP connections established:", accepted, "pauses:", Backend.sleeps)
sys.exit(1 if accepted > 1 else 0)
