"""C05 / C07 (found by obligation `request_leaving_with_an_unused_assigned_connection_does_not_strand_it`, first reported
by a seeding sub-agent as pre-existing): a QUEUED request is assigned a newly created connection by another request's
assignment pass and is cancelled natively (asyncio Task.cancel(), e.g. asyncio.wait_for) before it resumes: the
CancelledError is thrown at its wait.  Nobody drives the connection the pool created for it: it stays CONNECTING for ever
(not available, not idle, not closed) and with max_connections=1 the pool is dead.  (Under anyio / trio *scope*
cancellation a woken waiter is not cancelled at the wait, so the scope variant does not reproduce; the sync twin has the
same window between Event.wait timing out and the assigner's set().)  Repaired by the fix: commit recorded in
known_findings.json; prints `not reproduced` on the repaired tree."""
import asyncio, httpcore, sys
async def main():
    b = httpcore.AsyncMockBackend([b"HTTP/1.1 200 OK\r\nContent-Length: 0\r\n\r\n"])
    async with httpcore.AsyncConnectionPool(network_backend=b, max_connections=1) as pool:
        async with pool.stream("GET", "http://a.example/") as r1:
            t = asyncio.ensure_future(pool.request("GET", "http://b.example/"))
            await asyncio.sleep(0.05)
            await r1.aclose()
            print("after aclose:", pool.connections)
            t.cancel()
            try:
                await t
            except BaseException as e:
                print("R2:", type(e).__name__)
        print("pool:", pool.connections)
        try:
            r = await pool.request("GET", "http://c.example/", extensions={"timeout": {"pool": 0.3}})
            nxt = r.status
        except Exception as e:
            nxt = type(e).__name__
        print("next request:", nxt)
    print("DEFECT-REPRODUCED" if nxt != 200 else "not reproduced")
    return 0 if nxt == 200 else 1
sys.exit(asyncio.run(main()))
