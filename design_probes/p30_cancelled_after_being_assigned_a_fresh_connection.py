"""Reported by a seeding sub-agent as pre-existing (wave 4, C05): a QUEUED request is assigned a fresh
connection by another request's assignment pass and is cancelled before it resumes (the cancellation
is delivered at its wait).  Nobody drives the connection the pool created for it: it stays CONNECTING
for ever (not available, not idle, not closed) and with max_connections=1 the pool is dead."""
import anyio, httpcore, sys

async def main():
    b = httpcore.AsyncMockBackend([b"HTTP/1.1 200 OK\r\nContent-Length: 0\r\n\r\n"])
    async with httpcore.AsyncConnectionPool(network_backend=b, max_connections=1) as pool:
        out = {}
        async with pool.stream("GET", "http://a.example/") as r1:      # holds the only slot
            async with anyio.create_task_group() as tg:
                scope = anyio.CancelScope()
                async def queued():
                    with scope:
                        try:
                            await pool.request("GET", "http://b.example/")
                            out["R2"] = "ok"
                        except BaseException as e:
                            out["R2"] = type(e).__name__
                            raise
                tg.start_soon(queued)
                await anyio.sleep(0.05)            # R2 is now waiting in the queue
                await r1.aclose()                  # the pass evicts a.example's idle connection and assigns R2 a fresh one
                scope.cancel()                     # ... and R2 is cancelled before it resumes
        print("R2:", out, "| pool:", pool.connections)
        try:
            r = await pool.request("GET", "http://c.example/", extensions={"timeout": {"pool": 0.3}})
            nxt = r.status
        except Exception as e:
            nxt = type(e).__name__
        print("next request:", nxt)
    bad = nxt != 200
    print("DEFECT-REPRODUCED" if bad else "not reproduced")
    return 1 if bad else 0

sys.exit(anyio.run(main))
