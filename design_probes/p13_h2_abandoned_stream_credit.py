import httpcore, hpack, hyperframe.frame as hf
enc = hpack.Encoder()
frames = [hf.SettingsFrame().serialize(),
          hf.HeadersFrame(stream_id=1, data=enc.encode([(b":status", b"200")]), flags=["END_HEADERS"]).serialize()
          + b"".join(hf.DataFrame(stream_id=1, data=b"x"*16384).serialize() for _ in range(8)),
          b"".join(hf.DataFrame(stream_id=1, data=b"y"*16384).serialize() for _ in range(8)),   # arrives after the caller abandoned stream 1
          hf.HeadersFrame(stream_id=3, data=enc.encode([(b":status", b"200")]), flags=["END_HEADERS","END_STREAM"]).serialize()]
origin = httpcore.Origin(b"https", b"example.com", 443)
conn = httpcore.HTTP2Connection(origin=origin, stream=httpcore.MockStream(frames, http2=True))
w0 = None
with conn.stream("GET", "https://example.com/big") as r:
    w0 = conn._h2_state.inbound_flow_control_window
    print("status", r.status, "conn inbound window while stream 1 open:", w0)
    # caller abandons the response without reading the body
r2 = conn.request("GET", "https://example.com/next")
mgr = conn._h2_state._inbound_flow_control_window_manager
# h2 hands credit back lazily: bytes acknowledged but not yet announced are in _bytes_processed
leak = mgr.max_window_size - (mgr.current_window_size + mgr._bytes_processed)
print("second status", r2.status, "conn inbound window afterwards:", mgr.current_window_size, "acknowledged, pending announcement:", mgr._bytes_processed,
      "=> credit never returned:", leak)
print("DEFECT-REPRODUCED" if leak > 0 else "not reproduced")
raise SystemExit(1 if leak > 0 else 0)
