"""
Pre-existing (UNCHANGED library): host names that cannot be encoded leak a
UnicodeError (a ValueError subclass) to the caller instead of a documented
httpcore exception (ConnectError / LocalProtocolError / UnsupportedProtocol).

  1. a DNS label longer than 63 characters -> the 'idna' codec used by
     getaddrinfo() raises UnicodeError, which is not an OSError and so is not
     mapped to ConnectError (sync backend and trio backend; the anyio/asyncio
     backend resolves names differently and reports ConnectError).
  2. non-ASCII host bytes -> `self._origin.host.decode("ascii")` in
     HTTPConnection._connect raises UnicodeDecodeError.

Prints what each call raised; exits 1 if any undocumented exception escaped.
"""
import sys, os

sys.path.insert(0, os.getcwd())

import anyio

import httpcore

DOCUMENTED = (
    httpcore.TimeoutException,
    httpcore.NetworkError,
    httpcore.ProtocolError,
    httpcore.ProxyError,
    httpcore.UnsupportedProtocol,
)

LONG = "http://" + "a" * 70 + ".invalid/"
NONASCII = httpcore.URL(scheme=b"http", host=b"\xff\xfe", port=80, target=b"/")

bad = 0


def report(name, exc):
    global bad
    ok = isinstance(exc, DOCUMENTED)
    bad += not ok
    print(f"{name}: {type(exc).__module__}.{type(exc).__name__}: {exc!r}"
          f"  [{'documented' if ok else 'UNDOCUMENTED'}]")


def sync_call(name, url):
    try:
        httpcore.request("GET", url, extensions={"timeout": {"connect": 5}})
    except Exception as exc:
        report(name, exc)


async def async_call(name, url):
    try:
        async with httpcore.AsyncConnectionPool() as pool:
            await pool.request("GET", url, extensions={"timeout": {"connect": 5}})
    except Exception as exc:
        report(name, exc)


sync_call("sync  long label", LONG)
sync_call("sync  non-ascii host", NONASCII)
for backend in ("asyncio", "trio"):
    anyio.run(async_call, f"{backend} long label", LONG, backend=backend)
    anyio.run(async_call, f"{backend} non-ascii host", NONASCII, backend=backend)

sys.exit(1 if bad else 0)
