import sys, os; sys.path.insert(0, os.getcwd())

"""
PRE-EXISTING violation of C13 in the UNCHANGED library ("resuming as soon as
the window reopens" / "never starves a transfer").

One HTTP/2 connection, default server windows (65535), in-memory transport
with a real h2 server state machine.  The server's reaction to a client write
is delivered "with latency": only once every client task has blocked
(anyio.wait_all_tasks_blocked), as on a real network.

  * stream 1: GET /wait     - answered after the upload has been received.
  * stream 3: POST /upload  - 1 MiB, i.e. larger than the initial window.

What happens:
  - the GET task is parked in `_receive_events` holding `_read_lock`, blocked
    in the network read;
  - the uploader uses up the window, so `_wait_for_outgoing_flow` calls
    `_receive_events(request)` and queues for `_read_lock`;
  - the server's WINDOW_UPDATE arrives; it is read and processed *by the GET
    task*, which then releases the lock to the uploader;
  - the uploader, now inside `_receive_events` with `stream_id=None`, does not
    re-check the window: it unconditionally blocks in another network read,
    although the window is open again.  The server is waiting for the rest of
    the body, so nothing ever arrives: deadlock.

Control: the same upload on its own (no parked reader) completes.

Exit status 0 = library behaves (PASS), 1 = violation reproduced.
"""

import anyio
import h2.config
import h2.connection
import h2.events
import h2.settings

import httpcore

BODY = b"".join(i.to_bytes(4, "big") for i in range(256 * 1024))  # 1 MiB
DEADLINE = 5.0


class FakeServer:
    def __init__(self) -> None:
        config = h2.config.H2Configuration(client_side=False, header_encoding=None)
        self.conn = h2.connection.H2Connection(config=config)
        self.conn.initiate_connection()
        self.out = bytearray(self.conn.data_to_send())
        self.paths: dict[int, bytes] = {}
        self.bodies: dict[int, bytearray] = {}
        self.waiting: list[int] = []
        self.upload_received: bytes | None = None

    def receive(self, data: bytes) -> bytes:
        for event in self.conn.receive_data(data):
            if isinstance(event, h2.events.RequestReceived):
                path = dict(event.headers)[b":path"]
                self.paths[event.stream_id] = path
                self.bodies[event.stream_id] = bytearray()
                if path == b"/wait":
                    self.waiting.append(event.stream_id)
            elif isinstance(event, h2.events.DataReceived):
                self.bodies[event.stream_id] += event.data
                self.conn.acknowledge_received_data(
                    event.flow_controlled_length, event.stream_id
                )
            elif isinstance(event, h2.events.StreamEnded):
                if self.paths[event.stream_id] == b"/upload":
                    self.upload_received = bytes(self.bodies[event.stream_id])
                    self._respond(event.stream_id, b"uploaded")
                    for stream_id in self.waiting:
                        self._respond(stream_id, b"upload-complete")
                    self.waiting.clear()
        return self.conn.data_to_send()

    def _respond(self, stream_id: int, body: bytes) -> None:
        self.conn.send_headers(
            stream_id,
            [(b":status", b"200"), (b"content-length", b"%d" % len(body))],
        )
        self.conn.send_data(stream_id, body, end_stream=True)


class PipeStream(httpcore.AsyncNetworkStream):
    def __init__(self, server: FakeServer) -> None:
        self.server = server
        self._data = anyio.Event()
        self.reader_parked = anyio.Event()
        self.in_flight = b""
        self.has_in_flight = anyio.Event()

    async def read(self, max_bytes: int, timeout: float | None = None) -> bytes:
        while not self.server.out:
            if self.server.waiting:
                self.reader_parked.set()
            self._data = anyio.Event()
            await self._data.wait()
        chunk = bytes(self.server.out[:max_bytes])
        del self.server.out[:max_bytes]
        return chunk

    async def write(self, buffer: bytes, timeout: float | None = None) -> None:
        self.in_flight += self.server.receive(buffer)
        if self.in_flight:
            self.has_in_flight.set()
        await anyio.lowlevel.checkpoint()

    async def pump(self) -> None:
        # Deliver the server's output only when all client tasks are blocked.
        while True:
            await self.has_in_flight.wait()
            await anyio.wait_all_tasks_blocked()
            self.has_in_flight = anyio.Event()
            self.server.out += self.in_flight
            self.in_flight = b""
            self._data.set()

    async def aclose(self) -> None:
        pass

    def get_extra_info(self, info: str):
        return None


async def scenario(with_parked_reader: bool) -> bool:
    server = FakeServer()
    stream = PipeStream(server)
    origin = httpcore.Origin(b"https", b"example.com", 443)
    results: dict[str, tuple[int, bytes]] = {}

    async with httpcore.AsyncHTTP2Connection(origin=origin, stream=stream) as conn:

        async def waiter() -> None:
            r = await conn.request("GET", "https://example.com/wait")
            results["wait"] = (r.status, r.content)

        async def uploader() -> None:
            if with_parked_reader:
                await stream.reader_parked.wait()
            r = await conn.request("POST", "https://example.com/upload", content=BODY)
            results["upload"] = (r.status, r.content)

        try:
            with anyio.fail_after(DEADLINE):
                async with anyio.create_task_group() as outer:
                    outer.start_soon(stream.pump)
                    async with anyio.create_task_group() as tg:
                        if with_parked_reader:
                            tg.start_soon(waiter)
                        tg.start_soon(uploader)
                    outer.cancel_scope.cancel()
        except TimeoutError:
            got = len(server.bodies.get(3 if with_parked_reader else 1, b""))
            sid = 3 if with_parked_reader else 1
            print(
                "  stalled: server received %d of %d upload bytes; client-side send "
                "window for the upload stream is %d (open), nothing in flight: %r"
                % (
                    got,
                    len(BODY),
                    conn._h2_state.local_flow_control_window(sid),
                    not stream.in_flight and not server.out,
                )
            )
            return False
    return server.upload_received == BODY and results.get("upload") == (200, b"uploaded")


async def main() -> int:
    print("control (upload alone):")
    ok_alone = await scenario(with_parked_reader=False)
    print("  completed:", ok_alone)
    print("upload while another stream is parked waiting for its response:")
    ok_concurrent = await scenario(with_parked_reader=True)
    print("  completed:", ok_concurrent)
    if ok_alone and ok_concurrent:
        print("PASS")
        return 0
    print("VIOLATION reproduced on the unchanged library")
    return 1


if __name__ == "__main__":
    sys.exit(anyio.run(main))
