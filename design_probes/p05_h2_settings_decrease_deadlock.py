import anyio, httpcore, hpack, hyperframe.frame as hf
from h2.settings import SettingCodes
class S(httpcore.AsyncMockStream):
    async def read(self, max_bytes, timeout=None):
        await anyio.sleep(0.001)
        if not self._buffer:
            await anyio.sleep(999)
        return self._buffer.pop(0)
async def main():
    enc = hpack.Encoder()
    def resp(sid):
        return hf.HeadersFrame(stream_id=sid, data=enc.encode([(b":status", b"200")]), flags=["END_HEADERS","END_STREAM"]).serialize()
    frames = [hf.SettingsFrame(settings={SettingCodes.MAX_CONCURRENT_STREAMS: 3}).serialize(),
              hf.SettingsFrame(settings={SettingCodes.MAX_CONCURRENT_STREAMS: 1}).serialize(),
              resp(1), resp(3), resp(5)]
    origin = httpcore.Origin(b"https", b"example.com", 443)
    conn = httpcore.AsyncHTTP2Connection(origin=origin, stream=S(frames, http2=True))
    done = []
    async def req(i):
        r = await conn.request("GET", "https://example.com/"); done.append((i, r.status))
    with anyio.move_on_after(2) as sc:
        async with anyio.create_task_group() as tg:
            for i in range(3): tg.start_soon(req, i)
    print("done:", done, "timed out (deadlock):", sc.cancelled_caught)
anyio.run(main)
