"""KF-h2-negative-send-window: after the server lowers SETTINGS_INITIAL_WINDOW_SIZE below what the
client has already sent on a stream, the stream's send window is negative (legal, RFC 7540 6.9.2).
_wait_for_outgoing_flow only waits while the flow is exactly 0: with a negative window it returns
the negative number at once; _send_stream_data then computes chunk_size = min(len(data), negative)
and slices data[:negative] / data[negative:]: for data shorter than |window| the chunk is empty and
the remaining data never shrinks -> the sender spins for ever writing empty DATA frames (for longer
data it hands h2 an oversized frame -> LocalProtocolError).  Real h2, real httpcore functions."""
import anyio, hyperframe.frame as hf, httpcore
from h2.settings import SettingCodes
writes = []
class S(httpcore.AsyncMockStream):
    async def read(self, max_bytes, timeout=None):
        await anyio.sleep(0.001)
        if not self._buffer: await anyio.sleep(999)
        return self._buffer.pop(0)
    async def write(self, buffer, timeout=None):
        writes.append(len(buffer)); await anyio.sleep(0)
async def main():
    conn = httpcore.AsyncHTTP2Connection(origin=httpcore.Origin(b"https", b"example.com", 443), stream=S([], http2=True))
    req = httpcore.Request("POST", "https://example.com/", headers={"Host": "example.com", "content-length": "100000"})
    await conn._send_connection_init(request=req)
    sid = conn._h2_state.get_next_available_stream_id()
    conn._events[sid] = []
    await conn._send_request_headers(request=req, stream_id=sid)
    await conn._send_stream_data(req, sid, b"x" * 30000)              # 30000 bytes already sent on the stream
    conn._h2_state.receive_data(hf.SettingsFrame(settings={SettingCodes.INITIAL_WINDOW_SIZE: 1000}).serialize())
    print("stream send window now:", conn._h2_state.local_flow_control_window(sid))
    flow = None
    with anyio.move_on_after(2):
        flow = await conn._wait_for_outgoing_flow(req, sid)
    if flow is None:
        print("_wait_for_outgoing_flow waits for the window to reopen (correct)")
        print("not reproduced")
        raise SystemExit(0)
    print("_wait_for_outgoing_flow returned:", flow)
    n0 = len(writes)
    with anyio.move_on_after(0.5) as scope:
        await conn._send_stream_data(req, sid, b"y" * 5000)
    print("sending 5000 more bytes: finished =", not scope.cancelled_caught, "| writes issued meanwhile:", len(writes) - n0)
    bad = flow <= 0
    print("DEFECT-REPRODUCED" if bad else "not reproduced")
    raise SystemExit(1 if bad else 0)
anyio.run(main)
