"""KF-h2-connection-not-available-during-body: a GOAWAY whose last_stream_id is below a stream that
has already received its response head makes the *body iteration* raise ConnectionNotAvailable - an
internal retry signal that is not one of the documented exception classes - to the caller (the pool
only absorbs it around handle_request, not around response reads)."""
import anyio, httpcore, hpack, hyperframe.frame as hf
class S(httpcore.AsyncMockStream):
    async def read(self, max_bytes, timeout=None):
        await anyio.sleep(0.001)
        if not self._buffer: return b""
        return self._buffer.pop(0)
async def main():
    enc = hpack.Encoder()
    frames = [hf.SettingsFrame(settings={}).serialize(),
              hf.HeadersFrame(stream_id=1, data=enc.encode([(b":status", b"200")]), flags=["END_HEADERS", "END_STREAM"]).serialize(),
              hf.HeadersFrame(stream_id=3, data=enc.encode([(b":status", b"200"), (b"content-length", b"10")]), flags=["END_HEADERS"]).serialize(),
              hf.GoAwayFrame(stream_id=0, last_stream_id=1, error_code=0).serialize()]
    async with httpcore.AsyncConnectionPool(network_backend=httpcore.AsyncMockBackend(frames, http2=True), http2=True) as pool:
        await pool.request("GET", "https://example.com/")          # stream 1
        outcome = None
        try:
            async with pool.stream("GET", "https://example.com/") as r:   # stream 3: head arrives, then GOAWAY(last=1)
                await r.aread()
                outcome = "read ok"
        except BaseException as e:
            outcome = type(e).__module__ + "." + type(e).__name__
    print("body read outcome:", outcome)
    bad = outcome.endswith("ConnectionNotAvailable")
    print("DEFECT-REPRODUCED" if bad else "not reproduced")
    raise SystemExit(1 if bad else 0)
anyio.run(main)
