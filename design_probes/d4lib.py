import httpcore, ssl, typing
# SOCKS malformed reply / timeouts
class RecStream(httpcore.MockStream):
    def __init__(self, buffer, log, **kw):
        super().__init__(buffer, **kw); self.log = log
    def read(self, max_bytes, timeout=None):
        self.log.append(("read", timeout)); return super().read(max_bytes, timeout)
    def write(self, buffer, timeout=None):
        self.log.append(("write", timeout, bytes(buffer)[:20]))
    def close(self):
        self.log.append(("close",)); super().close()
    def start_tls(self, ssl_context, server_hostname=None, timeout=None):
        self.log.append(("start_tls", server_hostname, timeout))
        if getattr(self, "fail_tls", False):
            self.close()
            raise httpcore.ConnectError("tls failed")
        return self
class RecBackend(httpcore.MockBackend):
    def __init__(self, buffer, fail_tls=False, **kw):
        super().__init__(buffer, **kw); self.log = []; self.fail_tls = fail_tls
    def connect_tcp(self, host, port, timeout=None, local_address=None, socket_options=None):
        self.log.append(("connect_tcp", host, port, timeout))
        s = RecStream(list(self._buffer), self.log, http2=self._http2); s.fail_tls = self.fail_tls
        return s
