# Spike: can z3 discharge list-shaped VCs with Seq(Int) quickly?
import z3, time
Ref = z3.IntSort()
S = z3.SeqSort(Ref)
def contains(s, x): return z3.Contains(s, z3.Unit(x))
def check(name, hyps, goal, timeout=10000):
    s = z3.Solver(); s.set("timeout", timeout)
    for h in hyps: s.add(h)
    s.add(z3.Not(goal))
    t=time.time(); r = s.check(); dt=time.time()-t
    print(f"{name:50s} {'PROVED' if r==z3.unsat else r}  {dt:.3f}s")
    if r==z3.sat: print("   model:", s.model())
conns, conns2, a, b = z3.Consts("conns conns2 a b", S)
x, y = z3.Ints("x y")
maxc, len0 = z3.Ints("maxc len0")
# list.remove(x) contract: x in conns -> conns == a ++ [x] ++ b, x not in a, conns2 == a ++ b
remove = z3.And(conns == z3.Concat(a, z3.Unit(x), b), z3.Not(contains(a, x)), conns2 == z3.Concat(a, b))
check("remove: len decreases by 1", [remove], z3.Length(conns2) == z3.Length(conns) - 1)
check("remove: other members kept", [remove, contains(conns, y), y != x], contains(conns2, y))
check("remove: no new members", [remove, contains(conns2, y)], contains(conns, y))
# append
app = conns2 == z3.Concat(conns, z3.Unit(x))
check("append: len+1", [app], z3.Length(conns2) == z3.Length(conns)+1)
check("append under limit keeps bound", [app, z3.Length(conns) < maxc], z3.Length(conns2) <= maxc)
# evict+create: remove then append keeps length
c3 = z3.Const("c3", S)
check("evict+create keeps len", [remove, c3 == z3.Concat(conns2, z3.Unit(y))], z3.Length(c3) == z3.Length(conns))
# distinctness invariant (no duplicates) under append of fresh
i, j = z3.Ints("i j")
nodup = lambda s: z3.ForAll([i,j], z3.Implies(z3.And(0<=i, i<j, j<z3.Length(s)), s[i] != s[j]))
check("nodup preserved by append fresh", [nodup(conns), z3.Not(contains(conns, x)), app], nodup(conns2), 20000)
check("nodup preserved by remove", [nodup(conns), remove], nodup(conns2), 20000)
# first element of filtered list is member satisfying predicate: filtered f of conns by pred P
P = z3.Function("P", Ref, z3.BoolSort())
f = z3.Const("f", S)
filt = z3.And(z3.ForAll([y], contains(f, y) == z3.And(contains(conns, y), P(y))))
check("filter nonempty -> f[0] in conns and P", [filt, z3.Length(f) > 0], z3.And(contains(conns, f[0]), P(f[0])), 20000)
check("filter empty -> no P member", [filt, z3.Length(f) == 0, contains(conns, x)], z3.Not(P(x)), 20000)
