import httpcore, hpack, hyperframe.frame as hf
class RecStream(httpcore.MockStream):
    def __init__(self, buffer, log, idx, **kw): super().__init__(buffer, **kw); self.log=log; self.idx=idx
    def write(self, buffer, timeout=None):
        if buffer: self.log.append((self.idx, bytes(buffer)))
class ScriptBackend(httpcore.MockBackend):
    def __init__(self, scripts): self.scripts=scripts; self.n=0; self.log=[]
    def connect_tcp(self, host, port, timeout=None, local_address=None, socket_options=None):
        s = RecStream(list(self.scripts[self.n]), self.log, self.n, http2=True); self.n+=1; return s
def frames_in(data):
    out=[]; 
    if data.startswith(b"PRI * HTTP/2.0"): data=data[24:]
    while data:
        f, ln = hf.Frame.parse_frame_header(memoryview(data[:9])); f.parse_body(memoryview(data[9:9+ln])); out.append(f); data=data[9+ln:]
    return out
enc = hpack.Encoder()
def resp(sid): return hf.HeadersFrame(stream_id=sid, data=enc.encode([(b":status", b"200")]), flags=["END_HEADERS","END_STREAM"]).serialize()
def body():
    yield b"hello "; yield b"world"
print("=== GOAWAY last_stream_id=0 on first request (stream 1)")
b = ScriptBackend([[hf.SettingsFrame().serialize(), hf.GoAwayFrame(stream_id=0, last_stream_id=0).serialize()],
                   [hf.SettingsFrame().serialize(), hpack.Encoder().encode and hf.HeadersFrame(stream_id=1, data=hpack.Encoder().encode([(b":status", b"200")]), flags=["END_HEADERS","END_STREAM"]).serialize()]])
with httpcore.ConnectionPool(network_backend=b, http2=True) as p:
    try:
        r = p.request("GET", "https://example.com/"); print("OK", r.status, "connections used:", b.n)
    except Exception as e: print("EXC", type(e).__name__, e, "connections used:", b.n)
print("=== GOAWAY last_stream_id=1 hits stream 3 with a generator body -> transparent re-send")
enc = hpack.Encoder()
b = ScriptBackend([[hf.SettingsFrame().serialize(), resp(1), hf.GoAwayFrame(stream_id=0, last_stream_id=1).serialize()],
                   [hf.SettingsFrame().serialize(), hf.HeadersFrame(stream_id=1, data=hpack.Encoder().encode([(b":status", b"200")]), flags=["END_HEADERS","END_STREAM"]).serialize()]])
with httpcore.ConnectionPool(network_backend=b, http2=True) as p:
    r = p.request("GET", "https://example.com/"); print("first OK", r.status)
    try:
        r = p.request("POST", "https://example.com/", headers={"Content-Length": "11"}, content=body()); print("second OK", r.status, "connections used:", b.n)
    except Exception as e: print("EXC", type(e).__name__, e)
for idx, data in b.log:
    for f in frames_in(data):
        if isinstance(f, hf.DataFrame): print("  conn", idx, "DATA", f.stream_id, bytes(f.data), sorted(f.flags))
        if isinstance(f, hf.HeadersFrame): print("  conn", idx, "HEADERS", f.stream_id, sorted(f.flags))
