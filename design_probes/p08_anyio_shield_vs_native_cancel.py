import asyncio, anyio
async def worker(log):
    try:
        with anyio.CancelScope(shield=True):
            log.append("in shield"); await anyio.sleep(0.2); log.append("shield done")
    except BaseException as e:
        log.append(("exc", type(e).__name__)); raise
async def main():
    log=[]; t = asyncio.ensure_future(worker(log)); await asyncio.sleep(0.05); t.cancel()
    try: await t
    except asyncio.CancelledError: log.append("task cancelled")
    print(log)
asyncio.run(main())
