import httpcore
def t(**kw):
    b = httpcore.MockBackend([b"HTTP/1.1 200 OK\r\nContent-Length: 0\r\n\r\n"])
    with httpcore.ConnectionPool(network_backend=b) as p:
        try:
            r = p.request(**kw); print("OK", r.status)
        except BaseException as e:
            print("EXC", type(e).__module__, type(e).__name__, e)
        print("  ", p.connections)
t(method="POST", url="http://example.com/", headers={"Content-Length": "2"}, content=b"abc")
t(method="POST", url="http://example.com/", headers={"Content-Length": "5"}, content=b"abc")
t(method="GET", url="http://example.com/", headers={"Bad Header": "x"})
t(method="GET", url="http://example.com/", headers=[("Host", "a"), ("Host", "b")])
t(method="GET", url="http://example.com/ a")
t(method="GE T", url="http://example.com/")
t(method="GET", url="http://example.com/", extensions={"target": b"*"})
# h2 without host header
import hpack, hyperframe.frame as hf
b = httpcore.MockBackend([hf.SettingsFrame().serialize()], http2=True)
with httpcore.ConnectionPool(network_backend=b, http2=True) as p:
    try:
        req = httpcore.Request("GET", "https://example.com/")
        p.handle_request(req)
    except BaseException as e:
        print("EXC", type(e).__module__, type(e).__name__, e)
    print("  ", p.connections)
