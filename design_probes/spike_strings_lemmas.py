import z3, subprocess, time
host = z3.String("host"); d = z3.String("d"); port=z3.Int("port")
digits = z3.Plus(z3.Range("0","9"))
regname = z3.Star(z3.Union(z3.Range("a","z"), z3.Range("0","9"), z3.Re("-"), z3.Re(".")))
ip6 = z3.Concat(z3.Re("["), z3.Plus(z3.Union(z3.Range("0","9"), z3.Range("a","f"), z3.Re(":"), z3.Re("."))), z3.Re("]"))
host_wf = z3.Concat(z3.Union(regname, ip6), z3.Option(z3.Concat(z3.Re(":"), digits)))
def both(name, hyps, goal):
    s = z3.Solver(); s.set("timeout", 20000); s.add(*hyps); s.add(z3.Not(goal))
    t=time.time(); r=s.check(); print(f"z3   {name:45s} {r} {time.time()-t:.2f}s")
    smt = "(set-logic ALL)\n" + s.to_smt2()
    open("q.smt2","w").write(smt)
    t=time.time()
    try:
        out = subprocess.run(["/usr/bin/cvc5","--strings-exp","--tlimit=20000","q.smt2"],capture_output=True,text=True,timeout=30).stdout.strip()
    except subprocess.TimeoutExpired: out="timeout"
    print(f"cvc5 {name:45s} {out} {time.time()-t:.2f}s")
both("L1: from_int(port>=0) in digits", [port >= 0], z3.InRe(z3.IntToStr(port), digits))
both("L2: regname ++ ':' ++ digits in host_wf", [z3.InRe(host, regname), z3.InRe(d, digits)], z3.InRe(z3.Concat(host, z3.StringVal(":"), d), host_wf))
both("L3: regname in host_wf", [z3.InRe(host, regname)], z3.InRe(host, host_wf))
