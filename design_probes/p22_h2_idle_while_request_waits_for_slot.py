"""KF-h2-idle-while-request-in-flight: an HTTP/2 request that has passed the ACTIVE gate but still
waits for a stream slot (only one slot exists until the server's SETTINGS arrive) is not counted when
another stream closes: _response_closed sees no registered streams and marks the connection IDLE.
The pool then treats the connection as idle - with max_keepalive_connections=0 it closes it at once -
and the waiting request, which a well-behaved server would have answered, fails."""
import anyio, httpcore, sys, os
sys.path.insert(0, os.path.dirname(__file__))
import h2.events, h2.settings
from h2srv import H2ServerStream
def on_event(srv, ev):
    if isinstance(ev, h2.events.RequestReceived):
        srv.send_headers(ev.stream_id, [(":status", "200"), ("content-length", "2")])
        srv.send_data(ev.stream_id, b"ok", end_stream=True)
class B(httpcore.AsyncNetworkBackend):
    async def connect_tcp(self, *a, **k): return H2ServerStream(on_event, settings={h2.settings.SettingCodes.MAX_CONCURRENT_STREAMS: 1})
    async def sleep(self, s): await anyio.sleep(s)
class TLS:  # pretend ALPN selected h2
    def selected_alpn_protocol(self): return "h2"
H2ServerStream.get_extra_info = lambda self, info: TLS() if info == "ssl_object" else None
async def start_tls(self, *a, **k): return self
H2ServerStream.start_tls = start_tls
async def main():
    res = {}
    async with httpcore.AsyncConnectionPool(network_backend=B(), http2=True, max_connections=1, max_keepalive_connections=0) as pool:
        async def first():
            async with pool.stream("GET", "https://example.com/1") as r:
                await anyio.sleep(0.05)             # second request arrives meanwhile and waits for the slot
                res["first"] = r.status
        async def second():
            try:
                with anyio.fail_after(2):
                    r = await pool.request("GET", "https://example.com/2")
                    res["second"] = r.status
            except BaseException as e:
                res["second"] = type(e).__module__ + "." + type(e).__name__ + ": " + str(e)[:60]
        # make sure the server's SETTINGS are not processed before the second request queues up:
        async with anyio.create_task_group() as tg:
            tg.start_soon(first); await anyio.sleep(0.01); tg.start_soon(second)
    print(res)
    bad = res.get("second") != 200
    print("DEFECT-REPRODUCED" if bad else "not reproduced")
    raise SystemExit(1 if bad else 0)
anyio.run(main)
