"""
Pre-existing (UNCHANGED library), property C03.

HTTP/2: a request whose head is rejected locally (here `TE: gzip`, which h2
refuses) is rejected *while* h2 is HPACK-encoding the header block: the
headers in front of the offending one have already been inserted into the
encoder's dynamic table, but the block is never sent.  The connection stays in
the pool, so the NEXT, perfectly legal, request on it is encoded against a
dynamic table the peer does not have: an independent decoder fails with an
invalid table index (or, with other header mixes, decodes wrong headers).
"""
import sys, os

sys.path.insert(0, os.getcwd())

import anyio
import hpack
import hyperframe.frame as hf

import httpcore

PREFACE = b"PRI * HTTP/2.0\r\n\r\nSM\r\n\r\n"


class H2Peer:
    """Independent HTTP/2 server side: decodes what the client writes."""

    def __init__(self, refuse_with_goaway):
        self.refuse_with_goaway = refuse_with_goaway
        self.inbuf = b""
        self.preface_seen = False
        self.decoder = hpack.Decoder()
        self.encoder = hpack.Encoder()
        self.streams = {}
        self.out = []
        self.sent_settings = False

    def feed(self, data):
        self.inbuf += data
        if not self.preface_seen:
            if len(self.inbuf) < len(PREFACE):
                return
            assert self.inbuf.startswith(PREFACE)
            self.inbuf = self.inbuf[len(PREFACE) :]
            self.preface_seen = True
        while len(self.inbuf) >= 9:
            frame, length = hf.Frame.parse_frame_header(memoryview(self.inbuf[:9]))
            if len(self.inbuf) < 9 + length:
                return
            frame.parse_body(memoryview(self.inbuf[9 : 9 + length]))
            self.inbuf = self.inbuf[9 + length :]
            self.on_frame(frame)

    def on_frame(self, f):
        if isinstance(f, hf.SettingsFrame):
            if "ACK" not in f.flags:
                if not self.sent_settings:
                    self.sent_settings = True
                    s = hf.SettingsFrame(0)
                    s.settings = {hf.SettingsFrame.MAX_CONCURRENT_STREAMS: 100}
                    self.out.append(s.serialize())
                a = hf.SettingsFrame(0)
                a.flags.add("ACK")
                self.out.append(a.serialize())
        elif isinstance(f, hf.HeadersFrame):
            st = self.streams.setdefault(
                f.stream_id,
                {"headers": None, "body": b"", "ended": False, "after_end": False},
            )
            try:
                st["headers"] = self.decoder.decode(f.data, raw=True)
            except Exception as exc:  # what a real server turns into COMPRESSION_ERROR
                st["headers"] = exc
            if "END_STREAM" in f.flags:
                self.end(f.stream_id)
        elif isinstance(f, hf.DataFrame):
            st = self.streams[f.stream_id]
            if st["ended"]:
                st["after_end"] = True
            st["body"] += f.data
            if "END_STREAM" in f.flags:
                self.end(f.stream_id)

    def end(self, sid):
        self.streams[sid]["ended"] = True
        if self.refuse_with_goaway:
            g = hf.GoAwayFrame(0)
            g.last_stream_id = 0  # nothing processed: the client may retry
            g.error_code = 0
            self.out.append(g.serialize())
            return
        h = hf.HeadersFrame(sid)
        h.data = self.encoder.encode([(b":status", b"200"), (b"content-length", b"2")])
        h.flags.add("END_HEADERS")
        d = hf.DataFrame(sid)
        d.data = b"ok"
        d.flags.add("END_STREAM")
        self.out.append(h.serialize() + d.serialize())


class PeerStream(httpcore.AsyncNetworkStream):
    def __init__(self, peer):
        self.peer = peer
        self.closed = False
        self._wake = anyio.Event()

    async def read(self, max_bytes, timeout=None):
        while not self.peer.out:
            if self.closed:
                return b""
            self._wake = anyio.Event()
            with anyio.fail_after(5):
                await self._wake.wait()
        return self.peer.out.pop(0)

    async def write(self, buffer, timeout=None):
        self.peer.feed(bytes(buffer))
        self._wake.set()

    async def aclose(self):
        self.closed = True
        self._wake.set()

    async def start_tls(self, ssl_context, server_hostname=None, timeout=None):
        return self

    def get_extra_info(self, info):
        return None




class PeerBackend(httpcore.AsyncNetworkBackend):
    def __init__(self):
        self.peers = []

    async def connect_tcp(self, host, port, timeout=None, local_address=None, socket_options=None):
        self.peers.append(H2Peer(refuse_with_goaway=False))
        return PeerStream(self.peers[-1])

    async def sleep(self, seconds):
        await anyio.sleep(0)


async def main():
    backend = PeerBackend()
    async with httpcore.AsyncConnectionPool(http1=False, http2=True, network_backend=backend) as pool:
        try:
            await pool.request(
                "GET",
                "http://example.com/a",
                headers=[(b"X-Custom", b"first-value"), (b"TE", b"gzip")],
            )
        except httpcore.LocalProtocolError as exc:
            print("request 1 rejected locally, as it should be:", exc)
        r = await pool.request("GET", "http://example.com/b", headers=[(b"X-Other", b"second-value")])
        print("request 2 status seen by the client:", r.status)
    bad = False
    for n, peer in enumerate(backend.peers):
        for sid, st in sorted(peer.streams.items()):
            print("connection", n, "stream", sid, "decoded head:", repr(st["headers"]))
            if isinstance(st["headers"], Exception):
                bad = True
    return bad


if anyio.run(main):
    print("DEFECT-REPRODUCED: the legal second request is not decodable by an independent HPACK decoder")
    sys.exit(1)
print("not reproduced")
