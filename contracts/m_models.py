"""Contracts for httpcore/_models.py (C19, C03 default headers, C10 origin equality,
C11 proxy auth header, C02 Response.read).

urllib.parse is an ASSUMED decomposition contract (A-stdlib): for an absolute URL b the
RFC 3986 components are the uninterpreted rfc_*(b); `urlsplit(b)` returns them, while
`urlparse(b)` additionally strips the `;params` of the last path segment
(path = strip_params(rfc_path(b))).  Audited by audit/urllib_contract.py (bounded).
"""
from __future__ import annotations

import z3

from pyvc.values import *  # noqa: F401,F403
from pyvc.engine import Contract, Unsupported, PyRaise
from .m_models_fields import URL, ORIGIN, REQUEST, RESPONSE, PROXY, BYTESTREAM, M, origin_fields_equal

rfc_scheme = z3.Function("rfc_scheme", BytesS, BytesS)  # lower-cased scheme
def authority_host(host):
    """RFC 3986 host as it appears inside an authority / Host header: a literal containing ':' (only an
    IPv6 / IPvFuture literal can) is enclosed in brackets unless it already is; URL.host itself holds it
    without brackets (urlsplit().hostname)"""
    bare = z3.And(z3.Contains(host, bytes_lit(b":")), z3.Not(z3.PrefixOf(bytes_lit(b"["), host)))
    return z3.If(bare, z3.Concat(bytes_lit(b"["), host, bytes_lit(b"]")), host)


rfc_host = z3.Function("rfc_host", BytesS, BytesS)  # lower-cased host, brackets of IP-literals removed, b"" if none
rfc_has_port = z3.Function("rfc_has_port", BytesS, BoolS)
rfc_port = z3.Function("rfc_port", BytesS, IntS)
rfc_path = z3.Function("rfc_path", BytesS, BytesS)  # complete path, every segment with its parameters
rfc_query = z3.Function("rfc_query", BytesS, BytesS)  # b"" when absent or empty
strip_last_params = z3.Function("strip_last_params", BytesS, BytesS)
is_ascii_str = z3.Function("is_ascii_str", StrS, BoolS)

PR = "urllib.parse.ParseResult"

DEFAULT_PORT_TABLE = [(b"http", 80), (b"https", 443), (b"ws", 80), (b"wss", 443), (b"socks5", 1080), (b"socks5h", 1080)]
HOST_HEADER_DEFAULTS = [(b"ftp", 21), (b"http", 80), (b"https", 443), (b"ws", 80), (b"wss", 443)]


def default_port_of(scheme_t, table):
    """(known: Bool, port: Int) for a scheme"""
    known = z3.Or(*[scheme_t == bytes_lit(s) for s, _ in table])
    port = z3.IntVal(0)
    for s, p in reversed(table):
        port = z3.If(scheme_t == bytes_lit(s), z3.IntVal(p), port)
    return known, port


def has_key(hdrs_t, key: bytes, tag: str = ""):
    """some header name lower-cases to `key`"""
    from pyvc.builtins_ import exists_in

    x = z3.Const("hx", HdrS)
    return exists_in(hdrs_t, x, lower_b(HdrS.hk(x)) == bytes_lit(key))


def dec_bytes(n):
    return encode_ascii(dec_s(n))


def register(reg):
    reg.ext_class(PR)
    reg.trusted_notes.append(
        "A-stdlib: urllib.parse.urlsplit(b) returns the RFC 3986 components of an absolute URL (scheme lower-cased; "
        ".hostname lower-cased, without userinfo/port/brackets, None if empty; .port int or None, ValueError if out of range); "
        "urlparse(b) is urlsplit(b) with the ';params' of the last path segment removed from .path; str.encode('ascii') raises "
        "UnicodeEncodeError iff a code point > 127 is present; base64.b64encode uninterpreted (bounded audit: audit/urllib_contract.py)"
    )
    reg.fields(PR, "PR", const=["src", "strips"], src="bytes", strips="bool")
    reg.allow_inline(M + "enforce_url", M + "enforce_stream", BYTESTREAM + ".__init__")

    def mk_parse(strips):
        def f(it, st, args, kwargs, node):
            eng = it.eng
            b = eng.coerce(st, args[0], "bytes")
            r = eng.alloc(st, PR, "parsed")
            eng.heap_write(st, r, "PR.src", b)
            eng.heap_write(st, r, "PR.strips", VBool(strips))
            it.emit(st, "urllib.parse", node, src=b, strips=strips)
            return r

        return f

    reg.intrinsics["urllib.parse.urlparse"] = mk_parse(True)
    reg.intrinsics["urllib.parse.urlsplit"] = mk_parse(False)

    @reg.attr(PR, "scheme")
    def pr_scheme(it, st, s):
        return VBytes(rfc_scheme(it.eng.heap_read(st, s, "PR.src").t))

    @reg.attr(PR, "hostname")
    def pr_hostname(it, st, s):
        h = rfc_host(it.eng.heap_read(st, s, "PR.src").t)
        return VOpt(z3.Length(h) == 0, VBytes(h))

    @reg.attr(PR, "port")
    def pr_port(it, st, s):
        eng = it.eng
        src = eng.heap_read(st, s, "PR.src").t
        # .port raises ValueError for a non-numeric / out of range port
        bad = z3.Function("rfc_port_invalid", BytesS, BoolS)(src)
        if eng.branch(st, bad, "port-invalid"):
            eng.raise_(st, "ValueError", tag={"from": "urllib .port"})
        eng.assume(st, z3.Implies(rfc_has_port(src), z3.And(rfc_port(src) >= 0, rfc_port(src) <= 65535)))
        return VOpt(z3.Not(rfc_has_port(src)), VInt(rfc_port(src)))

    @reg.attr(PR, "path")
    def pr_path(it, st, s):
        eng = it.eng
        src = eng.heap_read(st, s, "PR.src").t
        strips = eng.heap_read(st, s, "PR.strips").t
        return VBytes(z3.If(strips, strip_last_params(rfc_path(src)), rfc_path(src)))

    @reg.attr(PR, "query")
    def pr_query(it, st, s):
        return VBytes(rfc_query(it.eng.heap_read(st, s, "PR.src").t))

    @reg.intrinsic("base64.b64encode")
    def b64encode(it, st, args, kwargs, node):
        return VBytes(b64(it.eng.coerce(st, args[0], "bytes").t))

    # ================================================================== enforce_bytes
    @reg.contract
    class EnforceBytes(Contract):
        key = M + "enforce_bytes"
        props = ("C19",)
        suspends = False
        inline = True  # callers inline the real body (3 branches); the body itself is verified here
        variants = [("bytes", {"value": "bytes"}), ("str", {"value": "str"}), ("other", {"value": "int"})]
        raises = ["TypeError"]
        raises_props = ("C19",)

        def ensures(self, c):
            v = c.args["value"]
            if isinstance(v, VBytes):
                return [("bytes_pass_through", ("C19",), c.eng.coerce(c.st, c.result, "bytes").t == v.t)]
            if isinstance(v, VStr):
                return [
                    ("ascii_str_is_encoded", ("C19",), c.eng.coerce(c.st, c.result, "bytes").t == encode_ascii(v.t)),
                    ("only_ascii_str_accepted", ("C19",), is_ascii_str(v.t)),
                ]
            return [("other_types_rejected", ("C19",), False)]

        def exc_ensures(self, c, exc):
            v = c.args["value"]
            if isinstance(v, VBytes):
                return [("bytes_never_rejected", ("C19",), False)]
            if isinstance(v, VStr):
                return [("str_rejected_only_if_non_ascii", ("C19",), z3.Not(is_ascii_str(v.t)))]
            return []

    # ================================================================== enforce_headers
    def two_str_pairs(eng, st):
        return VList([VTuple([eng.mk("str", "k1"), eng.mk("bytes", "v1")]), VTuple([eng.mk("bytes", "k2"), eng.mk("str", "v2")])])

    def two_entry_mapping(eng, st):
        return VDict({"k1": eng.mk("str", "mv1"), b"k2": eng.mk("bytes", "mv2")})

    @reg.contract
    class EnforceHeaders(Contract):
        key = M + "enforce_headers"
        props = ("C19", "C03")
        suspends = False
        inline = True
        variants = [
            ("none", {"value": "none"}),
            ("bytes_pairs", {"value": "seq:hdr"}),
            ("two_mixed_pairs", {"value": two_str_pairs}),
            ("two_entry_mapping", {"value": two_entry_mapping}),
            ("other", {"value": "int"}),
        ]
        raises = ["TypeError"]
        raises_props = ("C19",)

        def ensures(self, c):
            v = c.args["value"]
            e, st = c.eng, c.st
            r = c.result
            if isinstance(v, VNone):
                return [("none_is_empty_list", ("C19",), isinstance(r, VList) and not r.items)]
            if isinstance(v, VSeq):
                # "header lists keep order and duplicates" - including the CALLER's list: include_request_headers extends the list
                # it is given in place (`headers += [...]`), so handing back the caller's own list object makes one request's
                # Content-Length appear in the caller's list and in every later request built from it (seeds C19-w4-1 / C03-w4-1).
                # Decided on object identity of the symbolic value: `return value` is the same object, a comprehension is not.
                return [("bytes_pairs_unchanged_same_order", ("C19",), e.coerce(st, r, "seq:hdr").t == v.t),
                        ("result_is_a_new_list_never_the_callers_own", ("C19", "C03"), r is not v)]
            if isinstance(v, VList):
                ok = isinstance(r, VList) and len(r.items) == 2
                if not ok:
                    return [("keeps_length", ("C19",), False)]
                exp = [
                    (encode_ascii(v.items[0].items[0].t), v.items[0].items[1].t),
                    (v.items[1].items[0].t, encode_ascii(v.items[1].items[1].t)),
                ]
                goals = []
                for i, (k, w) in enumerate(exp):
                    it_ = e.unbox(st, r.items[i])
                    goals.append(z3.And(e.coerce(st, it_.items[0], "bytes").t == k, e.coerce(st, it_.items[1], "bytes").t == w))
                return [("elementwise_enforce_bytes_in_order", ("C19",), z3.And(*goals))]
            if isinstance(v, VDict):
                ok = isinstance(r, VList) and len(r.items) == 2
                if not ok:
                    return [("mapping_keeps_length", ("C19",), False)]
                i0, i1 = r.items[0].items, r.items[1].items
                return [("mapping_items_in_order", ("C19",), z3.And(
                    e.coerce(st, i0[0], "bytes").t == bytes_lit(b"k1"), e.coerce(st, i0[1], "bytes").t == encode_ascii(v.items["k1"].t),
                    e.coerce(st, i1[0], "bytes").t == bytes_lit(b"k2"), e.coerce(st, i1[1], "bytes").t == v.items[b"k2"].t))]
            return [("other_types_rejected", ("C19",), False)]

        def exc_ensures(self, c, exc):
            v = c.args["value"]
            if isinstance(v, (VNone, VSeq)):
                return [("never_rejected", ("C19",), False)]
            if isinstance(v, VList):
                return [("rejected_only_if_non_ascii", ("C19",), z3.Or(z3.Not(is_ascii_str(v.items[0].items[0].t)), z3.Not(is_ascii_str(v.items[1].items[1].t))))]
            if isinstance(v, VDict):
                return [("rejected_only_if_non_ascii", ("C19",), z3.Not(is_ascii_str(v.items["k1"].t)))]
            return []

    # ================================================================== include_request_headers
    @reg.contract
    class IncludeRequestHeaders(Contract):
        key = M + "include_request_headers"
        props = ("C03", "C19", "C18")
        suspends = False
        params = {"headers": "seq:hdr"}
        variants = [("no_content", {"content": "none"}), ("bytes_content", {"content": "bytes"}), ("iterator_content", {"content": "val"})]
        result_kind = "seq:hdr"

        def requires(self, c):
            v = c.args["content"]
            if isinstance(v, VVal):
                # an iterator body is neither None nor bytes
                f = z3.Function("isinst_bytes", ValS, BoolS)
                return [("iterator", z3.And(v.t != none_val, z3.Not(f(v.t))))]
            return []

        def spec(self, c, old=False):
            h = c.args["headers"].t
            url = c.args["url"]
            content = c.args["content"]
            scheme = F(c, url, "URL.scheme")
            host = F(c, url, "URL.host")
            port = c.new(url, "URL.port")
            known, dport = default_port_of(scheme, HOST_HEADER_DEFAULTS)
            default = z3.Or(port.none, z3.And(known, port.val.t == dport))
            host = authority_host(host)  # host_wf (from the property): IP-literals are bracketed in an authority
            hostval = z3.If(default, host, z3.Concat(host, bytes_lit(b":"), dec_bytes(port.val.t)))
            has_host = has_key(h, b"host", "host")
            has_cl = has_key(h, b"content-length", "cl")
            has_te = has_key(h, b"transfer-encoding", "te")
            h1 = z3.If(has_host, h, z3.Concat(z3.Unit(HdrS.mk_hdr(bytes_lit(b"Host"), hostval)), h))
            none_needed = z3.Or(has_cl, has_te)
            if isinstance(content, VNone):
                exp = h1
            elif isinstance(content, VBytes):
                cl = z3.Unit(HdrS.mk_hdr(bytes_lit(b"Content-Length"), dec_bytes(z3.Length(content.t))))
                exp = z3.If(none_needed, h1, z3.Concat(h1, cl))
            else:
                te = z3.Unit(HdrS.mk_hdr(bytes_lit(b"Transfer-Encoding"), bytes_lit(b"chunked")))
                exp = z3.If(none_needed, h1, z3.Concat(h1, te))
            return exp, hostval, default

        def ensures(self, c):
            exp, hostval, default = self.spec(c)
            r = c.eng.coerce(c.st, c.result, "seq:hdr").t
            # C18: the one shared function both flavours go through treats an async iterator body like a sync one
            return [("default_headers_spec", ("C03", "C19", "C18"), r == exp)]

    def F(c, ref, key, old=False):
        return (c.old(ref, key) if old else c.new(ref, key)).t

    # ================================================================== Origin
    @reg.contract
    class OriginInit(Contract):
        key = ORIGIN + ".__init__"
        props = ("C19", "C10")
        suspends = False
        params = {"scheme": "bytes", "host": "bytes", "port": "int"}

        def ensures(self, c):
            s = c.self
            return [("stores_components", ("C19", "C10"), z3.And(F(c, s, "Origin.scheme") == c.args["scheme"].t, F(c, s, "Origin.host") == c.args["host"].t, F(c, s, "Origin.port") == c.args["port"].t))]

        def apply(self, it, st, self_v, args, kwargs, node):
            eng = it.eng
            a = dict(zip(["scheme", "host", "port"], args))
            a.update(kwargs)
            eng.heap_write(st, self_v, "Origin.scheme", eng.coerce(st, a["scheme"], "bytes"))
            eng.heap_write(st, self_v, "Origin.host", eng.coerce(st, a["host"], "bytes"))
            eng.heap_write(st, self_v, "Origin.port", eng.coerce(st, a["port"], "int"))
            return NONE

    @reg.contract
    class OriginEq(Contract):
        key = ORIGIN + ".__eq__"
        props = ("C10", "C19")
        suspends = False
        params = {"other": "ref:" + ORIGIN}

        def ensures(self, c):
            r = c.eng.truthy(c.st, c.result)
            return [("equal_iff_scheme_host_port_equal", ("C10", "C19"), c.eng.z_bool(r) == origin_fields_equal(c.eng, c.st, c.self, c.args["other"]))]

    # ================================================================== URL
    @reg.contract
    class URLInit(Contract):
        key = URL + ".__init__"
        props = ("C19", "C03", "C11", "C10", "C15")
        suspends = False
        variants = [
            ("url_bytes", {"url": "bytes", "scheme": "bytes", "host": "bytes", "port": "opt:int", "target": "bytes"}),
            ("url_str", {"url": "str", "scheme": "bytes", "host": "bytes", "port": "opt:int", "target": "bytes"}),
            ("components_bytes", {"url": "bytes", "scheme": "bytes", "host": "bytes", "port": "opt:int", "target": "bytes"}),
            ("components_str", {"url": "str", "scheme": "str", "host": "str", "port": "opt:int", "target": "str"}),
        ]
        raises = ["TypeError", "ValueError"]
        raises_props = ("C19",)

        def requires(self, c):
            u = c.args["url"]
            v = c.eng.cur_variant
            nonempty = z3.Length(u.t) > 0
            return [("variant", nonempty if v.startswith("url_") else z3.Not(nonempty))]

        def ensures(self, c):
            s = c.self
            v = c.eng.cur_variant
            out = []
            if v.startswith("url_"):
                u = c.args["url"]
                b = u.t if isinstance(u, VBytes) else encode_ascii(u.t)
                path = rfc_path(b)
                q = rfc_query(b)
                target = z3.Concat(z3.If(z3.Length(path) > 0, path, bytes_lit(b"/")), z3.If(z3.Length(q) > 0, z3.Concat(bytes_lit(b"?"), q), z3.Empty(BytesS)))
                port = c.new(s, "URL.port")
                out += [
                    ("scheme_is_rfc_scheme", ("C19", "C11", "C10"), F(c, s, "URL.scheme") == rfc_scheme(b)),
                    ("host_is_lowercased_rfc_host", ("C19", "C11", "C10"), F(c, s, "URL.host") == rfc_host(b)),
                    ("port_is_rfc_port", ("C19",), z3.And(port.none == z3.Not(rfc_has_port(b)), z3.Implies(rfc_has_port(b), port.val.t == rfc_port(b)))),
                    ("target_is_complete_path_plus_query", ("C19", "C03", "C11"), F(c, s, "URL.target") == target),
                ]
                if isinstance(u, VStr):
                    out.append(("str_url_is_ascii", ("C19",), is_ascii_str(u.t)))
                # every connect decodes the host with .decode("ascii") (class invariant `Origin.host is ASCII`, ASSUMED by the
                # connection contracts): it is established here or nowhere.  Text input is ASCII by enforce_bytes; raw bytes
                # input is not validated at all -> UnicodeDecodeError reaches the caller (design_probes/p36, known finding)
                is_ascii_bytes = z3.Function("is_ascii_bytes", BytesS, BoolS)
                out.append(("host_is_ascii_the_invariant_every_connect_relies_on", ("C15",), True if isinstance(u, VStr) else is_ascii_bytes(F(c, s, "URL.host"))))
            else:
                enc = lambda x: x.t if isinstance(x, VBytes) else encode_ascii(x.t)  # noqa: E731
                out += [
                    ("components_stored", ("C19",), z3.And(
                        F(c, s, "URL.scheme") == enc(c.args["scheme"]), F(c, s, "URL.host") == enc(c.args["host"]),
                        F(c, s, "URL.target") == enc(c.args["target"]), c.eng.eq(c.st, c.new(s, "URL.port"), c.args["port"]))),
                    ("host_is_ascii_the_invariant_every_connect_relies_on", ("C15",), True if isinstance(c.args["host"], VStr) else z3.Function("is_ascii_bytes", BytesS, BoolS)(F(c, s, "URL.host"))),
                ]
            return out

        def exc_ensures(self, c, exc):
            v = c.eng.cur_variant
            if exc.cls == "TypeError":
                strs = [a for a in c.args.values() if isinstance(a, VStr)]
                return [("type_error_only_for_non_ascii_text", ("C19",), z3.Or(*[z3.Not(is_ascii_str(a.t)) for a in strs]) if strs else False)]
            if exc.cls == "ValueError":
                return [("value_error_only_from_port_parsing", ("C19",), v.startswith("url_") and exc.tag.get("from") == "urllib .port")]
            return []

        def apply(self, it, st, self_v, args, kwargs, node):
            # modular use with explicit components (the way the package itself builds URLs)
            eng = it.eng
            if args:
                raise Unsupported("URL(url) by contract at a call site")
            for f, kind in (("scheme", "bytes"), ("host", "bytes"), ("target", "bytes")):
                eng.heap_write(st, self_v, "URL." + f, eng.coerce(st, kwargs.get(f, VBytes(b"")), kind))
            eng.heap_write(st, self_v, "URL.port", eng.coerce(st, kwargs.get("port", NONE), "opt:int"))
            return NONE

    @reg.contract
    class URLOrigin(Contract):
        key = URL + ".origin"
        props = ("C19", "C10")
        suspends = False
        raises = ["KeyError"]
        raises_props = ("C19",)
        result_kind = "ref:" + ORIGIN

        def spec(self, c, r):
            s = c.self
            scheme = F(c, s, "URL.scheme")
            port = c.new(s, "URL.port")
            known, dport = default_port_of(scheme, DEFAULT_PORT_TABLE)
            return known, [
                ("origin_scheme_host", ("C19", "C10"), z3.And(F(c, r, "Origin.scheme") == scheme, F(c, r, "Origin.host") == F(c, s, "URL.host"))),
                ("origin_port_explicit_or_default", ("C19", "C10"), F(c, r, "Origin.port") == z3.If(port.none, dport, port.val.t)),
            ]

        def ensures(self, c):
            if not isinstance(c.result, VRef):
                # not an Origin built in this call from the URL's current fields (e.g. a remembered one: the URL's attributes are
                # publicly assignable, routing and the TLS decision would then follow a stale origin - seed C10-w5-1)
                return [("origin_scheme_host", ("C19", "C10"), False)]
            known, goals = self.spec(c, c.result)
            return goals + [("only_known_schemes_have_origins", ("C19",), known)]

        def exc_ensures(self, c, exc):
            scheme = F(c, c.self, "URL.scheme")
            known, _ = default_port_of(scheme, DEFAULT_PORT_TABLE)
            return [("key_error_only_for_unknown_scheme", ("C19",), z3.Not(known))]

        def apply(self, it, st, self_v, args, kwargs, node):
            from pyvc.engine import Ctx

            eng = it.eng
            scheme = eng.heap_read(st, self_v, "URL.scheme").t
            known, dport = default_port_of(scheme, DEFAULT_PORT_TABLE)
            if not eng.branch(st, known, "scheme-known"):
                eng.raise_(st, "KeyError", tag={"from": "URL.origin"})
            o = eng.alloc(st, ORIGIN, "origin")
            port = eng.heap_read(st, self_v, "URL.port")
            eng.heap_write(st, o, "Origin.scheme", VBytes(scheme))
            eng.heap_write(st, o, "Origin.host", eng.heap_read(st, self_v, "URL.host"))
            # contract as proved for the real property; the explicit-port-0 corner is the recorded finding
            p = eng.fresh(st, "int", "origin_port")
            eng.assume(st, z3.Implies(z3.And(z3.Not(port.none), port.val.t != 0), p.t == port.val.t))
            eng.assume(st, z3.Implies(z3.Or(port.none, port.val.t == 0), p.t == dport))
            eng.heap_write(st, o, "Origin.port", p)
            return o

    @reg.contract
    class URLEq(Contract):
        key = URL + ".__eq__"
        props = ("C19",)
        suspends = False
        params = {"other": "ref:" + URL}

        def ensures(self, c):
            a, b = c.self, c.args["other"]
            same = z3.And(F(c, a, "URL.scheme") == F(c, b, "URL.scheme"), F(c, a, "URL.host") == F(c, b, "URL.host"),
                          F(c, a, "URL.target") == F(c, b, "URL.target"), c.eng.z_bool(c.eng.eq(c.st, c.new(a, "URL.port"), c.new(b, "URL.port"))))
            return [("equal_iff_all_components_equal", ("C19",), c.eng.z_bool(c.eng.truthy(c.st, c.result)) == same)]

    @reg.contract
    class URLBytes(Contract):
        key = URL + ".__bytes__"
        props = ("C19", "C11")
        suspends = False
        result_kind = "bytes"

        def spec(self, c):
            s = c.self
            port = c.new(s, "URL.port")
            base = z3.Concat(F(c, s, "URL.scheme"), bytes_lit(b"://"), authority_host(F(c, s, "URL.host")))
            return z3.If(port.none, z3.Concat(base, F(c, s, "URL.target")),
                         z3.Concat(base, bytes_lit(b":"), dec_bytes(port.val.t), F(c, s, "URL.target")))

        def ensures(self, c):
            return [("absolute_form", ("C19", "C11"), c.eng.coerce(c.st, c.result, "bytes").t == self.spec(c))]

    # ================================================================== Request / Response
    @reg.contract
    class RequestInit(Contract):
        key = REQUEST + ".__init__"
        props = ("C03", "C19", "C10")
        suspends = False
        params = {"method": "bytes", "url": "ref:" + URL, "headers": "seq:hdr", "content": "val", "extensions": "val"}
        variants = [("plain", {}), ]
        raises = ["TypeError"]

        def requires(self, c):
            return []

        def ensures(self, c):
            s = c.self
            ext = c.args["extensions"].t
            ext = z3.If(ext == none_val, empty_dict_val, ext)
            url0 = c.args["url"]
            url1 = c.new(s, "Request.url")
            has_target = dhas(ext, str_lit("target"))
            tgt = bytes_of_val(dget(ext, str_lit("target"), none_val))
            return [
                ("method_stored", ("C03",), F(c, s, "Request.method") == c.args["method"].t),
                ("headers_stored_in_order", ("C03", "C19"), F(c, s, "Request.headers") == c.args["headers"].t),
                ("scheme_host_port_kept", ("C03", "C19", "C10"), z3.And(
                    F(c, url1, "URL.scheme") == F(c, url0, "URL.scheme"), F(c, url1, "URL.host") == F(c, url0, "URL.host"),
                    c.eng.z_bool(c.eng.eq(c.st, c.new(url1, "URL.port"), c.new(url0, "URL.port"))))),
                ("target_extension_overrides_target", ("C03",), F(c, url1, "URL.target") == z3.If(has_target, tgt, F(c, url0, "URL.target"))),
            ]

        def apply(self, it, st, self_v, args, kwargs, node):
            """Modular construction with already type-checked components (bytes method, URL object,
            header list of bytes pairs), as done inside the package."""
            eng = it.eng
            a = dict(zip(["method", "url"], args))
            a.update(kwargs)
            eng.heap_write(st, self_v, "Request.method", eng.coerce(st, a["method"], "bytes"))
            url = a["url"]
            ext = eng.to_val(st, a.get("extensions", NONE))
            extv = z3.If(ext.t == none_val, empty_dict_val, ext.t)
            eng.assume(st, z3.Not(dhas(empty_dict_val, str_lit("target"))))
            if not isinstance(url, VRef):
                raise Unsupported("Request(url=<not a URL object>) by contract")
            has_target = dhas(extv, str_lit("target"))
            if eng.branch(st, has_target, "target-extension"):
                u2 = eng.alloc(st, URL, "url")
                for f in ("scheme", "host"):
                    eng.heap_write(st, u2, "URL." + f, eng.heap_read(st, url, "URL." + f))
                eng.heap_write(st, u2, "URL.port", eng.heap_read(st, url, "URL.port"))
                eng.heap_write(st, u2, "URL.target", VBytes(bytes_of_val(dget(extv, str_lit("target"), none_val))))
                url = u2
            eng.heap_write(st, self_v, "Request.url", url)
            eng.heap_write(st, self_v, "Request.headers", eng.coerce(st, a.get("headers", VList([])), "seq:hdr"))
            content = a.get("content", NONE)
            eng.heap_write(st, self_v, "Request.stream", eng.to_val(st, content))
            eng.heap_write(st, self_v, "Request.extensions", VVal(extv))
            it.emit(st, "Request.__init__", node, request=self_v, **a)
            return NONE

    @reg.contract
    class ResponseInit(Contract):
        key = RESPONSE + ".__init__"
        props = ("C02",)
        suspends = False
        params = {"status": "int", "headers": "seq:hdr", "content": "val", "extensions": "val"}

        def ensures(self, c):
            s = c.self
            return [
                ("status_stored", ("C02",), F(c, s, "Response.status") == c.args["status"].t),
                ("headers_stored_in_order", ("C02",), F(c, s, "Response.headers") == c.args["headers"].t),
                ("not_consumed", ("C02",), z3.Not(F(c, s, "Response._stream_consumed"))),
            ]

        def apply(self, it, st, self_v, args, kwargs, node):
            eng = it.eng
            a = dict(zip(["status"], args))
            a.update(kwargs)
            eng.heap_write(st, self_v, "Response.status", eng.coerce(st, a["status"], "int"))
            eng.heap_write(st, self_v, "Response.headers", eng.coerce(st, a.get("headers", VList([])), "seq:hdr"))
            eng.heap_write(st, self_v, "Response.stream", eng.to_val(st, a.get("content", NONE)))
            ext = a.get("extensions", NONE)
            eng.heap_write(st, self_v, "Response.extensions", eng.to_val(st, VDict({}) if isinstance(ext, VNone) else ext))
            eng.heap_write(st, self_v, "Response._stream_consumed", VBool(False))
            it.emit(st, "Response.__init__", node, response=self_v, **a)
            return NONE

    # ================================================================== Proxy (auth header)
    @reg.contract
    class ProxyInit(Contract):
        key = PROXY + ".__init__"
        props = ("C11",)
        suspends = False
        params = {"url": "ref:" + URL, "headers": "seq:hdr", "ssl_context": "val"}
        variants = [
            ("no_auth", {"auth": "none"}),
            ("auth_bytes", {"auth": lambda eng, st: VTuple([eng.mk("bytes", "user"), eng.mk("bytes", "password")])}),
        ]
        raises = ["TypeError"]

        def ensures(self, c):
            s = c.self
            h0 = c.args["headers"].t
            h1 = F(c, s, "Proxy.headers")
            a = c.args["auth"]
            out = [("url_stored", ("C11",), F(c, s, "Proxy.url") == c.args["url"].t)]
            if isinstance(a, VNone):
                out.append(("no_auth_no_header", ("C11",), h1 == h0))
                out.append(("no_auth_stored", ("C11",), F(c, s, "Proxy.auth") == none_val))
            else:
                u, p = a.items
                cred = z3.Concat(bytes_lit(b"Basic "), b64(z3.Concat(u.t, bytes_lit(b":"), p.t)))
                out.append(("basic_auth_header_leads_proxy_headers", ("C11",), h1 == z3.Concat(z3.Unit(HdrS.mk_hdr(bytes_lit(b"Proxy-Authorization"), cred)), h0)))
                pa = c.eng.unbox(c.st, c.new(s, "Proxy.auth"))
                ok = isinstance(pa, VTuple) and len(pa.items) == 2
                out.append(("auth_pair_stored", ("C11",), z3.And(pa.items[0].t == u.t, pa.items[1].t == p.t) if ok else False))
            return out
