"""Assumed contract of h2.connection.H2Connection (A-h2 in DESIGN section 3).

Ghost model: next outbound stream id, CLOSED flag of the connection state machine, per-stream
and connection send windows / max frame size as uninterpreted observers of the current ghost
state version, bytes queued for sending.  Frame encoding / HPACK / window arithmetic are NOT
verified: what is stated is which call raises what, which call carries which arguments, and
the few state facts the client code relies on.  Audited against the real h2 by
audit/h2_contract.py (bounded).
"""
from __future__ import annotations

import z3

from pyvc.values import *  # noqa: F401,F403
from pyvc.engine import Unsupported, PyRaise

X = "h2.connection.H2Connection"
EV = "h2.events.Event"
SETTINGS = "h2.settings.Settings"
CHG = "h2.settings.ChangedSetting"

EVENT_CLASSES = ["ResponseReceived", "DataReceived", "StreamEnded", "StreamReset", "RemoteSettingsChanged",
                 "ConnectionTerminated", "WindowUpdated", "PingReceived", "SettingsAcknowledged", "TrailersReceived", "OtherEvent"]

H2_PROTOCOL_ERROR = "h2.exceptions.ProtocolError"
NO_IDS = "h2.exceptions.NoAvailableStreamIDError"

h2_wire = z3.Function("h2_wire", IntS, BytesS)  # ghost: bytes queued at version k of the send buffer


def register(reg):
    # h2.errors.ErrorCodes (IntEnum; values from RFC 7540 section 7)
    for _n, _v in (("NO_ERROR", 0), ("PROTOCOL_ERROR", 1), ("INTERNAL_ERROR", 2), ("FLOW_CONTROL_ERROR", 3), ("SETTINGS_TIMEOUT", 4),
                   ("STREAM_CLOSED", 5), ("FRAME_SIZE_ERROR", 6), ("REFUSED_STREAM", 7), ("CANCEL", 8), ("COMPRESSION_ERROR", 9),
                   ("CONNECT_ERROR", 10), ("ENHANCE_YOUR_CALM", 11), ("INADEQUATE_SECURITY", 12), ("HTTP_1_1_REQUIRED", 13)):
        reg.consts["h2.errors.ErrorCodes." + _n] = VInt(_v)
    reg.ext_class(X)
    reg.ext_class(EV)
    reg.ext_class(SETTINGS)
    reg.ext_class(CHG)
    for n in EVENT_CLASSES:
        reg.ext_class("h2.events." + n, EV)
    reg.ext_class("h2.exceptions.H2Error", "Exception")
    reg.ext_class(H2_PROTOCOL_ERROR, "h2.exceptions.H2Error")
    for n in ("FlowControlError", "StreamClosedError", "TooManyStreamsError", "FrameTooLargeError", "InvalidSettingsValueError", "StreamIDTooLowError"):
        reg.ext_class("h2.exceptions." + n, H2_PROTOCOL_ERROR)
    reg.ext_class(NO_IDS, H2_PROTOCOL_ERROR)
    reg.consts["h2.connection.ConnectionState.CLOSED"] = VInt(3)
    reg.consts["h2.settings.SettingCodes.ENABLE_PUSH"] = VInt(2)
    reg.consts["h2.settings.SettingCodes.MAX_CONCURRENT_STREAMS"] = VInt(3)
    reg.consts["h2.settings.SettingCodes.MAX_HEADER_LIST_SIZE"] = VInt(6)
    reg.consts["h2.settings.SettingCodes.ENABLE_CONNECT_PROTOCOL"] = VInt(8)
    reg.trusted_notes.append(
        "A-h2: H2Connection: get_next_available_stream_id() is the next odd id (unchanged until send_headers uses it) or raises "
        "NoAvailableStreamIDError; send_headers/send_data/end_stream/acknowledge_received_data/increment_flow_control_window raise only "
        "h2.exceptions.ProtocolError subclasses and queue frames; receive_data raises only ProtocolError subclasses and returns events in "
        "frame order, each stream event carrying the stream_id of its frame; after GOAWAY the state machine is CLOSED and send_headers for "
        "a new stream raises; local_flow_control_window/max_outbound_frame_size are the current limits for send_data; data_to_send() returns "
        "and clears the queue; local_settings.max_concurrent_streams is the value set by the client (100) (bounded audit: audit/h2_contract.py)"
    )
    reg.fields(
        X, "X",
        ghost=["closed", "next_sid", "ver", "lmax", "queue_ver"],
        shared=["closed", "next_sid", "ver", "queue_ver"],
        closed="bool",  # connection state machine is CLOSED (GOAWAY seen/sent or close_connection())
        next_sid="int",
        ver="int",  # ghost version of the window / settings state (changes on receive_data, sends, and by other tasks)
        queue_ver="int",  # ghost version of the send queue
        lmax="int",  # local_settings.max_concurrent_streams
    )
    reg.fields(
        EV, "E2",
        const=["stream_id", "headers", "data", "flow_controlled_length", "last_stream_id", "error_code", "changed_max_streams", "has_max_streams"],
        stream_id="int", headers="seq:hdr", data="bytes", flow_controlled_length="int", last_stream_id="int", error_code="int",
        changed_max_streams="int", has_max_streams="bool",
    )
    reg.consts["h2.config.H2Configuration"] = VFunc("h2.config.H2Configuration")

    @reg.intrinsic("h2.config.H2Configuration")
    def mk_config(it, st, args, kwargs, node):
        return VVal(z3.Const("h2config", ValS))

    @reg.intrinsic(X)
    def mk_conn(it, st, args, kwargs, node):
        eng = it.eng
        c = eng.alloc(st, X, "h2conn")
        eng.heap_write(st, c, "X.closed", VBool(False))
        eng.heap_write(st, c, "X.next_sid", VInt(1))
        return c

    @reg.intrinsic(SETTINGS)
    def mk_settings(it, st, args, kwargs, node):
        eng = it.eng
        s = eng.alloc(st, SETTINGS, "settings")
        iv = eng.unbox(st, kwargs.get("initial_values", VDict({})))
        it.emit(st, "h2.Settings", node, settings=s, initial_values=iv, client=kwargs.get("client"))
        s.initial = iv
        st.ghost.setdefault("h2settings", {})[s.t.get_id()] = iv
        return s

    def set_local_settings(it, st, self_v, v):
        eng = it.eng
        iv = st.ghost.get("h2settings", {}).get(v.t.get_id()) if isinstance(v, VRef) else None
        mcs = iv.items.get(3) if isinstance(iv, VDict) else None
        if mcs is None:
            raise Unsupported("local_settings assigned something else than a literal Settings(...)")
        eng.heap_write(st, self_v, "X.lmax", eng.coerce(st, mcs, "int"))
        it.emit(st, "h2.set_local_settings", None, conn=self_v, settings=v, initial_values=iv)
        return NONE

    reg.attrs[(X, "set:local_settings")] = set_local_settings

    @reg.attr(X, "local_settings")
    def local_settings(it, st, self_v):
        return VRef(self_v.t, SETTINGS)

    @reg.attr(SETTINGS, "max_concurrent_streams")
    def settings_mcs(it, st, self_v):
        return it.eng.heap_read(st, VRef(self_v.t, X), "X.lmax")

    @reg.method(SETTINGS, "__delitem__")
    def settings_del(it, st, self_v, args, kwargs, node):
        it.emit(st, "h2.settings.del", node, key=args[0])
        return NONE

    def bump(it, st, self_v):
        eng = it.eng
        v = eng.fresh(st, "int", "h2ver")
        eng.heap_write(st, self_v, "X.ver", v)

    def h2_op(name, raises=True, argnames=()):
        @reg.method(X, name)
        def op(it, st, self_v, args, kwargs, node):
            eng = it.eng
            data = dict(zip(argnames, args))
            data.update(kwargs)
            ev = it.emit(st, "h2." + name, node, conn=self_v, held=list(st.held), **data)
            if raises and eng.choose(st, 2, f"h2.{name}@{node.lineno}", ["ok", "ProtocolError"]) == 1:
                eng.raise_(st, H2_PROTOCOL_ERROR, tag={"from": "h2." + name})
            bump(it, st, self_v)
            q = eng.fresh(st, "int", "h2q")
            eng.heap_write(st, self_v, "X.queue_ver", q)
            return NONE

        return op

    @reg.method(X, "initiate_connection")
    def initiate_connection(it, st, self_v, args, kwargs, node):
        # SEND_SETTINGS is an input of the connection state machine: it is refused (ProtocolError) exactly when the
        # machine is CLOSED (close_connection() / GOAWAY) - design_probes/p29
        eng = it.eng
        it.emit(st, "h2.initiate_connection", node, conn=self_v, held=list(st.held))
        if eng.branch(st, eng.heap_read(st, self_v, "X.closed").t, f"h2-closed@{node.lineno}"):
            eng.raise_(st, H2_PROTOCOL_ERROR, tag={"from": "h2.initiate_connection"})
        bump(it, st, self_v)
        q = eng.fresh(st, "int", "h2q")
        eng.heap_write(st, self_v, "X.queue_ver", q)
        return NONE
    _incr_generic = h2_op("increment_flow_control_window", argnames=("increment", "stream_id"))

    @reg.method(X, "increment_flow_control_window")
    def increment_flow_control_window(it, st, self_v, args, kwargs, node):
        # connection-level increment (no stream id): SEND_WINDOW_UPDATE is refused exactly when the connection state
        # machine is CLOSED (the 2**24 increment used here cannot overflow the 2**31-1 window; audit/h2_contract.py
        # clause 7).  Stream-level increments keep the generic "may raise a ProtocolError subclass".
        eng = it.eng
        data = dict(zip(("increment", "stream_id"), args))
        data.update(kwargs)
        if not isinstance(data.get("stream_id", NONE), VNone):
            return _incr_generic(it, st, self_v, args, kwargs, node)
        it.emit(st, "h2.increment_flow_control_window", node, conn=self_v, held=list(st.held), **data)
        if eng.branch(st, eng.heap_read(st, self_v, "X.closed").t, f"h2-closed@{node.lineno}"):
            eng.raise_(st, H2_PROTOCOL_ERROR, tag={"from": "h2.increment_flow_control_window"})
        bump(it, st, self_v)
        q = eng.fresh(st, "int", "h2q")
        eng.heap_write(st, self_v, "X.queue_ver", q)
        return NONE
    h2_op("send_data", argnames=("stream_id", "data"))
    h2_op("end_stream", argnames=("stream_id",))
    # acknowledge_received_data feeds no input to h2's state machines: it only raises ValueError for a
    # stream id <= 0 or a negative size (h2/connection.py), which event fields never are
    h2_op("acknowledge_received_data", raises=False, argnames=("acknowledged_size", "stream_id"))

    @reg.method(X, "send_headers")
    def send_headers(it, st, self_v, args, kwargs, node):
        eng = it.eng
        data = dict(zip(("stream_id", "headers", "end_stream"), args))
        data.update(kwargs)
        closed = eng.heap_read(st, self_v, "X.closed")
        ev = it.emit(st, "h2.send_headers", node, conn=self_v, held=list(st.held), closed=closed, **data)
        if eng.choose(st, 2, f"h2.send_headers@{node.lineno}", ["ok", "ProtocolError"]) == 1:
            eng.raise_(st, H2_PROTOCOL_ERROR, tag={"from": "h2.send_headers"})
        # a CLOSED connection (GOAWAY) refuses new streams
        eng.assume(st, z3.Not(closed.t))
        sid = eng.coerce(st, data["stream_id"], "int")
        nxt = eng.heap_read(st, self_v, "X.next_sid")
        eng.heap_write(st, self_v, "X.next_sid", VInt(z3.If(sid.t >= nxt.t, sid.t + 2, nxt.t)))
        bump(it, st, self_v)
        return NONE

    @reg.method(X, "close_connection")
    def close_connection(it, st, self_v, args, kwargs, node):
        eng = it.eng
        it.emit(st, "h2.close_connection", node, conn=self_v)
        eng.heap_write(st, self_v, "X.closed", VBool(True))
        return NONE

    @reg.method(X, "get_next_available_stream_id")
    def next_id(it, st, self_v, args, kwargs, node):
        eng = it.eng
        nxt = eng.heap_read(st, self_v, "X.next_sid")
        ev = it.emit(st, "h2.get_next_available_stream_id", node, conn=self_v, value=nxt)
        if eng.choose(st, 2, f"h2.next_id@{node.lineno}", ["id", "NoAvailableStreamIDError"]) == 1:
            eng.raise_(st, NO_IDS, tag={"from": "h2.get_next_available_stream_id"})
        eng.assume(st, nxt.t >= 1)
        return nxt

    @reg.method(X, "data_to_send")
    def data_to_send(it, st, self_v, args, kwargs, node):
        eng = it.eng
        q = eng.heap_read(st, self_v, "X.queue_ver")
        out = VBytes(h2_wire(q.t))
        it.emit(st, "h2.data_to_send", node, conn=self_v, value=out, held=list(st.held))
        eng.heap_write(st, self_v, "X.queue_ver", eng.fresh(st, "int", "h2q"))
        return out

    @reg.method(X, "receive_data")
    def receive_data(it, st, self_v, args, kwargs, node):
        eng = it.eng
        data = eng.coerce(st, args[0], "bytes")
        ev = it.emit(st, "h2.receive_data", node, conn=self_v, data=data, held=list(st.held))
        if eng.choose(st, 2, f"h2.receive_data@{node.lineno}", ["events", "ProtocolError"]) == 1:
            eng.raise_(st, H2_PROTOCOL_ERROR, tag={"from": "h2.receive_data", "cause": "peer"})
        bump(it, st, self_v)
        # a GOAWAY among the frames closes the state machine
        closed = eng.heap_read(st, self_v, "X.closed")
        nc = eng.fresh(st, "bool", "h2closed")
        eng.assume(st, z3.Implies(closed.t, nc.t))
        eng.heap_write(st, self_v, "X.closed", nc)
        evs = eng.fresh(st, "seq:ref:" + EV, "h2events")
        ev.data["result"] = evs
        return evs

    win = z3.Function("h2_window", IntS, IntS, IntS, IntS)  # (conn, ghost version, stream id) -> send window
    mfs = z3.Function("h2_max_frame", IntS, IntS, IntS)

    @reg.method(X, "local_flow_control_window")
    def lfcw(it, st, self_v, args, kwargs, node):
        eng = it.eng
        sid = eng.coerce(st, args[0] if args else kwargs["stream_id"], "int")
        v = eng.heap_read(st, self_v, "X.ver")
        r = VInt(win(self_v.t, v.t, sid.t))
        it.emit(st, "h2.local_flow_control_window", node, conn=self_v, stream_id=sid, value=r, ver=v)
        return r

    @reg.attr(X, "max_outbound_frame_size")
    def mofs(it, st, self_v):
        eng = it.eng
        v = eng.heap_read(st, self_v, "X.ver")
        r = VInt(mfs(self_v.t, v.t))
        eng.assume(st, r.t >= 1)  # RFC 7540: at least 16384
        it.emit(st, "h2.max_outbound_frame_size", None, conn=self_v, value=r, ver=v)
        return r

    reg.h2_window = win
    reg.h2_max_frame = mfs

    @reg.attr(X, "state_machine")
    def state_machine(it, st, self_v):
        return VRef(self_v.t, "h2.connection.StateMachine")

    reg.ext_class("h2.connection.StateMachine")

    @reg.attr("h2.connection.StateMachine", "state")
    def sm_state(it, st, self_v):
        closed = it.eng.heap_read(st, VRef(self_v.t, X), "X.closed")
        return VInt(z3.If(closed.t, z3.IntVal(3), z3.IntVal(1)))

    # ---- events ------------------------------------------------------------------------------------
    @reg.attr(EV, "changed_settings")
    def changed_settings(it, st, self_v):
        return VRef(self_v.t, "h2.events.ChangedSettings")

    reg.ext_class("h2.events.ChangedSettings")

    @reg.method("h2.events.ChangedSettings", "get")
    def changed_get(it, st, self_v, args, kwargs, node):
        eng = it.eng
        code = eng.coerce(st, args[0], "int")
        e = VRef(self_v.t, EV)
        has = eng.heap_read(st, e, "E2.has_max_streams")
        if z3.is_int_value(z3.simplify(code.t)) and z3.simplify(code.t).as_long() == 3:
            if eng.branch(st, has.t, f"settings-has-max-streams@{node.lineno}"):
                return VRef(self_v.t, CHG)
            return NONE
        raise Unsupported("changed_settings.get of another setting")

    @reg.attr(CHG, "new_value")
    def new_value(it, st, self_v):
        v = it.eng.heap_read(st, VRef(self_v.t, EV), "E2.changed_max_streams")
        it.eng.assume(st, v.t >= 0)
        return v
