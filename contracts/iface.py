"""Interface contract of AsyncConnectionInterface / ConnectionInterface (DESIGN 2.4).

The pool and the wrapping connection classes only know this interface.  Its abstract
state is a set of ghost observers per connection (avail, idle, closed, expired, and the
origin it was made for); every implementing class is verified against its own concrete
spec of the same observers (H11: idle == (_state == IDLE), ...), and the wrappers against
"returns the wrapped connection's answer".
"""
from __future__ import annotations

import z3

from pyvc.values import *  # noqa: F401,F403
from pyvc.engine import Unsupported
from .common import EXC, NET_READ_RAISES, NET_WRITE_RAISES, NET_CONNECT_RAISES
from .m_models_fields import ORIGIN, REQUEST, RESPONSE, origin_fields_equal

CI = "httpcore._async.interfaces.AsyncConnectionInterface"
RI = "httpcore._async.interfaces.AsyncRequestInterface"

# documented exception classes a connection may raise to the pool
CONN_RAISES = (
    NET_CONNECT_RAISES
    + NET_READ_RAISES
    + NET_WRITE_RAISES
    + [EXC + "ConnectionNotAvailable", EXC + "LocalProtocolError", EXC + "RemoteProtocolError", EXC + "ProxyError"]
)


def register(reg):
    reg.fields(
        CI,
        "CI",
        ghost=["avail", "idle", "closed", "expired", "origin"],
        shared=["avail", "idle", "closed", "expired"],
        const=["origin"],
        avail="bool",
        idle="bool",
        closed="bool",
        expired="bool",
        origin="ref:" + ORIGIN,  # the origin the connection was created for
    )
    reg.trusted_notes.append(
        "interface abstraction: observers of an AsyncConnectionInterface are ghost booleans that other tasks may change at "
        "suspension points but that are stable inside one (suspension-free) pool pass; has_expired() is treated as stable "
        "within a pass (monotonic clock)"
    )

    def obs(name, key):
        @reg.method(CI, name)
        def h(it, st, self_v, args, kwargs, node):
            v = it.eng.heap_read(st, self_v, key)
            it.emit(st, "ci." + name, node, conn=self_v, result=v)
            return v

        return h

    obs("is_available", "CI.avail")
    obs("is_idle", "CI.idle")
    obs("is_closed", "CI.closed")
    obs("has_expired", "CI.expired")

    @reg.method(CI, "can_handle_request")
    def can_handle(it, st, self_v, args, kwargs, node):
        eng = it.eng
        o = args[0] if args else kwargs["origin"]
        mine = eng.heap_read(st, self_v, "CI.origin")
        r = VBool(origin_fields_equal(eng, st, o, mine))
        it.emit(st, "ci.can_handle_request", node, conn=self_v, origin=o, result=r)
        return r

    @reg.method(CI, "info")
    def info(it, st, self_v, args, kwargs, node):
        st.counter += 1
        return VStr(z3.String(f"info!{st.counter}"))

    @reg.method(CI, "aclose", "close")
    def aclose(it, st, self_v, args, kwargs, node):
        eng = it.eng
        it.emit(st, "ci.aclose", node, conn=self_v, shield=st.shield)
        it.suspend(st, f"ci.aclose@{node.lineno}")
        eng.heap_write(st, self_v, "CI.closed", VBool(True))
        eng.heap_write(st, self_v, "CI.avail", VBool(False))
        eng.heap_write(st, self_v, "CI.idle", VBool(False))
        return NONE

    # Response.aread/read and Response.aclose/close on a response obtained from a connection: reading pulls the
    # body from the connection (any documented failure), closing gives the exchange back (assumed not to raise;
    # it does NOT close the connection: whether the connection survives is the connection's business)
    @reg.method(RESPONSE, "aread", "read")
    def resp_read(it, st, self_v, args, kwargs, node):
        eng = it.eng
        it.emit(st, "resp.read", node, response=self_v, shield=st.shield)
        it.suspend(st, f"resp.read@{node.lineno}")
        raises = [r for r in CONN_RAISES if not r.endswith("ConnectionNotAvailable")]
        names = ["body"] + [r.rsplit(".", 1)[-1] for r in raises]
        k = eng.choose(st, len(names), f"resp.read@{node.lineno}", names)
        if k > 0:
            eng.raise_(st, raises[k - 1], tag={"from": "resp.read"})
        return eng.fresh(st, "bytes", "body")

    @reg.method(RESPONSE, "aclose", "close")
    def resp_close(it, st, self_v, args, kwargs, node):
        it.emit(st, "resp.close", node, response=self_v, shield=st.shield)
        it.suspend(st, f"resp.close@{node.lineno}")
        return NONE

    @reg.method(CI, "handle_async_request", "handle_request")
    def handle(it, st, self_v, args, kwargs, node):
        eng = it.eng
        req = args[0] if args else kwargs["request"]
        ev = it.emit(st, "ci.handle_request", node, conn=self_v, request=req, shield=st.shield, held=list(st.held))
        it.suspend(st, f"ci.handle_request@{node.lineno}")
        raises = list(CONN_RAISES)
        names = ["response"] + [r.rsplit(".", 1)[-1] for r in raises]
        k = eng.choose(st, len(names), f"ci.handle_request@{node.lineno}", names)
        # the request body may have been pulled from by the time the call ends or fails (in
        # particular on ConnectionNotAvailable from the HTTP/2 GOAWAY branch, which comes after the send)
        body = eng.heap_read(st, req, "Request.stream")
        eng.havoc_heap(st, keys={"Body.consumed"}, keep_local=False)
        if k > 0:
            eng.raise_(st, raises[k - 1], tag={"from": "ci.handle_request"})
        resp = eng.fresh(st, "ref:" + RESPONSE, "resp")
        eng.assume(st, resp.t > 0)
        eng.assume_alive(st, resp)
        # every connection class puts the network stream into the response extensions
        ext = eng.heap_read(st, resp, "Response.extensions")
        eng.assume(st, dhas(ext.t, str_lit("network_stream")))
        stream = eng.heap_read(st, resp, "Response.stream")
        for tn in ("typing_AsyncIterable", "typing_Iterable"):
            eng.assume(st, z3.Function("isinst_" + tn, ValS, BoolS)(stream.t))
        ev.data["result"] = resp
        return resp
