"""Contracts for httpcore/_async/http11.py :: AsyncHTTP11UpgradeStream (+ sync twin).

C17: the upgrade stream serves the captured post-head bytes first, loses / duplicates /
reorders nothing for every max_bytes, then the live connection; writes, close, TLS start
and extra-info pass straight through (C16: with their timeouts).
"""
from __future__ import annotations

import z3

from pyvc.values import *  # noqa: F401,F403
from pyvc.engine import Contract
from .common import NS, NET_READ_RAISES, NET_WRITE_RAISES, NET_CONNECT_RAISES

US = "httpcore._async.http11.AsyncHTTP11UpgradeStream"


def register(reg):
    reg.fields(US, "US", const=["_stream"], _stream="ref:" + NS, _leading_data="bytes")

    def parts(c):
        s = c.new(c.self, "US._stream")
        L0 = c.old(c.self, "US._leading_data").t
        L1 = c.new(c.self, "US._leading_data").t
        N0 = c.old(s, "NS.pending").t
        N1 = c.new(s, "NS.pending").t
        return s, L0, L1, N0, N1

    @reg.contract
    class Init(Contract):
        key = US + ".__init__"
        props = ("C17",)
        params = {"leading_data": "bytes"}

        def ensures(self, c):
            return [
                ("stores_stream", ("C17",), c.new(c.self, "US._stream").t == c.args["stream"].t),
                ("stores_leading", ("C17",), c.new(c.self, "US._leading_data").t == c.args["leading_data"].t),
            ]

        def apply(self, it, st, self_v, args, kwargs, node):
            eng = it.eng
            stream = args[0] if args else kwargs["stream"]
            leading = args[1] if len(args) > 1 else kwargs["leading_data"]
            eng.heap_write(st, self_v, "US._stream", stream)
            eng.heap_write(st, self_v, "US._leading_data", eng.coerce(st, leading, "bytes"))
            return NONE

    @reg.contract
    class Read(Contract):
        key = US + ".read"
        props = ("C17", "C16")
        params = {"max_bytes": "int", "timeout": "val"}
        raises = NET_READ_RAISES + ["Cancelled"]
        raises_props = ("C17",)

        def requires(self, c):
            return [("max_bytes_pos", c.args["max_bytes"].t >= 1)]

        def ensures(self, c):
            s, L0, L1, N0, N1 = parts(c)
            r = c.eng.coerce(c.st, c.result, "bytes").t
            mb = c.args["max_bytes"].t
            return [
                ("no_loss", ("C17",), z3.Concat(r, L1, N1) == z3.Concat(L0, N0)),
                ("bounded", ("C17",), z3.Length(r) <= mb),
                (
                    "leading_first",
                    ("C17",),
                    z3.Implies(
                        z3.Length(L0) > 0,
                        z3.And(z3.Length(r) > 0, z3.PrefixOf(r, L0), N1 == N0, z3.Concat(r, L1) == L0),
                    ),
                ),
                ("then_live", ("C17",), z3.Implies(z3.Length(L0) == 0, z3.And(L1 == L0, z3.Concat(r, N1) == N0))),
            ]

        def checks(self, c):
            s, L0, L1, N0, N1 = parts(c)
            return [
                (
                    "leading_first_no_network_op",
                    ("C17",),
                    z3.Implies(z3.Length(L0) > 0, z3.BoolVal(len(c.events("net.read")) == 0)),
                )
            ]

        def exc_ensures(self, c, exc):
            s, L0, L1, N0, N1 = parts(c)
            # a failed or cancelled read consumes nothing of the captured data
            return [("failure_keeps_leading", ("C17",), L1 == L0)]

        def callsite(self, c, ev):
            if ev.name == "net.read":
                return [
                    ("read_passes_max_bytes", ("C17",), ev.data["max_bytes"].t == c.args["max_bytes"].t),
                    ("read_passes_timeout", ("C16", "C17"), ev.data["timeout"].t == c.eng.to_val(c.st, c.args["timeout"]).t),
                    ("read_on_wrapped_stream", ("C17",), ev.data["stream"].t == c.new(c.self, "US._stream").t),
                ]
            return []

    @reg.contract
    class Write(Contract):
        key = US + ".write"
        props = ("C17", "C16")
        params = {"buffer": "bytes", "timeout": "val"}
        raises = NET_WRITE_RAISES + ["Cancelled"]
        raises_props = ("C17",)

        def ensures(self, c):
            s = c.new(c.self, "US._stream")
            w0 = c.old(s, "NS.written").t
            w1 = c.new(s, "NS.written").t
            return [
                ("write_through", ("C17",), w1 == z3.Concat(w0, c.args["buffer"].t)),
                ("leading_untouched", ("C17",), c.new(c.self, "US._leading_data").t == c.old(c.self, "US._leading_data").t),
            ]

        def checks(self, c):
            return [("one_write", ("C17",), z3.BoolVal(len(c.events("net.write")) == 1))]

        def callsite(self, c, ev):
            if ev.name == "net.write":
                return [
                    ("write_passes_buffer", ("C17",), ev.data["buffer"].t == c.args["buffer"].t),
                    ("write_passes_timeout", ("C16", "C17"), ev.data["timeout"].t == c.eng.to_val(c.st, c.args["timeout"]).t),
                    ("write_on_wrapped_stream", ("C17",), ev.data["stream"].t == c.new(c.self, "US._stream").t),
                ]
            return []

    @reg.contract
    class Close(Contract):
        key = US + ".aclose"
        props = ("C17", "C06")

        def ensures(self, c):
            s = c.new(c.self, "US._stream")
            return [("closes_wrapped_stream", ("C17", "C06"), z3.Not(c.new(s, "NS.open").t))]

    @reg.contract
    class StartTLS(Contract):
        key = US + ".start_tls"
        props = ("C17", "C16", "C10")
        params = {"server_hostname": "val", "timeout": "val", "ssl_context": "val"}
        raises = NET_CONNECT_RAISES + ["Cancelled"]
        raises_props = ("C17",)

        def checks(self, c):
            evs = c.events("net.start_tls")
            return [
                ("delegates_once", ("C17", "C10"), z3.BoolVal(len(evs) == 1)),
                ("returns_tls_stream", ("C17",), z3.BoolVal(len(evs) == 1 and c.result is not None and hasattr(c.result, "t"))),
                # from the property (C17 "none lost"): bytes that arrived with the response head and were not read yet belong in
                # front of whatever the TLS layer reads from the wrapped stream; they are simply left behind here
                # (design_probes/w4_preexisting/C17_preexisting_1.py) - so the upgrade is loss-free only when there are none
                ("bytes_received_with_the_head_are_not_left_behind_by_the_tls_upgrade", ("C17",), z3.Length(c.old(c.self, "US._leading_data").t) == 0),
            ]

        def callsite(self, c, ev):
            if ev.name == "net.start_tls":
                tv = c.eng.to_val
                return [
                    ("tls_passes_timeout", ("C16", "C17"), ev.data["timeout"].t == tv(c.st, c.args["timeout"]).t),
                    ("tls_passes_hostname", ("C10", "C17"), tv(c.st, ev.data["server_hostname"]).t == tv(c.st, c.args["server_hostname"]).t),
                    ("tls_passes_context", ("C10", "C17"), tv(c.st, ev.data["ssl_context"]).t == tv(c.st, c.args["ssl_context"]).t),
                    ("tls_on_wrapped_stream", ("C17",), ev.data["stream"].t == c.new(c.self, "US._stream").t),
                ]
            return []

    @reg.contract
    class ExtraInfo(Contract):
        key = US + ".get_extra_info"
        props = ("C17",)
        params = {"info": "str"}

        def ensures(self, c):
            f = z3.Function("extra_info", IntS, StrS, ValS)
            s = c.new(c.self, "US._stream")
            return [("passes_through", ("C17",), c.eng.to_val(c.st, c.result).t == f(s.t, c.args["info"].t))]
