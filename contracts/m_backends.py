"""Contracts for httpcore/_backends/{sync,anyio,trio,auto}.py - the real network back ends -
against the stream / backend interface contract that everything else assumes (common.py).

C16: every blocking runtime operation runs under the given timeout (settimeout / fail_after);
C15: every documented runtime failure is mapped to the documented httpcore class;
C06: a failing TLS upgrade closes the raw stream; C10: arguments reach the runtime unchanged.

Assumed (A-runtime.5, NOT audited - needs a network): which exceptions socket / ssl / anyio /
trio operations raise (the sets below), and that `fail_after(t)` cancels its body at the deadline
(the body sees a BaseException, the `with` statement raises TimeoutError / trio.TooSlowError).
"""
from __future__ import annotations

import z3

from pyvc.values import *  # noqa: F401,F403
from pyvc.engine import Contract, Unsupported, PyRaise
from pyvc.registry import CtxHandler
from pyvc.interp import VCtx
from .common import EXC, NS, NB

B = "httpcore._backends."
SYNC_STREAM = B + "sync.SyncStream"
SYNC_BACKEND = B + "sync.SyncBackend"
ANYIO_STREAM = B + "anyio.AnyIOStream"
ANYIO_BACKEND = B + "anyio.AnyIOBackend"
TRIO_STREAM = B + "trio.TrioStream"
TRIO_BACKEND = B + "trio.TrioBackend"
AUTO = B + "auto.AutoBackend"

RT = "pyvc.RuntimeStream"  # socket / anyio stream / trio stream object (opaque runtime resource)
RT_SOCK = "pyvc.Socket"
RT_ANYIO = "pyvc.AnyioStream"
RT_TRIO = "pyvc.TrioStream"
float_inf = z3.Const("float_inf", ValS)

READ = [EXC + "ReadTimeout", EXC + "ReadError"]
WRITE = [EXC + "WriteTimeout", EXC + "WriteError"]
CONNECT = [EXC + "ConnectTimeout", EXC + "ConnectError"]


def F(c, ref, key, old=False):
    return (c.old(ref, key) if old else c.new(ref, key)).t


class FailAfter(CtxHandler):
    def __init__(self, param, timeout_cls):
        self.param = param
        self.timeout_cls = timeout_cls

    def enter(self, it, st):
        st.ghost.setdefault("deadlines", []).append(self)
        it.emit(st, "rt.fail_after", None, deadline=self.param)
        return NONE

    def exit(self, it, st, exc):
        st.ghost["deadlines"].remove(self)
        if exc is not None and exc.cls == "DeadlineCancelled" and exc.tag.get("scope") is self:
            st.log.append(f"deadline -> {self.timeout_cls}")
            raise PyRaise(VExc(self.timeout_cls, tag={"from": "fail_after", "held": list(st.held), "shield": st.shield, "trace_len": len(st.trace)}))
        return False


def register(reg):
    reg.ext_class(RT)
    for k in (RT_SOCK, RT_ANYIO, RT_TRIO):
        reg.ext_class(k, RT)
    reg.ext_class("DeadlineCancelled", "BaseException")
    reg.ext_class("ConnectionResetError", "OSError")
    for n in ("anyio.BrokenResourceError", "anyio.ClosedResourceError", "anyio.EndOfStream", "anyio.BusyResourceError",
              "trio.BrokenResourceError", "trio.ClosedResourceError", "trio.TooSlowError", "trio.BusyResourceError"):
        reg.ext_class(n, "Exception")
    reg.ext_class("ssl.SSLSocket")
    reg.ext_class("trio.SSLStream", RT_TRIO)
    reg.ext_class("trio.SocketStream", RT_TRIO)
    reg.trusted_notes.append(
        "A-runtime.5 (assumed, not audited): socket ops raise socket.timeout / OSError (ssl.SSLError is an OSError); anyio ops raise "
        "BrokenResourceError / ClosedResourceError / EndOfStream (TLS wrap also ssl.SSLError, connect also OSError); trio ops raise "
        "BrokenResourceError / ClosedResourceError (TLS failures are wrapped in BrokenResourceError: audit/trio_handshake_errors.py; connect also OSError); fail_after(t) cancels its body "
        "at the deadline and then raises TimeoutError (anyio) / trio.TooSlowError"
    )
    reg.fields(RT, "RT", ghost=["timeout", "closed", "sent"], timeout="val", closed="bool", sent="bytes")
    reg.fields(SYNC_STREAM, "SyS", const=["_sock"], _sock="ref:" + RT_SOCK)
    reg.fields(ANYIO_STREAM, "AnS", const=["_stream"], _stream="ref:" + RT_ANYIO)
    reg.fields(TRIO_STREAM, "TrS", const=["_stream"], _stream="ref:" + RT_TRIO)
    reg.fields(AUTO, "Auto", _backend="ref:" + NB)
    reg.consts["socket.IPPROTO_TCP"] = VInt(6)
    reg.consts["socket.TCP_NODELAY"] = VInt(1)
    reg.consts["socket.AF_UNIX"] = VInt(1)
    reg.consts["socket.SOCK_STREAM"] = VInt(1)
    reg.consts["sys.platform"] = VStr("linux")

    def deadline_of(st):
        ds = st.ghost.get("deadlines", [])
        return ds[-1] if ds else None

    def rt_op(it, st, name, node, raises, suspends=True, **data):
        """one blocking runtime operation: event (with the innermost deadline / socket timeout),
        suspension, outcome"""
        eng = it.eng
        d = deadline_of(st)
        ev = it.emit(st, "rt." + name, node, deadline=(d.param if d is not None else None), held_locks=list(st.held), **data)
        if suspends:
            it.suspend(st, f"rt.{name}@{node.lineno}")
        names = ["ok"] + [r.rsplit(".", 1)[-1] for r in raises]
        extra = []
        if d is not None and eng.tree == "async":
            extra = ["DeadlineCancelled"]
        k = eng.choose(st, len(names) + len(extra), f"rt.{name}@{node.lineno}", names + extra)
        ev.data["outcome"] = (names + extra)[k]
        if k > len(raises):
            eng.raise_(st, "DeadlineCancelled", tag={"scope": d, "from": "rt." + name})
        if k > 0:
            eng.raise_(st, raises[k - 1], tag={"from": "rt." + name})
        return ev

    # ---- fail_after -----------------------------------------------------------------------------
    @reg.intrinsic("anyio.fail_after")
    def anyio_fail_after(it, st, args, kwargs, node):
        return VCtx(FailAfter(it.eng.to_val(st, args[0] if args else kwargs.get("delay", NONE)), "TimeoutError"))

    @reg.intrinsic("trio.fail_after")
    def trio_fail_after(it, st, args, kwargs, node):
        return VCtx(FailAfter(it.eng.to_val(st, args[0] if args else kwargs.get("seconds", NONE)), "trio.TooSlowError"))

    # ---- socket -----------------------------------------------------------------------------------
    SOCK_ERR = ["socket.timeout", "OSError", "ConnectionResetError", "BlockingIOError"]

    def sent_append(eng, st, obj, data_t):
        cur = eng.heap_read(st, obj, "RT.sent")
        eng.heap_write(st, obj, "RT.sent", VBytes(z3.Concat(cur.t, data_t)))

    @reg.method(RT, "settimeout")
    def settimeout(it, st, self_v, args, kwargs, node):
        t = it.eng.to_val(st, args[0])
        it.eng.heap_write(st, self_v, "RT.timeout", t)
        it.emit(st, "rt.settimeout", node, sock=self_v, value=t)
        return NONE

    def sock_op(name, result_kind=None, argnames=()):
        @reg.method(RT_SOCK, name)
        def op(it, st, self_v, args, kwargs, node):
            eng = it.eng
            data = dict(zip(argnames, args))
            data.update(kwargs)
            ev = rt_op(it, st, "sock." + name, node, SOCK_ERR, suspends=False, sock=self_v, sock_timeout=eng.heap_read(st, self_v, "RT.timeout"), **data)
            if result_kind:
                r = eng.fresh(st, result_kind, name)
                if result_kind == "int":
                    # socket.send: accepts a non-empty prefix of the data and returns its length
                    b = eng.coerce(st, data.get("data", VBytes(b"")), "bytes")
                    eng.assume(st, z3.And(r.t >= 1, r.t <= z3.Length(b.t)))
                    sent_append(eng, st, self_v, z3.Extract(b.t, 0, r.t))
                ev.data["result"] = r
                return r
            return NONE

        return op

    sock_op("recv", "bytes", ("max_bytes",))
    sock_op("send", "int", ("data",))
    sock_op("connect", None, ("path",))
    sock_op("setsockopt", None)

    @reg.method(RT_SOCK, "shutdown")
    def sock_shutdown(it, st, self_v, args, kwargs, node):
        # socket.shutdown() fails with OSError (ENOTCONN) on a connection the peer has reset
        rt_op(it, st, "sock.shutdown", node, ["OSError"], suspends=False, sock=self_v, sock_timeout=it.eng.heap_read(st, self_v, "RT.timeout"))
        return NONE

    @reg.method(RT, "close")
    def sock_close(it, st, self_v, args, kwargs, node):
        it.emit(st, "rt.close", node, obj=self_v)
        it.eng.heap_write(st, self_v, "RT.closed", VBool(True))
        return NONE

    @reg.intrinsic("socket.create_connection")
    def create_connection(it, st, args, kwargs, node):
        eng = it.eng
        data = dict(zip(("address", "timeout", "source_address"), args))
        data.update(kwargs)
        # + UnicodeError: the host name is IDNA-encoded for the resolver (a label of more than 63 characters cannot be:
        # design_probes/p36) - the same for the two async runtimes below
        ev = rt_op(it, st, "socket.create_connection", node, SOCK_ERR + ["UnicodeError"], suspends=False, **data)
        s = eng.alloc(st, RT_SOCK, "sock")
        eng.heap_write(st, s, "RT.closed", VBool(False))
        ev.data["result_obj"] = s
        return s

    @reg.intrinsic("socket.socket")
    def socket_socket(it, st, args, kwargs, node):
        eng = it.eng
        s = eng.alloc(st, RT_SOCK, "sock")
        eng.heap_write(st, s, "RT.closed", VBool(False))
        eng.heap_write(st, s, "RT.timeout", VVal(none_val))
        it.emit(st, "rt.socket.new", node, result_obj=s)
        return s

    # the raw socket behind an anyio stream / the trio socket stream accept setsockopt like a socket does
    @reg.attr(RT_ANYIO, "_raw_socket")
    def raw_socket(it, st, self_v):
        return self_v

    @reg.method(RT, "setsockopt")
    def any_setsockopt(it, st, self_v, args, kwargs, node):
        rt_op(it, st, "sock.setsockopt", node, ["OSError"], suspends=False, sock=self_v)
        return NONE

    @reg.intrinsic("anyio.aclose_forcefully", "trio.aclose_forcefully")
    def aclose_forcefully(it, st, args, kwargs, node):
        # closes at once, without waiting for the peer (documented not to block for long; runs to completion under cancellation)
        it.emit(st, "rt.close", node, obj=args[0])
        it.eng.heap_write(st, args[0], "RT.closed", VBool(True))
        return NONE

    def wrap_socket(it, st, recv, args, kwargs, node):
        eng = it.eng
        sock = args[0]
        rt_op(it, st, "ssl.wrap_socket", node, SOCK_ERR + ["ssl.SSLError"], suspends=False, sock=sock, sock_timeout=eng.heap_read(st, sock, "RT.timeout"), context=recv, server_hostname=kwargs.get("server_hostname", NONE))
        s = eng.alloc(st, RT_SOCK, "tlssock")
        eng.heap_write(st, s, "RT.closed", VBool(False))
        return s

    reg.val_methods = dict(getattr(reg, "val_methods", {}))
    reg.val_methods["wrap_socket"] = wrap_socket
    reg.isinstance_hooks = dict(getattr(reg, "isinstance_hooks", {}))
    reg.isinstance_hooks["ssl.SSLSocket"] = lambda it, st, v: z3.BoolVal(False)  # TLS-in-TLS branch is `pragma: no cover`; not modelled

    # ---- anyio ------------------------------------------------------------------------------------
    AIO = ["anyio.BrokenResourceError", "anyio.ClosedResourceError", "anyio.EndOfStream"]

    def aio_op(name, raises, result_kind=None, cls=RT_ANYIO):
        @reg.method(cls, name)
        def op(it, st, self_v, args, kwargs, node):
            eng = it.eng
            ev = rt_op(it, st, "anyio." + name, node, raises, obj=self_v, args=args, kwargs=kwargs)
            if name in ("send", "send_all"):
                # anyio ByteSendStream.send / trio SendStream.send_all transmit the whole item
                d = args[0] if args else kwargs.get("item", kwargs.get("data"))
                sent_append(eng, st, self_v, eng.coerce(st, d, "bytes").t)
            if result_kind:
                r = eng.fresh(st, result_kind, name)
                ev.data["result"] = r
                return r
            return NONE

        return op

    aio_op("receive", AIO, "bytes")
    aio_op("send", ["anyio.BrokenResourceError", "anyio.ClosedResourceError"])
    aio_op("receive_some", ["trio.BrokenResourceError", "trio.ClosedResourceError"], "bytes", cls=RT_TRIO)
    aio_op("send_all", ["trio.BrokenResourceError", "trio.ClosedResourceError"], cls=RT_TRIO)
    # trio wraps TLS-level failures (ssl.SSLError) in BrokenResourceError: audit/trio_handshake_errors.py
    aio_op("do_handshake", ["trio.BrokenResourceError"], cls=RT_TRIO)

    @reg.method(RT, "aclose")
    def rt_aclose(it, st, self_v, args, kwargs, node):
        it.emit(st, "rt.close", node, obj=self_v)
        it.eng.heap_write(st, self_v, "RT.closed", VBool(True))
        it.suspend(st, f"rt.aclose@{node.lineno}", cancellable=False)
        return NONE

    @reg.intrinsic("anyio.streams.tls.TLSStream.wrap")
    def tls_wrap(it, st, args, kwargs, node):
        eng = it.eng
        rt_op(it, st, "anyio.TLSStream.wrap", node, ["anyio.BrokenResourceError", "anyio.EndOfStream", "ssl.SSLError"], inner=args[0], kwargs=kwargs)
        s = eng.alloc(st, RT_ANYIO, "tlsstream")
        eng.heap_write(st, s, "RT.closed", VBool(False))
        return s

    def connect_stub(name, evname, raises):
        @reg.intrinsic(name)
        def op(it, st, args, kwargs, node):
            eng = it.eng
            ev = rt_op(it, st, evname, node, raises, args=args, kwargs=kwargs)
            s = eng.alloc(st, RT_TRIO if name.startswith("trio") else RT_ANYIO, "rtstream")
            eng.heap_write(st, s, "RT.closed", VBool(False))
            ev.data["result_obj"] = s
            return s

        return op

    connect_stub("anyio.connect_tcp", "anyio.connect_tcp", ["OSError", "anyio.BrokenResourceError", "UnicodeError"])
    connect_stub("anyio.connect_unix", "anyio.connect_unix", ["OSError", "anyio.BrokenResourceError"])
    connect_stub("trio.open_tcp_stream", "trio.open_tcp_stream", ["OSError", "trio.BrokenResourceError", "UnicodeError"])
    connect_stub("trio.open_unix_socket", "trio.open_unix_socket", ["OSError", "trio.BrokenResourceError"])

    @reg.intrinsic("trio.SSLStream")
    def trio_sslstream(it, st, args, kwargs, node):
        eng = it.eng
        s = eng.alloc(st, RT_TRIO, "trio_ssl")
        eng.heap_write(st, s, "RT.closed", VBool(False))
        it.emit(st, "rt.trio.SSLStream", node, inner=args[0], kwargs=kwargs)
        return s

    @reg.intrinsic("anyio.sleep", "trio.sleep")
    def rt_sleep(it, st, args, kwargs, node):
        it.emit(st, "rt.sleep", node, seconds=args[0])
        it.suspend(st, "rt.sleep")
        return NONE

    # constructors of the three stream classes: store the runtime object
    def stream_ctor(cls, short, field):
        @reg.contract
        class Ctor(Contract):
            key = cls + ".__init__"
            props = ("C06",)
            suspends = False
            params = {"sock": "ref:" + RT_SOCK, "stream": "ref:" + (RT_TRIO if short == "TrS" else RT_ANYIO)}

            def ensures(self, c):
                arg = c.args.get("sock") or c.args.get("stream")
                return [("stores_the_runtime_stream", ("C06",), F(c, c.self, f"{short}.{field}") == arg.t)]

            def apply(self, it, st, self_v, args, kwargs, node):
                v = args[0] if args else list(kwargs.values())[0]
                it.eng.heap_write(st, self_v, f"{short}.{field}", v)
                it.emit(st, "backend.stream_created", node, stream=self_v, runtime=v, cls=cls)
                return NONE

        Ctor.__name__ = "Ctor_" + short

    stream_ctor(SYNC_STREAM, "SyS", "_sock")
    stream_ctor(ANYIO_STREAM, "AnS", "_stream")
    stream_ctor(TRIO_STREAM, "TrS", "_stream")

    def expected_deadline(c, kind):
        """what the runtime must be told for the `timeout` argument: anyio/socket: the value itself;
        trio: inf for None, else the value"""
        t = c.eng.to_val(c.st, c.args["timeout"]).t
        if kind == "trio":
            return z3.If(t == none_val, float_inf, t)
        return t

    def _with_attrs(c, method_name):
        """attribute names X for which the sibling method `method_name` of the class under verification contains `with self.X`"""
        import ast as _ast
        fi = c.fi
        out = set()
        mod = c.eng.repo.modules.get(fi.module)
        sib = mod.funcs.get(f"{fi.cls}.{method_name}") if mod is not None and fi.cls else None
        if sib is None:
            return out
        for n in _ast.walk(sib.node):
            if isinstance(n, (_ast.With, _ast.AsyncWith)):
                for item in n.items:
                    e = item.context_expr
                    if isinstance(e, _ast.Attribute) and isinstance(e.value, _ast.Name) and e.value.id == "self":
                        out.add(e.attr)
        return out

    # ================================================================== stream methods
    def stream_contract(cls, short, field, kind, method, op_events, raises, props=("C16", "C15"), params=None, closes_on_failure=False):
        @reg.contract
        class M(Contract):
            key = f"{cls}.{method}"
            trees = ("async",) if kind != "sync" else ("sync",)

            def callsite(self, c, ev):
                out = []
                if ev.name in op_events:
                    want = expected_deadline(c, kind)
                    if kind == "sync":
                        got = ev.data.get("sock_timeout")
                        if ev.name == "rt.socket.create_connection":
                            got = c.eng.to_val(c.st, ev.data.get("timeout", NONE))
                        out.append(("blocking_call_runs_under_the_given_timeout", ("C16", "C18"), got.t == want if got is not None else False))
                    else:
                        d = ev.data.get("deadline")
                        out.append(("awaited_call_runs_under_fail_after_the_given_timeout", ("C16", "C18"), d.t == want if d is not None else False))
                    if method in ("read", "write"):
                        # the reader of an HTTP/2 connection parks in the runtime read while other streams' threads / tasks
                        # write on the same stream object: nothing may be held across the blocking call (seed C12-w4-1)
                        # (a lock of its own per direction would be harmless: what is refused is something held here that the
                        # OTHER direction's method also takes - decided on the attribute names in the `with` statements of both)
                        held = [h for h in ev.data.get("held_locks", [])]
                        other = "write" if method == "read" else "read"
                        shared = [h for h in held if h.rsplit(".", 1)[-1] in _with_attrs(c, other) or not h.startswith("opaque:attr!")]
                        out.append(("nothing_the_other_direction_needs_is_held_across_the_blocking_runtime_call", ("C12", "C13", "C08", "C18"), len(shared) == 0))
                    if "obj" in ev.data or "sock" in ev.data:
                        o = ev.data.get("obj") or ev.data.get("sock")
                        out.append(("operates_on_own_runtime_stream", ("C02", "C03"), o.t == F(c, c.self, f"{short}.{field}")))
                return out

            def _rt(self, c):
                return c.new(c.self, f"{short}.{field}")

            def ensures(self, c):
                if method != "write":
                    return []
                rt = self._rt(c)
                buf = c.eng.coerce(c.st, c.args["buffer"], "bytes").t
                return [("whole_buffer_is_handed_to_the_runtime_in_order", ("C03", "C13", "C01", "C17"),
                         F(c, rt, "RT.sent") == z3.Concat(F(c, rt, "RT.sent", old=True), buf))]

            def loop_invariant(self, c, ordinal):
                if method != "write":
                    return None
                # the loop-test variable is the still unsent remainder
                names = [n for n in c.interp.loop_test_names(ordinal) if isinstance(c.st.env.get(n), VBytes)]
                if not names:
                    return [("loop_has_an_unsent_remainder_variable", ("C03", "C13", "C17"), False)]
                rest = c.st.env[names[0]].t
                rt = self._rt(c)
                buf = c.eng.coerce(c.st, c.args["buffer"], "bytes").t
                inv = [("sent_plus_remainder_is_the_buffer", ("C03", "C13", "C01", "C17"),
                        z3.Concat(F(c, rt, "RT.sent"), rest) == z3.Concat(F(c, rt, "RT.sent", old=True), buf))]
                pre = []
                for e in c.trace:
                    if e.name == "loop_cut":
                        break
                    pre.append(e)
                if kind == "sync" and any(e.name == "rt.settimeout" for e in pre):
                    # the socket timeout was set before the loop (not per iteration): then it has to stay set
                    inv.append(("socket_timeout_stays_the_given_timeout", ("C16",), F(c, rt, "RT.timeout") == expected_deadline(c, kind)))
                return inv

            def checks(self, c):
                if method != "read":
                    return []
                evs = [e for e in c.trace if e.name in op_events]
                if not evs:
                    return [("read_returns_what_the_runtime_returned", ("C02",), False)]
                e = evs[-1]
                res = c.eng.coerce(c.st, c.result, "bytes").t
                o = e.data.get("outcome")
                if o == "ok":
                    g = res == e.data["result"].t
                elif o == "EndOfStream":
                    g = z3.Length(res) == 0
                else:
                    g = False  # a runtime failure must not become a normal (EOF-looking) return
                return [("read_returns_what_the_runtime_returned", ("C02",), g),
                        ("one_runtime_read_per_call", ("C02",), len(evs) == 1)]

            def exc_checks(self, c, exc):
                out = []
                evs = [e for e in c.trace if e.name in op_events and "outcome" in e.data]
                if evs and exc.cls not in ("Cancelled", "DeadlineCancelled") and exc.cls.startswith(EXC):
                    o = evs[-1].data["outcome"]
                    timed_out = o in ("timeout", "DeadlineCancelled", "TimeoutError", "TooSlowError")
                    if o != "ok":
                        out.append(("exception_class_matches_the_cause", ("C15", "C16"), exc.cls.endswith("Timeout") == timed_out))
                    if method == "read":
                        # a clean end of stream is the value b"" (what the protocol layers test for, and what the other two
                        # back ends return), never a ReadError
                        out.append(("clean_end_of_stream_is_not_an_error", ("C15", "C18", "C02"), o != "EndOfStream"))
                if closes_on_failure and exc.cls != "Cancelled" and exc.cls != "DeadlineCancelled":
                    closes = [e for e in c.events("rt.close") if z3.eq(z3.simplify(e.data["obj"].t), z3.simplify(F(c, c.self, f"{short}.{field}")))]
                    closes += c.events("call:" + cls + (".close" if kind == "sync" else ".aclose"))
                    out.append(("failed_tls_upgrade_closes_the_raw_stream", ("C06", "C04"), len(closes) >= 1))
                return out

        M.props = props
        M.params = dict(params or {"timeout": "val", "max_bytes": "int", "buffer": "bytes", "server_hostname": "val", "ssl_context": "val"})
        M.raises = raises + (["Cancelled"] if kind != "sync" else [])
        M.raises_props = ("C15",)
        M.__name__ = f"M_{short}_{method}"
        return M

    stream_contract(SYNC_STREAM, "SyS", "_sock", "sync", "read", {"rt.sock.recv"}, READ, props=("C16", "C15", "C02", "C18", "C12", "C13", "C08"))
    stream_contract(SYNC_STREAM, "SyS", "_sock", "sync", "write", {"rt.sock.send"}, WRITE, props=("C16", "C15", "C03", "C13", "C01", "C17", "C18", "C12", "C08"))
    stream_contract(SYNC_STREAM, "SyS", "_sock", "sync", "start_tls", {"rt.ssl.wrap_socket"}, CONNECT, props=("C16", "C15", "C06", "C04", "C18"), closes_on_failure=True)
    stream_contract(ANYIO_STREAM, "AnS", "_stream", "anyio", "read", {"rt.anyio.receive"}, READ, props=("C16", "C15", "C02", "C18", "C12", "C13", "C08"))
    stream_contract(ANYIO_STREAM, "AnS", "_stream", "anyio", "write", {"rt.anyio.send"}, WRITE, props=("C16", "C15", "C03", "C13", "C01", "C17", "C18", "C12", "C08"))
    stream_contract(ANYIO_STREAM, "AnS", "_stream", "anyio", "start_tls", {"rt.anyio.TLSStream.wrap"}, CONNECT, props=("C16", "C15", "C06", "C04", "C18"), closes_on_failure=True)
    stream_contract(TRIO_STREAM, "TrS", "_stream", "trio", "read", {"rt.anyio.receive_some"}, READ, props=("C16", "C15", "C02", "C18", "C12", "C13", "C08"))
    stream_contract(TRIO_STREAM, "TrS", "_stream", "trio", "write", {"rt.anyio.send_all"}, WRITE, props=("C16", "C15", "C03", "C13", "C01", "C17", "C18", "C12", "C08"))
    stream_contract(TRIO_STREAM, "TrS", "_stream", "trio", "start_tls", {"rt.anyio.do_handshake"}, CONNECT, props=("C16", "C15", "C06", "C04", "C18"), closes_on_failure=True)

    def close_contract(cls, short, field, kind, method):
        @reg.contract
        class C(Contract):
            key = f"{cls}.{method}"
            props = ("C06", "C07", "C05")
            trees = ("async",) if kind != "sync" else ("sync",)
            raises = ["Cancelled"] if kind != "sync" else []
            raises_props = ("C07", "C05", "C15")  # a close that raises makes PoolByteStream.close skip the dequeue and the pass
            call_raises = []

            def checks(self, c):
                closes = c.events("rt.close")
                return [("closes_the_runtime_stream", ("C06",), z3.And(z3.BoolVal(len(closes) == 1), closes[0].data["obj"].t == F(c, c.self, f"{short}.{field}")) if closes else False)]

            def exc_checks(self, c, exc):
                # the connection classes mark themselves CLOSED before they close the stream and the pool has already dropped
                # them: a close() that can fail before it has released the descriptor leaks it for good (seed C06-w4-2)
                closes = c.events("rt.close")
                return [("runtime_stream_is_released_even_if_closing_fails", ("C06", "C07", "C05"), len(closes) >= 1)]

        C.__name__ = f"Close_{short}"

    close_contract(SYNC_STREAM, "SyS", "_sock", "sync", "close")
    close_contract(ANYIO_STREAM, "AnS", "_stream", "anyio", "aclose")
    close_contract(TRIO_STREAM, "TrS", "_stream", "trio", "aclose")

    # ================================================================== backends
    def backend_contract(cls, kind, method, op_events):
        @reg.contract
        class M(Contract):
            key = f"{cls}.{method}"
            props = ("C16", "C15", "C10", "C20", "C06", "C04")
            trees = ("async",) if kind != "sync" else ("sync",)
            params = {"host": "str", "port": "int", "timeout": "val", "local_address": "val", "socket_options": "val", "path": "val"}
            raises = CONNECT + (["Cancelled"] if kind != "sync" else []) + (["RuntimeError"] if method == "connect_unix_socket" and kind == "sync" else [])
            raises_props = ("C15",)

            # socket_options: None (the common case) or a caller-supplied iterable of option tuples (opaque)
            variants = [("no_socket_options", {"socket_options": "none"}), ("with_socket_options", {"socket_options": "val"})]

            def setup(self, c):
                v = c.args.get("socket_options")
                if isinstance(v, VVal):
                    c.eng.assume(c.st, v.t != none_val)

            def callsite(self, c, ev):
                out = []
                if ev.name in op_events:
                    want = expected_deadline(c, kind)
                    if kind == "sync":
                        got = c.eng.to_val(c.st, ev.data.get("timeout", NONE)) if ev.name == "rt.socket.create_connection" else ev.data.get("sock_timeout")
                        out.append(("connect_runs_under_the_given_timeout", ("C16",), got.t == want if got is not None else False))
                        if ev.name == "rt.socket.create_connection":
                            addr = c.eng.unbox(c.st, ev.data["address"])
                            ok = isinstance(addr, VTuple) and len(addr.items) == 2
                            out.append(("connects_to_the_given_host_and_port", ("C10",), z3.And(c.eng.coerce(c.st, addr.items[0], "str").t == c.args["host"].t, c.eng.coerce(c.st, addr.items[1], "int").t == c.args["port"].t) if ok else False))
                    else:
                        d = ev.data.get("deadline")
                        out.append(("connect_runs_under_fail_after_the_given_timeout", ("C16",), d.t == want if d is not None else False))
                        kw = ev.data.get("kwargs", {})
                        if method == "connect_tcp":
                            h = kw.get("remote_host", kw.get("host"))
                            p = kw.get("remote_port", kw.get("port"))
                            out.append(("connects_to_the_given_host_and_port", ("C10",), z3.And(c.eng.coerce(c.st, h, "str").t == c.args["host"].t, c.eng.coerce(c.st, p, "int").t == c.args["port"].t) if h is not None and p is not None else False))
                return out

            # C20: one call of the back end is ONE connection attempt - the retry loop (count, pauses 0, 0.5, 1, ... and the
            # error that is finally raised) lives in HTTPConnection._connect and counts calls.  A loop around the runtime
            # connect in here multiplies the attempts behind its back (seed C20-w4-1).
            def _attempts(self, c, evs):
                return [e for e in evs if e.name in op_events]

            def on_back_edge(self, c, ordinal):
                return [("no_second_connection_attempt_inside_one_call", ("C20",), len(self._attempts(c, c.since_cut(None))) == 0)]

            def checks(self, c):
                return [("exactly_one_connection_attempt_per_call", ("C20",), len(self._attempts(c, c.trace)) == 1)]

            def exc_checks(self, c, exc):
                out = [("at_most_one_connection_attempt_per_failed_call", ("C20",), len(self._attempts(c, c.trace)) <= 1)]
                # C06: once the runtime has handed over a connected socket / stream, a failure of what follows in here (a socket
                # option the platform refuses, a cancellation) must close it - nobody else ever sees the object (design_probes/p37)
                made = [e for e in c.trace if (e.name in op_events and e.data.get("outcome") == "ok" and "result_obj" in e.data) or e.name == "rt.socket.new"]
                if made:
                    objs = [e.data["result_obj"] for e in made]
                    closes = c.events("rt.close")
                    out.append(("a_runtime_stream_that_was_obtained_is_closed_when_the_call_fails", ("C06", "C04"),
                                z3.And(*[z3.Or(*[k.data["obj"].t == o.t for k in closes]) if closes else z3.BoolVal(False) for o in objs])))
                evs = [e for e in self._attempts(c, c.trace) if "outcome" in e.data]
                if evs and exc.cls.startswith(EXC):
                    o = evs[-1].data["outcome"]
                    if o != "ok":
                        # the error raised is the one this attempt produced (`the last error is raised`): a timeout of the
                        # attempt is ConnectTimeout, any other failure of it ConnectError - never a synthesised class
                        timed_out = o in ("timeout", "DeadlineCancelled", "TimeoutError", "TooSlowError")
                        out.append(("raised_class_is_the_cause_of_this_attempt", ("C20", "C15"), exc.cls.endswith("Timeout") == timed_out))
                return out

        M.__name__ = f"B_{kind}_{method}"

    backend_contract(SYNC_BACKEND, "sync", "connect_tcp", {"rt.socket.create_connection"})
    backend_contract(SYNC_BACKEND, "sync", "connect_unix_socket", {"rt.sock.connect"})
    backend_contract(ANYIO_BACKEND, "anyio", "connect_tcp", {"rt.anyio.connect_tcp"})
    backend_contract(ANYIO_BACKEND, "anyio", "connect_unix_socket", {"rt.anyio.connect_unix"})
    backend_contract(TRIO_BACKEND, "trio", "connect_tcp", {"rt.trio.open_tcp_stream"})
    backend_contract(TRIO_BACKEND, "trio", "connect_unix_socket", {"rt.trio.open_unix_socket"})
    register_tls_in_tls(reg)


def register_tls_in_tls(reg):
    """TLSinTLSStream (sync back end): TLS through an SSLObject + two MemoryBIOs on top of an already TLS-wrapped socket (https
    origin through an https proxy).  `# pragma: no cover` in the repository and untested there; wave 5 put two changes into it."""
    TLS = SYNC_STREAM.rsplit(".", 1)[0] + ".TLSinTLSStream"
    SSLOBJ = "pyvc.SSLObject"
    BIO = "pyvc.MemoryBIO"
    for k in (SSLOBJ, BIO):
        reg.ext_class(k)
    reg.ext_class("ssl.SSLWantReadError", "ssl.SSLError")
    reg.ext_class("ssl.SSLWantWriteError", "ssl.SSLError")
    reg.consts["ssl.SSL_ERROR_WANT_READ"] = VInt(2)
    reg.consts["ssl.SSL_ERROR_WANT_WRITE"] = VInt(3)
    reg.fields(TLS, "TiT", _sock="ref:" + RT_SOCK, _incoming="ref:" + BIO, _outgoing="ref:" + BIO, ssl_obj="ref:" + SSLOBJ)
    reg.trusted_notes.append("A-runtime.5 (assumed): ssl.SSLObject operations raise SSLWantReadError / SSLWantWriteError / ssl.SSLError; MemoryBIO.read/write/write_eof never raise")

    @reg.intrinsic("ssl.MemoryBIO")
    def memory_bio(it, st, args, kwargs, node):
        return it.eng.alloc(st, BIO, "bio")

    @reg.method(BIO, "read")
    def bio_read(it, st, self_v, args, kwargs, node):
        return it.eng.fresh(st, "bytes", "bio_out")

    @reg.method(BIO, "write")
    def bio_write(it, st, self_v, args, kwargs, node):
        it.emit(st, "bio.write", node, bio=self_v, data=args[0] if args else NONE)
        return NONE

    @reg.method(BIO, "write_eof")
    def bio_write_eof(it, st, self_v, args, kwargs, node):
        it.emit(st, "bio.write_eof", node, bio=self_v)
        return NONE

    def wrap_bio(it, st, recv, args, kwargs, node):
        o = it.eng.alloc(st, SSLOBJ, "sslobj")
        it.emit(st, "ssl.wrap_bio", node, obj=o, kwargs=kwargs)
        return o

    reg.val_methods = dict(getattr(reg, "val_methods", {}))
    reg.val_methods["wrap_bio"] = wrap_bio

    def ssl_op(name, result_kind):
        @reg.method(SSLOBJ, name)
        def op(it, st, self_v, args, kwargs, node):
            eng = it.eng
            ev = it.emit(st, "ssl." + name, node, obj=self_v, args=list(args))
            raises = ["ssl.SSLWantReadError", "ssl.SSLWantWriteError", "ssl.SSLError"]
            k = eng.choose(st, 1 + len(raises), f"ssl.{name}@{node.lineno}", ["done"] + [r.rsplit(".", 1)[-1] for r in raises])
            if k > 0:
                eng.raise_(st, raises[k - 1], tag={"from": "ssl." + name})
            if result_kind is None:
                return NONE
            r = eng.fresh(st, result_kind, name)
            if result_kind == "int" and args:
                b = eng.coerce(st, args[0], "bytes")
                eng.assume(st, z3.And(r.t >= 1, r.t <= z3.Length(b.t)))
            ev.data["result"] = r
            return r

    ssl_op("do_handshake", None)
    ssl_op("read", "bytes")
    ssl_op("write", "int")

    @reg.intrinsic("functools.partial")
    def partial(it, st, args, kwargs, node):
        f = it.eng.unbox(st, args[0])
        if not isinstance(f, VFunc) or kwargs:
            raise Unsupported(f"{it.site(node)}: functools.partial of {f!r}")
        g = VFunc(f.name, bound=f.bound, info=f.info)
        g.pre_args = list(getattr(f, "pre_args", []) or []) + list(args[1:])
        return g

    @reg.intrinsic("typing.cast")
    def typing_cast(it, st, args, kwargs, node):
        return args[1]

    def sock_ev(name, ret=None):
        @reg.method(RT_SOCK, name)
        def op(it, st, self_v, args, kwargs, node):
            eng = it.eng
            names = ["ok", "timeout", "OSError"]
            ev = it.emit(st, "rt.sock." + name, node, sock=self_v, sock_timeout=eng.heap_read(st, self_v, "RT.timeout"), held_locks=list(st.held), args=list(args))
            k = eng.choose(st, 3, f"rt.sock.{name}@{node.lineno}", names)
            ev.data["outcome"] = names[k]
            if k == 1:
                eng.raise_(st, "socket.timeout", tag={"from": "rt.sock." + name})
            if k == 2:
                eng.raise_(st, "OSError", tag={"from": "rt.sock." + name})
            if ret == "int":
                r = eng.fresh(st, "int", name)
                eng.assume(st, r.t >= 0)
                ev.data["result"] = r
                return r
            return NONE
        return op

    sock_ev("sendall")
    sock_ev("recv_into", "int")

    def tls_contract(method, raises, props):
        @reg.contract
        class T(Contract):
            key = TLS + "." + method
            trees = ("sync",)
            params = {"timeout": "val", "max_bytes": "int", "buffer": "bytes", "server_hostname": "val", "ssl_context": "val", "sock": "ref:" + RT_SOCK}
            raises_props = ("C15",) if method in ("read", "write") else ()
            max_paths = 20000
            back_edges_of_inlined_loops = True  # the I/O loop lives in the inlined helper _perform_io

            def callsite(self, c, ev):
                if ev.name.startswith("rt.sock.") and "sock_timeout" in ev.data:
                    want = c.eng.to_val(c.st, c.args["timeout"]).t
                    return [("blocking_call_runs_under_the_given_timeout", ("C16", "C18"), ev.data["sock_timeout"].t == want),
                            ("operates_on_own_socket", ("C02", "C03"), ev.data["sock"].t == F(c, c.self, "TiT._sock"))]
                return []

            def loop_frame(self, ordinal):
                # the I/O loops neither re-arm the socket timeout nor replace the stream's objects (checked: inv-keep:loopN:frame)
                return ("RT.timeout", "TiT._sock", "TiT._incoming", "TiT._outgoing", "TiT.ssl_obj")

            def inlined_loop_frame(self, callee, ordinal):
                return self.loop_frame(ordinal) if callee.endswith("._perform_io") else None

            def on_back_edge(self, c, ordinal):
                # C15 ("a call never hangs once its input has ended"): when the socket has reported end of input (recv() == b"",
                # recv_into() == 0) the TLS layer must be told (write_eof) before it is asked again - otherwise it keeps asking for
                # more data, every read returns at once, and the loop spins for ever
                evs = c.since_cut(None)
                goals = []
                eof_told = any(e.name == "bio.write_eof" for e in evs)
                for e in evs:
                    if e.name in ("rt.sock.recv", "rt.sock.recv_into") and "result" in e.data:
                        r = e.data["result"]
                        empty = (z3.Length(r.t) == 0) if isinstance(r, VBytes) else (r.t == 0)
                        goals.append(z3.Implies(empty, z3.BoolVal(eof_told)))
                return [("end_of_input_is_passed_on_to_the_tls_layer", ("C15", "C02"), z3.And(*goals) if goals else True)]

        T.raises = raises
        T.props = props
        T.__name__ = "TiT_" + method.strip("_")

    RAW = ["socket.timeout", "OSError", "ssl.SSLError", "ssl.SSLWantReadError", "ssl.SSLWantWriteError"]
    tls_contract("__init__", RAW, ("C16", "C15", "C18"))
    tls_contract("read", READ, ("C16", "C15", "C02", "C18"))
    tls_contract("write", WRITE, ("C16", "C15", "C03", "C18"))

    @reg.contract
    class TiTPerformIO(Contract):
        key = TLS + "._perform_io"
        trees = ()
        inline = True
        props = ()

    @reg.contract
    class TiTClose(Contract):
        key = TLS + ".close"
        trees = ("sync",)
        props = ("C06",)
        raises = []
        raises_props = ()

        def checks(self, c):
            closes = c.events("rt.close")
            return [("closes_the_socket", ("C06",), z3.And(z3.BoolVal(len(closes) == 1), closes[0].data["obj"].t == F(c, c.self, "TiT._sock")) if closes else False)]
