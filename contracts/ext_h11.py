"""Assumed contract of the h11 client state machine (A-h11 in DESIGN section 3).

Ghost model of h11.Connection: (our_state, their_state), bytes fed, end-of-input flag,
trailing data; events are references with a dynamic type tag and content fields.  The
serialiser / parser themselves are NOT verified: `h11_wire` and the event contents are
uninterpreted; what is stated is which operations change which state and which errors
they raise.  Audited against the real h11 by audit/h11_contract.py (bounded).
"""
from __future__ import annotations

import z3

from pyvc.values import *  # noqa: F401,F403
from pyvc.engine import Unsupported, PyRaise

HC = "h11.Connection"
EV = "h11.Event"
HDRS = "h11.Headers"

# state codes
IDLE, SEND_BODY, DONE, MUST_CLOSE, CLOSED, ERROR, SWITCHED, SEND_RESPONSE, MIGHT_SWITCH = range(9)
STATE_CONSTS = {
    "h11.IDLE": IDLE,
    "h11.SEND_BODY": SEND_BODY,
    "h11.DONE": DONE,
    "h11.MUST_CLOSE": MUST_CLOSE,
    "h11.CLOSED": CLOSED,
    "h11.ERROR": ERROR,
    "h11.SWITCHED_PROTOCOL": SWITCHED,
    "h11.SEND_RESPONSE": SEND_RESPONSE,
    "h11.MIGHT_SWITCH_PROTOCOL": MIGHT_SWITCH,
}
NEED_DATA_REF = -101
PAUSED_REF = -102

EVENT_CLASSES = ["h11.Request", "h11.InformationalResponse", "h11.Response", "h11.Data", "h11.EndOfMessage", "h11.ConnectionClosed"]

h11_wire = z3.Function("h11_wire", IntS, BytesS)  # bytes h11 serialises for the event with this id


def ev_typ_is(ev_t, *names):
    return z3.Or(*[typ(ev_t) == cid(n) for n in names])


def register(reg):
    reg.ext_class(HC)
    reg.ext_class(EV)
    reg.ext_class(HDRS)
    for c in EVENT_CLASSES:
        reg.ext_class(c, EV)
    reg.ext_class("h11.NEED_DATA", EV)
    reg.ext_class("h11.PAUSED", EV)
    reg.ext_class("h11.ProtocolError", "Exception")
    reg.ext_class("h11.LocalProtocolError", "h11.ProtocolError")
    reg.ext_class("h11.RemoteProtocolError", "h11.ProtocolError")
    reg.ext_class("h11.CLIENT")
    reg.consts["h11.CLIENT"] = VInt(0)
    for name, code in STATE_CONSTS.items():
        reg.consts[name] = VInt(code)
    reg.consts["h11.NEED_DATA"] = VRef(NEED_DATA_REF, EV)
    reg.consts["h11.PAUSED"] = VRef(PAUSED_REF, EV)
    reg.sentinel_classes = {NEED_DATA_REF: "h11.NEED_DATA", PAUSED_REF: "h11.PAUSED"}
    reg.axioms.append(typ(z3.IntVal(NEED_DATA_REF)) == cid("h11.NEED_DATA"))
    reg.axioms.append(typ(z3.IntVal(PAUSED_REF)) == cid("h11.PAUSED"))
    reg.trusted_notes.append(
        "A-h11: h11.Connection client role: send() raises only h11.LocalProtocolError and returns the wire bytes of the "
        "event; next_event() raises only h11.RemoteProtocolError and returns NEED_DATA, PAUSED or one event; events seen "
        "by the client follow (Informational)* Response (Data)* EndOfMessage per cycle; their_state is SEND_RESPONSE while a "
        "response head is awaited; start_next_cycle() needs DONE/DONE and yields IDLE/IDLE; after 101 / 2xx-to-CONNECT the "
        "states are SWITCHED_PROTOCOL, next_event() returns PAUSED and trailing_data holds exactly the bytes after the head; "
        "headers.raw_items() is the header list as received (bounded audit: audit/h11_contract.py)"
    )

    reg.fields(
        HC,
        "H",
        ghost=["our", "their", "fed", "eof", "trailing", "wire"],
        our="int",
        their="int",
        fed="bytes",  # every byte passed to receive_data, in order
        eof="bool",  # receive_data(b"") happened
        trailing="bytes",
        wire="bytes",  # every byte returned by send(), in order
    )
    reg.fields(
        EV,
        "Ev",
        const=["status_code", "http_version", "reason", "raw_headers", "data", "method", "target", "req_headers"],
        status_code="int",
        http_version="bytes",
        reason="bytes",
        raw_headers="seq:hdr",
        data="bytes",
        method="bytes",
        target="bytes",
        req_headers="seq:hdr",
    )

    # ---- constructors ------------------------------------------------------------------------
    @reg.intrinsic(HC)
    def mk_conn(it, st, args, kwargs, node):
        eng = it.eng
        c = eng.alloc(st, HC, "h11conn")
        eng.heap_write(st, c, "H.our", VInt(IDLE))
        eng.heap_write(st, c, "H.their", VInt(IDLE))
        eng.heap_write(st, c, "H.fed", VBytes(b""))
        eng.heap_write(st, c, "H.eof", VBool(False))
        eng.heap_write(st, c, "H.wire", VBytes(b""))
        it.emit(st, "h11.Connection", node, conn=c, kwargs=kwargs)
        return c

    @reg.intrinsic("h11.Request")
    def mk_request(it, st, args, kwargs, node):
        eng = it.eng
        if args:
            raise Unsupported("h11.Request with positional arguments")
        ev = it.emit(st, "h11.Request", node, **kwargs)
        c = eng.choose(st, 2, f"h11.Request@{node.lineno}", ["ok", "LocalProtocolError"])
        if c == 1:
            eng.raise_(st, "h11.LocalProtocolError", tag={"from": "h11.Request"})
        e = eng.alloc(st, "h11.Request", "h11req")
        eng.heap_write(st, e, "Ev.method", eng.coerce(st, kwargs["method"], "bytes"))
        eng.heap_write(st, e, "Ev.target", eng.coerce(st, kwargs["target"], "bytes"))
        eng.heap_write(st, e, "Ev.req_headers", eng.coerce(st, kwargs["headers"], "seq:hdr"))
        ev.data["result"] = e
        return VRef(e.t, EV)

    @reg.intrinsic("h11.Data")
    def mk_data(it, st, args, kwargs, node):
        eng = it.eng
        ev = it.emit(st, "h11.Data", node, **kwargs)
        e = eng.alloc(st, "h11.Data", "h11data")
        eng.heap_write(st, e, "Ev.data", eng.coerce(st, kwargs["data"], "bytes"))
        ev.data["result"] = e
        return VRef(e.t, EV)

    @reg.intrinsic("h11.EndOfMessage")
    def mk_eom(it, st, args, kwargs, node):
        eng = it.eng
        e = eng.alloc(st, "h11.EndOfMessage", "h11eom")
        it.emit(st, "h11.EndOfMessage", node, result=e)
        return VRef(e.t, EV)

    # ---- Connection methods ----------------------------------------------------------------------
    @reg.method(HC, "send")
    def conn_send(it, st, self_v, args, kwargs, node):
        eng = it.eng
        event = args[0] if args else kwargs["event"]
        our = eng.heap_read(st, self_v, "H.our")
        evrec = it.emit(st, "h11.send", node, conn=self_v, event=event, our=our)
        c = eng.choose(st, 2, f"h11.send@{node.lineno}", ["ok", "LocalProtocolError"])
        if c == 1:
            # a failed send poisons our side
            eng.heap_write(st, self_v, "H.our", VInt(ERROR))
            eng.raise_(st, "h11.LocalProtocolError", tag={"from": "h11.send"})
        t = typ(event.t)
        new_our = z3.If(
            t == cid("h11.Request"),
            z3.IntVal(SEND_BODY),
            z3.If(t == cid("h11.EndOfMessage"), eng.fresh(st, "int", "our_after_eom").t, our.t),
        )
        # legality (otherwise the LocalProtocolError outcome above is the only one)
        eng.assume(
            st,
            z3.And(
                z3.Implies(t == cid("h11.Request"), our.t == IDLE),
                z3.Implies(z3.Or(t == cid("h11.Data"), t == cid("h11.EndOfMessage")), our.t == SEND_BODY),
            ),
        )
        no = eng.heap_read(st, self_v, "H.our")
        eng.heap_write(st, self_v, "H.our", VInt(new_our))
        after = eng.heap_read(st, self_v, "H.our")
        eng.assume(
            st,
            z3.Implies(
                t == cid("h11.EndOfMessage"),
                z3.Or(after.t == DONE, after.t == MUST_CLOSE, after.t == MIGHT_SWITCH, after.t == SWITCHED),
            ),
        )
        out = VBytes(h11_wire(event.t))
        w = eng.heap_read(st, self_v, "H.wire")
        eng.heap_write(st, self_v, "H.wire", VBytes(z3.Concat(w.t, out.t)))
        evrec.data["result"] = out
        # send() returns bytes for every event type used here (None only for ConnectionClosed)
        return out

    @reg.method(HC, "next_event")
    def conn_next_event(it, st, self_v, args, kwargs, node):
        eng = it.eng
        their = eng.heap_read(st, self_v, "H.their")
        evrec = it.emit(st, "h11.next_event", node, conn=self_v, their=their)
        c = eng.choose(st, 2, f"h11.next_event@{node.lineno}", ["ok", "RemoteProtocolError"])
        if c == 1:
            eng.heap_write(st, self_v, "H.their", VInt(ERROR))
            eng.raise_(st, "h11.RemoteProtocolError", tag={"from": "h11.next_event"})
        e = eng.fresh(st, "ref:" + EV, "h11ev")
        t = typ(e.t)
        kinds = ["h11.NEED_DATA", "h11.PAUSED", "h11.InformationalResponse", "h11.Response", "h11.Data", "h11.EndOfMessage", "h11.ConnectionClosed"]
        eng.assume(st, z3.Or(*[t == cid(k) for k in kinds]))
        eng.assume(st, (t == cid("h11.NEED_DATA")) == (e.t == NEED_DATA_REF))
        eng.assume(st, (t == cid("h11.PAUSED")) == (e.t == PAUSED_REF))
        eng.assume(st, z3.Implies(z3.And(e.t != NEED_DATA_REF, e.t != PAUSED_REF), e.t > 0))
        th = their.t
        # which events are possible in which state of the peer
        eng.assume(
            st,
            z3.And(
                z3.Implies(z3.Or(t == cid("h11.InformationalResponse"), t == cid("h11.Response")), th == SEND_RESPONSE),
                z3.Implies(z3.Or(t == cid("h11.Data"), t == cid("h11.EndOfMessage")), th == SEND_BODY),
                z3.Implies(t == cid("h11.PAUSED"), z3.Or(th == DONE, th == MUST_CLOSE, th == SWITCHED, th == MIGHT_SWITCH)),
                z3.Implies(t == cid("h11.ConnectionClosed"), z3.Or(th == IDLE, th == DONE, th == MUST_CLOSE, th == CLOSED)),
            ),
        )
        status = eng.heap_read(st, e, "Ev.status_code")
        eng.assume(st, z3.Implies(t == cid("h11.InformationalResponse"), z3.And(status.t >= 100, status.t < 200)))
        eng.assume(st, z3.Implies(t == cid("h11.Response"), z3.And(status.t >= 200, status.t < 1000)))
        new_their = eng.fresh(st, "int", "their_next")
        eng.assume(
            st,
            z3.And(
                z3.Implies(z3.Or(t == cid("h11.NEED_DATA"), t == cid("h11.PAUSED"), t == cid("h11.Data")), new_their.t == th),
                z3.Implies(
                    t == cid("h11.InformationalResponse"),
                    z3.If(status.t == 101, new_their.t == SWITCHED, new_their.t == SEND_RESPONSE),
                ),
                z3.Implies(t == cid("h11.Response"), z3.Or(new_their.t == SEND_BODY, new_their.t == SWITCHED)),
                z3.Implies(t == cid("h11.EndOfMessage"), z3.Or(new_their.t == DONE, new_their.t == MUST_CLOSE)),
                z3.Implies(t == cid("h11.ConnectionClosed"), new_their.t == CLOSED),
            ),
        )
        eng.heap_write(st, self_v, "H.their", new_their)
        evrec.data["result"] = e
        return e

    @reg.method(HC, "receive_data")
    def conn_receive_data(it, st, self_v, args, kwargs, node):
        eng = it.eng
        data = eng.coerce(st, args[0] if args else kwargs["data"], "bytes")
        their = eng.heap_read(st, self_v, "H.their")
        it.emit(st, "h11.receive_data", node, conn=self_v, data=data, their=their)
        fed = eng.heap_read(st, self_v, "H.fed")
        eng.heap_write(st, self_v, "H.fed", VBytes(z3.Concat(fed.t, data.t)))
        eof = eng.heap_read(st, self_v, "H.eof")
        eng.heap_write(st, self_v, "H.eof", VBool(z3.Or(eof.t, z3.Length(data.t) == 0)))
        return NONE

    @reg.method(HC, "start_next_cycle")
    def conn_start_next_cycle(it, st, self_v, args, kwargs, node):
        eng = it.eng
        our = eng.heap_read(st, self_v, "H.our")
        their = eng.heap_read(st, self_v, "H.their")
        it.emit(st, "h11.start_next_cycle", node, conn=self_v, our=our, their=their)
        ok = z3.And(our.t == DONE, their.t == DONE)
        if not eng.branch(st, ok, f"start_next_cycle-legal@{node.lineno}"):
            eng.raise_(st, "h11.LocalProtocolError", tag={"from": "h11.start_next_cycle"})
        eng.heap_write(st, self_v, "H.our", VInt(IDLE))
        eng.heap_write(st, self_v, "H.their", VInt(IDLE))
        return NONE

    @reg.attr(HC, "our_state")
    def our_state(it, st, self_v):
        return it.eng.heap_read(st, self_v, "H.our")

    @reg.attr(HC, "their_state")
    def their_state(it, st, self_v):
        return it.eng.heap_read(st, self_v, "H.their")

    @reg.attr(HC, "trailing_data")
    def trailing_data(it, st, self_v):
        t = it.eng.heap_read(st, self_v, "H.trailing")
        it.emit(st, "h11.trailing_data", None, conn=self_v, value=t)
        st.counter += 1
        return VTuple([t, VBool(z3.Bool(f"trailing_closed!{st.counter}"))])

    # ---- event attributes ---------------------------------------------------------------------------
    @reg.attr(EV, "headers")
    def ev_headers(it, st, self_v):
        return VRef(self_v.t, HDRS)

    @reg.method(HDRS, "raw_items")
    def raw_items(it, st, self_v, args, kwargs, node):
        return it.eng.heap_read(st, self_v, "Ev.raw_headers")
