"""Contracts for the supporting code the properties silently rely on (wave 4 of the seeded changes showed that
every one of these was an unverified assumption before):

* httpcore/_async/interfaces.py   AsyncRequestInterface.request / .stream  (the public wrappers: build the Request,
  send it, and - whatever happens afterwards - close the response exactly once: C05 C06 C07; C01 C03)
* httpcore/_models.py             Response.read / aread / iter_stream / aiter_stream / close / aclose, ByteStream
  (C02: the body is the concatenation of the stream's chunks, each exactly once; C17: reading does not close;
  C03: a bytes body can be iterated again for a re-send)
* httpcore/_trace.py              Trace.__enter__/__exit__/__aenter__/__aexit__/trace/atrace (never swallows an
  exception whatever the hook returns; never mutates the keyword mapping it is given: C02 C15 C11)
* httpcore/_exceptions.py         map_exceptions (the real body behind the MapExceptionsCtx stub: C15)

The stubs that stand for these functions at the call sites in the rest of the package (iface.py resp_read /
resp_close, ext_runtime.py TraceCtx / MapExceptionsCtx) are now justified by these contracts instead of being assumed.
"""
from __future__ import annotations

import z3

from pyvc.values import *  # noqa: F401,F403
from pyvc.engine import Contract, GeneratorContract, Unsupported
from pyvc.registry import CtxHandler
from .common import EXC
from .iface import CI, RI, CONN_RAISES
from .m_models_fields import REQUEST, RESPONSE, URL

UP = EXC + "UnsupportedProtocol"
PT = EXC + "PoolTimeout"
API_RAISES = CONN_RAISES + [UP, PT]


def F(c, ref, key, old=False):
    return (c.old(ref, key) if old else c.new(ref, key)).t


# argument shapes the wrappers are verified for (the enforce_* helpers are inlined from their real bodies, each of which is
# verified for every shape on its own: m_models.py)
def _iterator_body(eng, st):
    v = eng.mk("val", "body")
    eng.assume(st, z3.And(v.t != none_val, z3.Not(z3.Function("isinst_bytes", ValS, BoolS)(v.t))))
    return v


WRAPPER_VARIANTS = [
    ("typed_arguments_bytes_body", {"method": "bytes", "url": "ref:" + URL, "headers": "seq:hdr", "content": "bytes"}),
    ("text_method_no_headers_no_body", {"method": "str", "url": "ref:" + URL, "headers": "none", "content": "none"}),
    ("iterator_body", {"method": "bytes", "url": "ref:" + URL, "headers": "seq:hdr", "content": _iterator_body}),
]


def register(reg):
    reg.ext_class("pyvc.BodyError", "Exception")  # whatever Exception the body of a `with pool.stream(...)` block raises
    # the wrappers are inherited by the pool and every connection class: `self.handle_async_request` is the interface
    # method (iface.py), whatever the concrete class
    h = reg.methods.get((CI, "handle_async_request"))
    for n in ("handle_async_request", "handle_request"):
        reg.methods[(RI, n)] = h

    def _wrapper_callsite(c, ev, req_events):
        out = []
        if ev.name == "ci.handle_request":
            inits = c.events("Request.__init__")
            out += [
                ("sends_the_request_it_built_on_itself", ("C01", "C03"), z3.And(z3.BoolVal(len(inits) == 1), ev.data["conn"].t == c.self.t, ev.data["request"].t == inits[-1].data["request"].t) if inits else False),
            ]
        if ev.name == "Request.__init__":
            d = ev.data
            e, st = c.eng, c.st
            inc = [x for x in c.trace if x.name.startswith("call:") and x.name.endswith("include_request_headers") and "result" in x.data]
            out += [
                ("request_carries_callers_content_and_extensions", ("C03", "C16"), z3.And(e.to_val(st, d.get("content", NONE)).t == e.to_val(st, c.args["content"]).t, e.to_val(st, d.get("extensions", NONE)).t == e.to_val(st, c.args["extensions"]).t)),
                ("request_headers_are_the_default_header_pass_result", ("C03", "C19"), e.coerce(st, d["headers"], "seq:hdr").t == e.coerce(st, inc[-1].data["result"], "seq:hdr").t if inc else False),
            ]
        return out

    # ================================================================== request()
    @reg.contract
    class RequestWrapper(Contract):
        """`pool.request(...)` / `connection.request(...)`: once the caller gets control back - normally or with any
        exception, cancellation included - the response has been closed (exactly once), so the pool slot is given back
        (C05 C07) and the connection's stream ownership is settled (C06)."""
        key = RI + ".request"
        props = ("C05", "C06", "C07", "C01", "C02", "C03", "C15", "C18")
        result_kind = "ref:" + RESPONSE
        params = {"extensions": "val"}
        variants = WRAPPER_VARIANTS
        raises = API_RAISES + ["Cancelled", "TypeError", EXC + "LocalProtocolError"]
        raises_props = ("C15",)
        max_paths = 6000

        def callsite(self, c, ev):
            return _wrapper_callsite(c, ev, None)

        def _closed_once(self, c):
            hs = [e for e in c.events("ci.handle_request") if "result" in e.data]
            closes = c.events("resp.close")
            if not hs:
                return z3.BoolVal(len(closes) == 0)
            return z3.And(z3.BoolVal(len(closes) == 1), closes[0].data["response"].t == hs[0].data["result"].t) if closes else z3.BoolVal(False)

        def checks(self, c):
            hs = [e for e in c.events("ci.handle_request") if "result" in e.data]
            reads = c.events("resp.read")
            closes = c.events("resp.close")
            ok = len(hs) == 1
            return [
                ("returns_the_response_of_its_own_request", ("C01",), c.result.t == hs[0].data["result"].t if ok else False),
                ("body_read_completely_before_returning", ("C02",), z3.And(z3.BoolVal(len(reads) == 1), reads[0].data["response"].t == hs[0].data["result"].t) if ok and reads else False),
                ("response_closed_exactly_once_before_returning", ("C05", "C06", "C07"), self._closed_once(c)),
                ("read_precedes_close", ("C02",), bool(reads and closes and c.trace.index(reads[0]) < c.trace.index(closes[0]))),
            ]

        def exc_checks(self, c, exc):
            return [("response_closed_exactly_once_on_every_failure_or_cancellation", ("C05", "C06", "C07"), self._closed_once(c))]

    # ================================================================== stream()
    @reg.contract
    class StreamWrapper(GeneratorContract):
        """`with pool.stream(...) as response:` - a generator behind contextlib.[async]contextmanager.  Whatever ends the
        `with` body (normal exit, any Exception, a BaseException such as cancellation or KeyboardInterrupt thrown in at
        the yield, the generator being closed) the response is closed exactly once."""
        key = RI + ".stream"
        props = ("C05", "C06", "C07", "C01", "C03", "C15", "C18")
        params = {"extensions": "val"}
        raises = API_RAISES + ["Cancelled", "TypeError", EXC + "LocalProtocolError", "GeneratorExit", "pyvc.BodyError", "KeyboardInterrupt"]
        raises_props = ()
        yield_throws = ["pyvc.BodyError", "Cancelled", "KeyboardInterrupt"]
        variants = WRAPPER_VARIANTS
        max_paths = 6000

        def callsite(self, c, ev):
            return _wrapper_callsite(c, ev, None)

        def _closed_once(self, c):
            hs = [e for e in c.events("ci.handle_request") if "result" in e.data]
            closes = c.events("resp.close")
            if not hs:
                return z3.BoolVal(len(closes) == 0)
            return z3.And(z3.BoolVal(len(closes) == 1), closes[0].data["response"].t == hs[0].data["result"].t) if closes else z3.BoolVal(False)

        def on_yield(self, c, v, node):
            hs = [e for e in c.events("ci.handle_request") if "result" in e.data]
            ys = c.events("yield")
            c.eng.oblige(c.st, "yields_the_response_of_its_own_request_once", z3.And(z3.BoolVal(len(hs) == 1 and len(ys) == 1), v.t == hs[0].data["result"].t) if hs and isinstance(v, VRef) else False, props=("C01",), kind="call-pre")
            c.eng.oblige(c.st, "response_still_open_while_the_caller_uses_it", len(c.events("resp.close")) == 0, props=("C02", "C17"), kind="call-pre")

        def checks(self, c):
            return [("response_closed_exactly_once_when_the_with_block_ends", ("C05", "C06", "C07"), self._closed_once(c))]

        def exc_checks(self, c, exc):
            return [("response_closed_exactly_once_however_the_with_block_ends", ("C05", "C06", "C07"), self._closed_once(c))]

    # ================================================================== Response: read / iterate / close
    BYTESTREAM = "httpcore._models.ByteStream"
    TRACE = "httpcore._trace.Trace"

    # `_content` exists only once the body has been read: the attribute is modelled as an optional field, absent == None
    reg.hasattr_hooks = dict(getattr(reg, "hasattr_hooks", {}))
    reg.hasattr_hooks[(RESPONSE, "_content")] = lambda it, st, v: VBool(z3.Not(it.eng.heap_read(st, v, "Response._content").none))

    def _bytes_result(c):
        r = c.result
        if hasattr(r, "none"):
            return r.val.t, z3.Not(r.none)
        return c.eng.coerce(c.st, r, "bytes").t, z3.BoolVal(True)

    def _is_streamable(c, s):
        tn = "typing_AsyncIterable" if c.eng.tree == "async" else "typing_Iterable"
        return z3.Function("isinst_" + tn, ValS, BoolS)(F(c, s, "Response.stream"))

    @reg.contract
    class ResponseIter(GeneratorContract):
        """aiter_stream / iter_stream: every chunk of the underlying stream exactly once, in order, unmodified; a second
        iteration is refused; iterating (even to exhaustion) never closes the response (C17: the 101 / CONNECT body is
        empty and may be read before the caller takes extensions['network_stream'])."""
        key = RESPONSE + ".aiter_stream"
        props = ("C02", "C17", "C01")
        raises = [r for r in CONN_RAISES if not r.endswith("ConnectionNotAvailable")] + ["Cancelled", "GeneratorExit", "RuntimeError"]
        raises_props = ()
        opaque_iter_raises = [r for r in CONN_RAISES if not r.endswith("ConnectionNotAvailable")] + ["Cancelled"]
        modifies = ("Response._stream_consumed",)

        def setup(self, c):
            c.eng.assume(c.st, _is_streamable(c, c.self))

        def loop_frame(self, ordinal):
            return ("Response._stream_consumed", "Response._content")

        def on_yield(self, c, v, node):
            evs = c.since_cut({"iter.next", "yield"})
            ok = len(evs) == 2 and evs[0].name == "iter.next"
            goal = c.eng.to_val(c.st, v).t == c.eng.to_val(c.st, evs[0].data["value"]).t if ok else False
            c.eng.oblige(c.st, "yields_exactly_the_chunk_the_stream_produced", goal, props=("C02",), kind="call-pre")

        def on_back_edge(self, c, ordinal):
            evs = [e.name for e in c.since_cut({"iter.next", "yield"})]
            return [("every_chunk_of_the_stream_is_yielded_once", ("C02",), evs == ["iter.next", "yield"])]

        def callsite(self, c, ev):
            if ev.name == "for.iter":
                return [("iterates_the_responses_own_stream", ("C02", "C01"), c.eng.to_val(c.st, ev.data["seq"]).t == F(c, c.self, "Response.stream"))]
            return []

        def _no_close(self, c):
            return len(c.events("inner.aclose")) == 0 and len(c.events("resp.close")) == 0

        def checks(self, c):
            return [
                ("exhausting_the_body_does_not_close_the_response", ("C17", "C01"), self._no_close(c)),
                ("marks_the_stream_consumed", ("C02",), F(c, c.self, "Response._stream_consumed")),
                ("a_consumed_stream_is_never_iterated_again", ("C02",), z3.Not(F(c, c.self, "Response._stream_consumed", old=True))),
            ]

        def exc_checks(self, c, exc):
            if exc.cls == "RuntimeError":
                return [("second_iteration_refused_before_touching_the_stream", ("C02",), z3.And(F(c, c.self, "Response._stream_consumed", old=True), z3.BoolVal(not c.events("for.iter"))))]
            return [("iterating_never_closes_the_response", ("C17",), self._no_close(c))]

    @reg.contract
    class ResponseRead(Contract):
        """aread / read: the body is the concatenation of everything the iterator yields (once), cached for later calls;
        reading does not close the response."""
        key = RESPONSE + ".aread"
        props = ("C02", "C17", "C01")
        result_kind = "bytes"
        raises = [r for r in CONN_RAISES if not r.endswith("ConnectionNotAvailable")] + ["Cancelled", "RuntimeError"]
        raises_props = ()
        modifies = ("Response._stream_consumed", "Response._content")

        def setup(self, c):
            c.eng.assume(c.st, _is_streamable(c, c.self))

        def callsite(self, c, ev):
            if ev.name == "gen.call":
                return [("drains_its_own_stream_iterator", ("C02", "C01"), z3.And(z3.BoolVal(ev.data["source"] == RESPONSE + ".aiter_stream"), ev.data["receiver"].t == c.self.t))]
            return []

        def checks(self, c):
            s = c.self
            drains = [e for e in c.events("iter.drain") if "result" in e.data]
            had = z3.Not(c.old(s, "Response._content").none)
            res, is_bytes = _bytes_result(c)
            join = z3.Function("join_bytes", BytesS, z3.SeqSort(BytesS), BytesS)
            cached = c.new(s, "Response._content")
            out = [("reading_does_not_close_the_response", ("C17", "C01"), len(c.events("inner.aclose")) == 0 and len(c.events("resp.close")) == 0),
                   ("returns_bytes", ("C02",), is_bytes)]
            if drains:
                out += [
                    ("body_is_the_concatenation_of_all_chunks_in_order", ("C02",), z3.And(z3.BoolVal(len(drains) == 1), res == join(z3.Empty(BytesS), drains[0].data["result"].t))),
                    ("stream_is_drained_only_when_nothing_is_cached", ("C02",), z3.Not(had)),
                    ("body_is_cached", ("C02",), z3.And(z3.Not(cached.none), cached.val.t == res)),
                ]
            else:
                out += [("second_read_returns_the_cached_body", ("C02",), z3.And(had, res == c.old(s, "Response._content").val.t))]
            return out

        def exc_checks(self, c, exc):
            return [("a_failed_read_does_not_close_the_response_behind_the_callers_back", ("C17",), len(c.events("inner.aclose")) == 0)]

    @reg.contract
    class ResponseClose(Contract):
        """aclose / close: closes the underlying stream (the pool's / connection's byte stream, which gives the exchange
        back) whenever it can be closed - C05 C06."""
        key = RESPONSE + ".aclose"
        props = ("C05", "C06", "C07", "C17")
        raises = ["Cancelled", "RuntimeError"]
        raises_props = ()

        def setup(self, c):
            c.eng.assume(c.st, _is_streamable(c, c.self))

        def checks(self, c):
            s = c.self
            closes = c.events("inner.aclose")
            name = "aclose" if c.eng.tree == "async" else "close"
            closable = z3.Function("hasattr_" + name, ValS, BoolS)(F(c, s, "Response.stream"))
            n = len(closes)
            return [("closes_the_underlying_stream_once_if_it_can_be_closed", ("C05", "C06", "C07"),
                     z3.If(closable, z3.And(z3.BoolVal(n == 1), closes[0].data["stream"].t == F(c, s, "Response.stream")) if n else z3.BoolVal(False), z3.BoolVal(n == 0)))]

    # ================================================================== ByteStream
    def bytestream_iter(name, trees):
        @reg.contract
        class BSIter(GeneratorContract):
            """a bytes body is yielded whole, and can be iterated again (the pool re-sends the same Request object after
            ConnectionNotAvailable: C03 'for every transmission attempt', C14)"""
            key = BYTESTREAM + "." + name
            props = ("C03", "C14")
            raises = ["GeneratorExit", "Cancelled"]
            raises_props = ()

            def on_yield(self, c, v, node):
                c.eng.oblige(c.st, "yields_the_whole_content", c.eng.coerce(c.st, v, "bytes").t == F(c, c.self, "ByteStream._content", old=True), props=("C03",), kind="call-pre")

            def _kept(self, c):
                writes = [e for e in c.events("field.write") if e.data["key"] == "ByteStream._content"]
                return z3.And(z3.BoolVal(not writes), F(c, c.self, "ByteStream._content") == F(c, c.self, "ByteStream._content", old=True))

            def checks(self, c):
                return [("content_is_kept_for_a_retransmission", ("C03", "C14"), self._kept(c)),
                        ("yields_once", ("C03",), len(c.events("yield")) == 1)]

            def exc_checks(self, c, exc):
                return [("content_is_kept_for_a_retransmission", ("C03", "C14"), self._kept(c))]

        BSIter.trees = trees
        BSIter.__name__ = "BSIter_" + name.strip("_")

    bytestream_iter("__aiter__", ("async",))
    bytestream_iter("__iter__", ("sync",))

    # ================================================================== Trace (context-manager protocol)
    reg.fields(TRACE, "Trace", kwargs="val", should_trace="bool", trace_extension="val", debug="bool", prefix="str")

    def _hook(it, st, self_v, args, kwargs, node):
        """Trace.trace / Trace.atrace: runs the caller's hook (assumed: raises nothing, excluded by precondition) and the debug
        log.  Whatever it returns is opaque - the protocol methods must not depend on it."""
        name = args[0] if args else kwargs["name"]
        info = args[1] if len(args) > 1 else kwargs["info"]
        it.emit(st, "trace.hook", node, trace=self_v, hook_name=name, info=info)
        if it.eng.tree == "async":
            it.suspend(st, f"trace.hook@{node.lineno}")
        st.counter += 1
        return VVal(z3.Const(f"hook_ret!{st.counter}", ValS))

    reg.methods[(TRACE, "atrace")] = _hook
    reg.methods[(TRACE, "trace")] = _hook

    def _mapping_mutation(it, st, recv, args, kwargs, node):
        it.emit(st, "mapping.mutate", node, mapping=recv)
        st.counter += 1
        return VVal(z3.Const(f"popped!{st.counter}", ValS))

    reg.val_methods = dict(getattr(reg, "val_methods", {}))
    for n in ("pop", "popitem", "clear", "update", "setdefault"):
        reg.val_methods.setdefault(n, _mapping_mutation)

    @reg.contract
    class TraceEnter(Contract):
        """entering a traced region hands the hook the keyword mapping it was given - and leaves that mapping alone: callers
        pass the very same dict on to the traced operation (`Trace(..., kwargs)` then `op(**kwargs)`), so popping a key here
        silently changes what the operation is called with (seed C11-w4-1: the SOCKS credentials)"""
        key = TRACE + ".__aenter__"
        props = ("C11", "C15", "C16", "C10")
        raises = ["Cancelled"]
        raises_props = ()

        def checks(self, c):
            hooks = c.events("trace.hook")
            muts = c.events("mapping.mutate")
            kw = F(c, c.self, "Trace.kwargs")
            return [
                ("returns_itself", ("C15",), isinstance(c.result, VRef) and c.result.t.eq(c.self.t)),
                ("keyword_mapping_of_the_traced_call_is_not_modified", ("C11", "C16", "C10"), len(muts) == 0 and not [e for e in c.events("field.write") if e.data["key"] == "Trace.kwargs"]),
                ("hook_sees_the_keyword_mapping_itself", ("C11",), z3.And(*[c.eng.to_val(c.st, h.data["info"]).t == kw for h in hooks]) if hooks else True),
                ("hook_called_at_most_once_and_only_when_tracing", ("C15",), z3.If(F(c, c.self, "Trace.should_trace"), z3.BoolVal(len(hooks) == 1), z3.BoolVal(len(hooks) == 0))),
            ]

    @reg.contract
    class TraceExit(Contract):
        """leaving a traced region never swallows the exception that ends it, whatever the caller's hook returns: every read,
        write and body iteration of the package runs inside `with Trace(...)`, so a truthy return value here turns a
        truncated body or a failed write into a silent success (seed C02-w4-1)"""
        key = TRACE + ".__aexit__"
        props = ("C02", "C15", "C05", "C03")
        params = {"exc_type": "val", "exc_value": "val", "traceback": "val"}
        raises = ["Cancelled"]
        raises_props = ()

        def checks(self, c):
            hooks = c.events("trace.hook")
            return [
                ("never_suppresses_the_exception_of_the_traced_region", ("C02", "C15", "C05", "C03"), isinstance(c.result, VNone)),
                ("hook_called_at_most_once_and_only_when_tracing", ("C15",), z3.If(F(c, c.self, "Trace.should_trace"), z3.BoolVal(len(hooks) == 1), z3.BoolVal(len(hooks) == 0))),
            ]

    # ================================================================== default_ssl_context
    @reg.intrinsic("ssl.create_default_context")
    def create_default_context(it, st, args, kwargs, node):
        st.counter += 1
        v = VVal(z3.Const(f"ssl_context!{st.counter}", ValS))
        it.emit(st, "ssl.create_default_context", node, value=v)
        return v

    @reg.intrinsic("certifi.where")
    def certifi_where(it, st, args, kwargs, node):
        return VStr(z3.String("certifi_where"))

    reg.val_methods.setdefault("load_verify_locations", lambda it, st, recv, args, kwargs, node: NONE)
    reg.module_heads = set(reg.module_heads) | {"certifi", "re"}

    @reg.contract
    class DefaultSSLContext(Contract):
        """every call builds a NEW context: the connection classes configure ALPN by mutating the context they hold
        (`set_alpn_protocols`), so a context shared between pools lets a pool with http2=False offer h2 (C10)"""
        key = "httpcore._ssl.default_ssl_context"
        props = ("C10",)
        suspends = False
        raises = []

        def checks(self, c):
            mk = c.events("ssl.create_default_context")
            return [("returns_a_context_created_by_this_very_call", ("C10",), z3.And(z3.BoolVal(len(mk) == 1), c.eng.to_val(c.st, c.result).t == mk[0].data["value"].t) if mk else False)]

    # ================================================================== AsyncHTTPProxy / AsyncSOCKSProxy constructors
    POOL = "httpcore._async.connection_pool.AsyncConnectionPool"
    POOL_ARGS = ("ssl_context", "max_connections", "max_keepalive_connections", "keepalive_expiry", "http1", "http2",
                 "retries", "network_backend")

    def proxy_pool_ctor(cls, extra_passthrough=()):
        @reg.contract
        class ProxyPoolInit(Contract):
            """the legacy proxy-pool classes are connection pools: every pool-level argument they accept (limits, keep-alive
            expiry, protocol switches, retries, back end, TLS context) reaches AsyncConnectionPool.__init__ unchanged - a
            dropped keyword silently falls back to the pool's default (seed C09-w4-2: max_keepalive_connections)"""
            key = cls + ".__init__"
            props = ("C09", "C04", "C10", "C20")
            suspends = False
            params = {"proxy_url": "ref:" + URL, "proxy_auth": "none", "proxy_headers": "seq:hdr", "ssl_context": "val", "proxy_ssl_context": "val",
                      "max_connections": "val", "max_keepalive_connections": "val", "keepalive_expiry": "val", "http1": "bool", "http2": "bool",
                      "retries": "int", "local_address": "val", "uds": "val", "network_backend": "val", "socket_options": "val"}
            raises = ["TypeError", "RuntimeError"]
            raises_props = ()

            def checks(self, c):
                calls = c.events("call:" + POOL + ".__init__")
                if len(calls) != 1:
                    return [("initialises_the_pool_exactly_once", ("C09", "C04"), False)]
                kw = calls[0].data["kwargs"]
                e, st = c.eng, c.st
                out = [("initialises_the_pool_exactly_once", ("C09", "C04"), True)]
                for a in POOL_ARGS + tuple(extra_passthrough):
                    got = kw.get(a)
                    out.append((f"pool_argument_{a}_is_passed_on_unchanged", ("C09", "C04", "C10", "C20"),
                                e.to_val(st, got).t == e.to_val(st, c.args[a]).t if got is not None else False))
                return out

        ProxyPoolInit.__name__ = "ProxyPoolInit_" + cls.rsplit(".", 1)[-1]

    proxy_pool_ctor("httpcore._async.http_proxy.AsyncHTTPProxy")
    proxy_pool_ctor("httpcore._async.socks_proxy.AsyncSOCKSProxy")

    # ================================================================== is_socket_readable
    POLL = "pyvc.PollObject"
    reg.ext_class(POLL)
    reg.module_heads = set(reg.module_heads) | {"select"}
    reg.consts["select.POLLIN"] = VInt(1)

    @reg.intrinsic("select.poll")
    def select_poll(it, st, args, kwargs, node):
        o = it.eng.alloc(st, POLL, "poll")
        it.emit(st, "rt.poll.new", node, obj=o)
        return o

    @reg.method(POLL, "register")
    def poll_register(it, st, self_v, args, kwargs, node):
        it.emit(st, "rt.poll.register", node, obj=self_v, fd=args[0])
        return NONE

    @reg.method(POLL, "poll")
    def poll_poll(it, st, self_v, args, kwargs, node):
        # poll() has no descriptor limit; returns the (possibly empty) list of ready descriptors
        it.emit(st, "rt.poll.poll", node, obj=self_v, timeout=args[0] if args else NONE)
        st.counter += 1
        return VVal(z3.Const(f"poll_ready!{st.counter}", ValS))

    @reg.intrinsic("select.select")
    def select_select(it, st, args, kwargs, node):
        # select() raises ValueError("filedescriptor out of range in select()") for a descriptor >= FD_SETSIZE (1024): a process
        # with many open files gets there easily - which is why the package polls wherever poll() exists
        eng = it.eng
        it.emit(st, "rt.select.select", node, args=list(args))
        if eng.choose(st, 2, f"select@{node.lineno}", ["ready-lists", "ValueError"]) == 1:
            eng.raise_(st, "ValueError", tag={"from": "select.select"})
        st.counter += 1
        return VTuple([VVal(z3.Const(f"rready!{st.counter}", ValS)), VList([]), VList([])])

    def _getattr_select(it, st, args, kwargs, node):
        raise Unsupported("getattr")

    reg.val_methods.setdefault("fileno", lambda it, st, recv, args, kwargs, node: it.eng.fresh(st, "int", "fd"))

    @reg.contract
    class IsSocketReadable(Contract):
        """has_expired() of every idle HTTP/1.1 connection calls this from inside the pool's assignment pass: an exception here
        aborts the pass and loses the list of connections it had already taken out of the pool for closing (C06), and reaches
        the caller as a bare ValueError (C15).  On a platform with poll() it must poll (seed C06-w5-1 switched to select())."""
        key = "httpcore._utils.is_socket_readable"
        props = ("C06", "C15", "C09", "C01")
        params = {"sock": "val"}
        suspends = False
        raises = []
        raises_props = ("C06", "C15", "C09")
        result_kind = "bool"

        def checks(self, c):
            return [("no_descriptor_limited_select_where_poll_exists", ("C06", "C15", "C09"), len(c.events("rt.select.select")) == 0)]

    # ================================================================== `async with pool:` / `with connection:`
    def exit_closes(cls, close_key_suffix=".aclose"):
        @reg.contract
        class Exit(Contract):
            """leaving the `with` block closes the pool / connection (C06: "at the latest when the pool is closed") and never
            swallows the exception that ended the block"""
            key = cls + ".__aexit__"
            props = ("C06", "C15", "C05")
            params = {"exc_type": "val", "exc_value": "val", "traceback": "val"}
            raises = ["Cancelled"]
            raises_props = ()

            def checks(self, c):
                calls = [e for e in c.trace if e.name == "call:" + cls + close_key_suffix]
                return [
                    ("closes_itself_exactly_once", ("C06", "C05"), z3.And(z3.BoolVal(len(calls) == 1), calls[0].data["self"].t == c.self.t) if calls else False),
                    ("never_swallows_the_exception_that_ended_the_block", ("C15",), isinstance(c.result, VNone)),
                ]

        Exit.__name__ = "Exit_" + cls.rsplit(".", 1)[-1]

        @reg.contract
        class Enter(Contract):
            key = cls + ".__aenter__"
            props = ("C06",)
            suspends = False
            raises = []
            raises_props = ()

            def checks(self, c):
                return [("returns_itself", ("C06",), isinstance(c.result, VRef) and c.result.t.eq(c.self.t))]

        Enter.__name__ = "Enter_" + cls.rsplit(".", 1)[-1]

    for _cls in ("httpcore._async.connection_pool.AsyncConnectionPool", "httpcore._async.connection.AsyncHTTPConnection",
                 "httpcore._async.http11.AsyncHTTP11Connection", "httpcore._async.http2.AsyncHTTP2Connection"):
        exit_closes(_cls)

    # ================================================================== map_exceptions (the real generator behind MapExceptionsCtx)
    ME = "httpcore._exceptions.map_exceptions"

    def _order_sensitive_map(eng, st):
        # the shape every back end uses: a specific class first, its base class second (order matters)
        return VDict({("class", "socket.timeout"): VClass(EXC + "ReadTimeout"), ("class", "OSError"): VClass(EXC + "ReadError")})

    @reg.contract
    class MapExceptions(GeneratorContract):
        """What the stub `MapExceptionsCtx` (ext_runtime.py) assumes at every `with map_exceptions({...})` of the package, checked
        against the real 8-line generator for the order-sensitive two-entry shape the back ends use ({specific: A, base: B}):
        an Exception thrown into it is re-raised as the FIRST matching entry's class, an unmatched Exception and every
        non-Exception (cancellation) pass through unchanged, nothing is swallowed.  Shape-bounded: one mapping shape, four
        thrown classes - labelled as such, the general statement stays an assumption."""
        key = ME
        props = ("C15", "C16")
        trees = ("async",)
        variants = [("specific_then_base", {"map": _order_sensitive_map})]
        yield_throws = ["socket.timeout", "ConnectionResetError", "RuntimeError", "Cancelled"]
        raises = [EXC + "ReadTimeout", EXC + "ReadError", "RuntimeError", "Cancelled", "GeneratorExit"]
        raises_props = ("C15",)

        def checks(self, c):
            # normal end: only when nothing was thrown in
            return [("nothing_is_swallowed", ("C15",), len(c.events("yield.throw")) == 0)]

        def exc_checks(self, c, exc):
            thrown = [e for e in c.trace if False]
            want = {"socket.timeout": EXC + "ReadTimeout", "ConnectionResetError": EXC + "ReadError", "RuntimeError": "RuntimeError", "Cancelled": "Cancelled"}
            src = exc.tag.get("mapped_from") or (exc.cause.cls if getattr(exc, "cause", None) is not None else None)
            if exc.cls == "GeneratorExit":
                return []
            if src is None:
                # passed through unchanged
                return [("unmatched_and_non_exception_failures_pass_through_unchanged", ("C15", "C16"), exc.cls in ("RuntimeError", "Cancelled"))]
            return [("mapped_to_the_first_matching_entry", ("C15", "C16"), want.get(src) == exc.cls)]

    # ================================================================== httpcore.request() (the one-shot top-level API, sync only)
    class PoolCtx(CtxHandler):
        """`with ConnectionPool() as pool:` - enter returns the pool, exit closes it (contracts Enter_/Exit_AsyncConnectionPool above)"""

        def __init__(self, ref):
            self.ref = ref

        def enter(self, it, st):
            it.emit(st, "pool.ctx.enter", None, pool=self.ref)
            return self.ref

        def exit(self, it, st, exc):
            it.emit(st, "pool.ctx.exit", None, pool=self.ref, exc=exc)
            return False

    reg.ctx_by_class[POOL] = lambda it, st, ref: PoolCtx(ref)

    @reg.contract
    class ApiRequest(Contract):
        """httpcore.request(...): a pool of its own, one request through it with the caller's arguments, and the pool closed again
        on every way out (C06: nothing stays open behind a one-shot call)"""
        key = "httpcore._api.request"
        props = ("C06", "C03", "C01")
        trees = ("sync",)
        params = {"method": "val", "url": "val", "headers": "val", "content": "val", "extensions": "val"}
        raises = API_RAISES + ["TypeError", "ValueError", EXC + "LocalProtocolError"]
        raises_props = ()

        def _closed(self, c):
            en = c.events("pool.ctx.enter")
            ex = c.events("pool.ctx.exit")
            return z3.And(z3.BoolVal(len(en) == 1 and len(ex) == 1), ex[0].data["pool"].t == en[0].data["pool"].t) if en and ex else z3.BoolVal(len(en) == 0 and len(ex) == 0)

        def callsite(self, c, ev):
            if ev.name == "call:" + RI + ".request":
                kw = ev.data["kwargs"]
                e, st = c.eng, c.st
                same = [e.to_val(st, kw[n]).t == e.to_val(st, c.args[n]).t for n in ("method", "url", "headers", "content", "extensions") if n in kw]
                en = c.events("pool.ctx.enter")
                return [("the_callers_arguments_reach_the_pool_unchanged", ("C03", "C01"), z3.And(z3.BoolVal(len(same) == 5), *same)),
                        ("sent_through_the_pool_it_has_just_entered", ("C06",), ev.data["self"].t == en[-1].data["pool"].t if en else False)]
            return []

        def checks(self, c):
            calls = [e for e in c.trace if e.name == "call:" + RI + ".request" and "result" in e.data]
            return [("returns_the_pools_response", ("C01",), c.result.t == calls[0].data["result"].t if len(calls) == 1 and isinstance(c.result, VRef) else False),
                    ("its_own_pool_is_closed_again", ("C06",), self._closed(c))]

        def exc_checks(self, c, exc):
            return [("its_own_pool_is_closed_again_on_failure", ("C06",), self._closed(c))]
