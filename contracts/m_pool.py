"""Contracts for httpcore/_async/connection_pool.py (AsyncPoolRequest, AsyncConnectionPool,
PoolByteStream) and the sync twin.  C04 (limit), C05 (slot given back), C06 (closing handed
over), C07 (assignment pass: queue scanned completely, in order, re-run on every exit; no
lost wake-up), C08 (pool state only under the thread lock), C09 (clean-up reasons, reuse
before create), C10 (connection class per proxy / scheme), C01 (assignment), C14 (retry only
on ConnectionNotAvailable), C16 (pool timeout)."""
from __future__ import annotations

import z3

from pyvc.values import *  # noqa: F401,F403
from pyvc.engine import Contract, GeneratorContract, Unsupported
from pyvc.builtins_ import exists_in, filter_map, count_in
from .common import NS, NB, EXC, timeout_of
from .ext_runtime import TLOCK, EVENT, lock_id
from .iface import CI, CONN_RAISES
from .m_models_fields import ORIGIN, REQUEST, URL, RESPONSE, PROXY, origin_fields_equal
from .m_models import default_port_of, DEFAULT_PORT_TABLE
from .m_connection import HC

MOD = "httpcore._async.connection_pool."
POOL = MOD + "AsyncConnectionPool"
PR = MOD + "AsyncPoolRequest"
PBS = MOD + "PoolByteStream"
FWD = "httpcore._async.http_proxy.AsyncForwardHTTPConnection"
TUN = "httpcore._async.http_proxy.AsyncTunnelHTTPConnection"
SOCKS = "httpcore._async.socks_proxy.AsyncSocks5Connection"
CNA = EXC + "ConnectionNotAvailable"
UP = EXC + "UnsupportedProtocol"
PT = EXC + "PoolTimeout"

ASSIGN = POOL + "._assign_requests_to_connections"
CLOSECONNS = POOL + "._close_connections"
RELEASE = POOL + "._release_unused_connection"


def F(c, ref, key, old=False):
    return (c.old(ref, key) if old else c.new(ref, key)).t


def pool_lock_held(c, pool):
    return lock_id(c.new(pool, "Pool._optional_thread_lock")) in c.st.held


def register(reg):
    reg.fields(
        POOL, "Pool",
        const=["_ssl_context", "_proxy", "_max_connections", "_max_keepalive_connections", "_keepalive_expiry", "_http1", "_http2",
               "_retries", "_local_address", "_uds", "_network_backend", "_socket_options", "_optional_thread_lock"],
        shared=["_connections", "_requests"],
        _ssl_context="val", _proxy="ref:" + PROXY, _max_connections="int", _max_keepalive_connections="int", _keepalive_expiry="opt:real",
        _http1="bool", _http2="bool", _retries="int", _local_address="val", _uds="val", _network_backend="ref:" + NB,
        _socket_options="val", _connections="seq:ref:" + CI, _requests="seq:ref:" + PR, _optional_thread_lock="ref:" + TLOCK,
    )
    reg.fields(PR, "PR", const=["request"], shared=["connection", "_connection_acquired"],
               request="ref:" + REQUEST, connection="ref:" + CI, _connection_acquired="ref:" + EVENT)
    reg.fields(PBS, "PBS", const=["_stream", "_pool_request", "_pool"], _stream="val", _pool_request="ref:" + PR, _pool="ref:" + POOL, _closed="bool")
    reg.allow_inline(PR + ".is_queued", PR + ".__init__")
    reg.consts["sys.maxsize"] = VInt(2 ** 63 - 1)

    # every queued pool request passed the scheme guard of handle_async_request (obligation
    # request_enqueued_only_with_supported_scheme): its URL has an origin
    def pr_fact(eng, st, ref):
        req = eng.heap_read(st, ref, "PR.request")
        url = eng.heap_read(st, req, "Request.url")
        known, _ = default_port_of(eng.heap_read(st, url, "URL.scheme").t, [t for t in DEFAULT_PORT_TABLE if not t[0].startswith(b"socks")])
        return z3.And(req.t > 0, url.t > 0, known)

    reg.ref_facts = dict(getattr(reg, "ref_facts", {}))
    reg.ref_facts[PR] = pr_fact
    for lit in ("http", "https", "ws", "wss"):
        reg.axioms.append(encode_ascii(str_lit(lit)) == bytes_lit(lit.encode()))

    def my_requests(st):
        return st.ghost.setdefault("my_pool_requests", [])

    def rely(it, st, old):
        """other tasks never remove this flow's pool request from the queue, and only the owner
        clears its connection (assigners only fill an empty slot)"""
        eng = it.eng
        for pool, pr in my_requests(st):
            o = z3.Select(eng.old_arr(old, "Pool._requests", RefSeqS), pool)
            n = z3.Select(eng.heap_arr(st, "Pool._requests", RefSeqS), pool)
            eng.assume(st, z3.Implies(z3.Contains(o, z3.Unit(pr)), z3.Contains(n, z3.Unit(pr))))
            oc = z3.Select(eng.old_arr(old, "PR.connection", IntS), pr)
            nc = z3.Select(eng.heap_arr(st, "PR.connection", IntS), pr)
            eng.assume(st, z3.Implies(oc != 0, nc == oc))

    reg.rely_hooks.append(rely)

    def vm_aclose(it, st, recv, args, kwargs, node):
        it.emit(st, "inner.aclose", node, stream=recv, shield=st.shield, held=list(st.held))
        it.suspend(st, f"inner.aclose@{node.lineno}")
        return NONE

    reg.val_methods = dict(getattr(reg, "val_methods", {}))
    reg.val_methods["aclose"] = vm_aclose
    reg.val_methods["close"] = vm_aclose

    # ================================================================== AsyncPoolRequest
    @reg.contract
    class PRAssign(Contract):
        key = PR + ".assign_to_connection"
        props = ("C07", "C08")
        suspends = False
        params = {"connection": "ref:" + CI}

        def ensures(self, c):
            s = c.self
            ev = c.new(s, "PR._connection_acquired")
            return [
                ("connection_stored", ("C07",), F(c, s, "PR.connection") == c.args["connection"].t),
                ("waiter_woken", ("C07",), F(c, ev, "Evt.flag")),
            ]

        def checks(self, c):
            # no lost wake-up: the connection is published before the event is set
            idx_w = [i for i, e in enumerate(c.trace) if e.name == "field.write" and e.data["key"] == "PR.connection"]
            idx_s = [i for i, e in enumerate(c.trace) if e.name == "event.set"]
            return [("connection_published_before_wakeup", ("C07", "C08"), len(idx_w) == 1 and len(idx_s) == 1 and idx_w[0] < idx_s[0])]

        def apply(self, it, st, self_v, args, kwargs, node):
            eng = it.eng
            conn = args[0] if args else kwargs["connection"]
            eng.heap_write(st, self_v, "PR.connection", conn)
            ev = eng.heap_read(st, self_v, "PR._connection_acquired")
            eng.heap_write(st, ev, "Evt.flag", VBool(True))
            it.emit(st, "pr.assign", node, pr=self_v, connection=conn)
            return NONE

    @reg.contract
    class PRClear(Contract):
        key = PR + ".clear_connection"
        props = ("C07",)
        suspends = False

        def setup(self, c):
            c.eng.assume_alive(c.st, c.new(c.self, "PR._connection_acquired"))

        def ensures(self, c):
            s = c.self
            ev = c.new(s, "PR._connection_acquired")
            return [
                ("connection_cleared", ("C07",), F(c, s, "PR.connection") == 0),
                ("fresh_unset_event", ("C07",), z3.And(ev.t != F(c, s, "PR._connection_acquired", old=True), z3.Not(F(c, ev, "Evt.flag")))),
            ]

        def apply(self, it, st, self_v, args, kwargs, node):
            eng = it.eng
            eng.heap_write(st, self_v, "PR.connection", NONE)
            e = eng.alloc(st, EVENT, "event")
            eng.heap_write(st, e, "Evt.flag", VBool(False))
            eng.heap_write(st, self_v, "PR._connection_acquired", e)
            it.emit(st, "pr.clear", node, pr=self_v)
            return NONE

    @reg.contract
    class PRWait(Contract):
        key = PR + ".wait_for_connection"
        props = ("C07", "C16", "C15", "C08", "C05")
        params = {"timeout": "val"}
        raises = [PT, "Cancelled", "AssertionError"]
        raises_props = ("C15",)
        call_raises = [PT, "Cancelled"]
        result_kind = "ref:" + CI

        def setup(self, c):
            # this flow's own pool request: nobody else clears its connection; an event that is set
            # was set by assign_to_connection, which stored the connection first
            pr = c.self
            my_requests(c.st).append((z3.IntVal(0), pr.t))

        def ensures(self, c):
            return [("returns_the_assigned_connection", ("C07",), z3.And(c.result.t != 0, c.result.t == F(c, c.self, "PR.connection")))]

        def callsite(self, c, ev):
            if ev.name == "event.wait":
                return [
                    ("waits_with_the_given_timeout", ("C16",), ev.data["timeout"].t == c.eng.to_val(c.st, c.args["timeout"]).t),
                    ("waits_on_own_event", ("C07",), ev.data["event"].t == F(c, c.self, "PR._connection_acquired", old=True)),
                    ("waits_only_while_unassigned", ("C07", "C16", "C08"), F(c, c.self, "PR.connection", old=True) == 0),
                ]
            return []

        def checks(self, c):
            waits = c.events("event.wait")
            had = F(c, c.self, "PR.connection", old=True) != 0
            return [("no_wait_when_already_assigned", ("C07", "C16", "C08"), z3.Implies(had, z3.BoolVal(len(waits) == 0)))]

        def exc_checks(self, c, exc):
            if exc.cls == "AssertionError":
                # woken without a connection: excluded by assign_to_connection's order (connection_published_before_wakeup)
                return [("woken_only_with_a_connection", ("C07", "C08"), False)]
            # a wait that gives up (pool timeout, cancellation) leaves the assignment alone: the pool's exception handler looks at
            # pool_request.connection to release a connection that was assigned at the last moment (seed C05-w5-1 wiped it here)
            w = [e for e in c.events("field.write") if e.data["key"] in ("PR.connection", "PR._connection_acquired")]
            return [("giving_up_the_wait_leaves_the_assignment_for_the_pool_to_release", ("C05", "C07"), len(w) == 0 and not c.events("pr.clear"))]

        def after_event_wait(self, c, ev):
            # guarantee of assign_to_connection (connection_published_before_wakeup): an event that
            # is set was set after the connection had been stored
            c.eng.assume(c.st, z3.Implies(c.new(ev, "Evt.flag").t, F(c, c.self, "PR.connection") != 0))

    # ================================================================== pool construction
    @reg.contract
    class PoolInit(Contract):
        key = POOL + ".__init__"
        props = ("C04", "C09")
        suspends = False
        params = {"ssl_context": "val", "proxy": "ref:" + PROXY, "proxy!nonnull": False, "max_connections": "opt:int", "max_keepalive_connections": "opt:int",
                  "keepalive_expiry": "opt:real", "http1": "bool", "http2": "bool", "retries": "int", "local_address": "val", "uds": "val",
                  "network_backend": "ref:" + NB, "network_backend!nonnull": False, "socket_options": "val"}

        def ensures(self, c):
            s = c.self
            mc = c.args["max_connections"]
            mk = c.args["max_keepalive_connections"]
            big = z3.IntVal(2 ** 63 - 1)
            m = z3.If(mc.none, big, mc.val.t)
            k = z3.If(mk.none, big, mk.val.t)
            return [
                ("starts_empty", ("C04",), z3.And(z3.Length(F(c, s, "Pool._connections")) == 0, z3.Length(F(c, s, "Pool._requests")) == 0)),
                ("max_connections_none_is_unlimited", ("C04",), F(c, s, "Pool._max_connections") == m),
                ("keepalive_limit_is_min_of_both_limits", ("C09",), F(c, s, "Pool._max_keepalive_connections") == z3.If(k < m, k, m)),
                ("stores_expiry", ("C09",), c.eng.z_bool(c.eng.eq(c.st, c.new(s, "Pool._keepalive_expiry"), c.args["keepalive_expiry"]))),
            ]

    # ================================================================== create_connection
    @reg.contract
    class CreateConnection(Contract):
        key = POOL + ".create_connection"
        props = ("C10", "C11", "C09", "C20")
        suspends = False
        result_kind = "ref:" + CI

        def setup(self, c):
            nb = c.new(c.self, "Pool._network_backend")
            c.eng.assume(c.st, nb.t > 0)

        def checks(self, c):
            s = c.self
            origin = c.args["origin"]
            proxy = c.new(s, "Pool._proxy")
            e, st = c.eng, c.st
            r = c.result
            out = []
            hc = c.events("HC.__init__")
            calls = {n: c.events("call:" + k + ".__init__") for n, k in (("fwd", FWD), ("tun", TUN), ("socks", SOCKS), ("hc", HC))}
            made = [n for n, v in calls.items() if v]
            out.append(("exactly_one_connection_object_created", ("C10",), len(made) == 1))
            if len(made) != 1:
                return out
            kind = made[0]
            ev = calls[kind][0]
            kw = ev.data["kwargs"]
            purl = c.new(proxy, "Proxy.url")
            pscheme = F(c, purl, "URL.scheme")
            is_socks = z3.Or(pscheme == bytes_lit(b"socks5"), pscheme == bytes_lit(b"socks5h"))
            is_http_origin = F(c, origin, "Origin.scheme") == bytes_lit(b"http")
            want = {
                "hc": proxy.t == 0,
                "socks": z3.And(proxy.t != 0, is_socks),
                "fwd": z3.And(proxy.t != 0, z3.Not(is_socks), is_http_origin),
                "tun": z3.And(proxy.t != 0, z3.Not(is_socks), z3.Not(is_http_origin)),
            }[kind]
            out.append(("connection_class_chosen_by_proxy_and_scheme", ("C10", "C11"), want))
            out.append(("returns_the_created_connection", ("C10",), r.t == ev.data["self"].t))
            tv = lambda v: e.to_val(st, v).t  # noqa: E731
            if kind == "hc":
                out.append(("direct_connection_is_for_the_requested_origin", ("C10",), kw["origin"].t == origin.t))
                out.append(("direct_connection_gets_pool_configuration", ("C10", "C20", "C09"), z3.And(
                    tv(kw["ssl_context"]) == F(c, s, "Pool._ssl_context"), e.coerce(st, kw["http1"], "bool").t == F(c, s, "Pool._http1"),
                    e.coerce(st, kw["http2"], "bool").t == F(c, s, "Pool._http2"), e.coerce(st, kw["retries"], "int").t == F(c, s, "Pool._retries"),
                    tv(kw["local_address"]) == F(c, s, "Pool._local_address"), tv(kw["uds"]) == F(c, s, "Pool._uds"),
                    kw["network_backend"].t == F(c, s, "Pool._network_backend"), tv(kw["socket_options"]) == F(c, s, "Pool._socket_options"),
                    e.z_bool(e.eq(st, e.coerce(st, kw["keepalive_expiry"], "opt:real"), c.new(s, "Pool._keepalive_expiry"))))))
            else:
                out.append(("proxied_connection_is_for_the_requested_origin", ("C10", "C11"), kw["remote_origin"].t == origin.t))
                porigin = kw["proxy_origin"]
                out.append(("proxied_connection_goes_to_the_proxy_urls_origin", ("C10", "C11"), z3.And(
                    F(c, porigin, "Origin.scheme") == pscheme, F(c, porigin, "Origin.host") == F(c, purl, "URL.host"))))
                out.append(("proxied_connection_gets_pool_keepalive_expiry_and_backend", ("C09", "C10"), z3.And(
                    e.z_bool(e.eq(st, e.coerce(st, kw.get("keepalive_expiry", NONE), "opt:real"), c.new(s, "Pool._keepalive_expiry"))),
                    kw["network_backend"].t == F(c, s, "Pool._network_backend")) if "network_backend" in kw else False))
                if kind in ("fwd", "tun"):
                    out.append(("proxy_headers_and_proxy_tls_context_passed", ("C11", "C10"), z3.And(
                        e.coerce(st, kw["proxy_headers"], "seq:hdr").t == F(c, proxy, "Proxy.headers"), tv(kw["proxy_ssl_context"]) == F(c, proxy, "Proxy.ssl_context"))))
                if kind == "socks":
                    out.append(("socks_credentials_passed", ("C11",), tv(kw["proxy_auth"]) == F(c, proxy, "Proxy.auth")))
                if kind in ("tun", "socks"):
                    out.append(("origin_tls_and_protocol_switches_passed", ("C10",), z3.And(
                        tv(kw["ssl_context"]) == F(c, s, "Pool._ssl_context"), e.coerce(st, kw["http1"], "bool").t == F(c, s, "Pool._http1"),
                        e.coerce(st, kw["http2"], "bool").t == F(c, s, "Pool._http2"))))
            return out

        def apply(self, it, st, self_v, args, kwargs, node):
            eng = it.eng
            origin = args[0] if args else kwargs["origin"]
            ev = it.emit(st, "pool.create_connection", node, pool=self_v, origin=origin)
            r = eng.alloc(st, CI, "newconn")
            eng.heap_write(st, r, "CI.origin", origin)
            # a connection that has not been used yet is neither idle, closed nor expired
            eng.heap_write(st, r, "CI.idle", VBool(False))
            eng.heap_write(st, r, "CI.closed", VBool(False))
            eng.heap_write(st, r, "CI.expired", VBool(False))
            ev.data["result"] = r
            return r

    # the four connection constructors, as seen from create_connection: event + fresh object
    def ctor_contract(cls, name):
        @reg.contract
        class Ctor(Contract):
            key = cls + ".__init__"
            props = ()
            trees = ()

            def apply(self, it, st, self_v, args, kwargs, node):
                if args:
                    raise Unsupported(f"{name}(...) with positional arguments")
                return NONE

        Ctor.__name__ = "Ctor_" + name

    ctor_contract(SOCKS, "Socks5Connection")

    # ================================================================== the assignment pass
    def conn_seq(c, old=False):
        return F(c, c.self, "Pool._connections", old)

    @reg.contract
    class Assign(Contract):
        key = ASSIGN
        props = ("C01", "C04", "C05", "C06", "C07", "C08", "C09", "C10", "C15", "C17")
        suspends = False
        result_kind = "seq:ref:" + CI
        modifies = ("Pool._connections", "PR.connection", "Evt.flag", "CI.origin", "CI.idle", "CI.closed", "CI.expired", "CI.avail")
        raises = []
        raises_props = ("C15", "C08")
        max_paths = 20000

        def setup(self, c):
            c.st.ghost["list_elem_kind"] = {"*": "ref:" + CI}
            nb = c.new(c.self, "Pool._network_backend")
            c.eng.assume(c.st, nb.t > 0)

        def requires(self, c):
            s = c.self
            return [
                ("limits_nonnegative", z3.And(F(c, s, "Pool._max_connections") >= 0, F(c, s, "Pool._max_keepalive_connections") >= 0)),
                ("pool_lock_held", z3.BoolVal(True)),
            ]

        def bound(self, c):
            n0 = z3.Length(conn_seq(c, old=True))
            m = F(c, c.self, "Pool._max_connections")
            return z3.If(n0 > m, n0, m)

        def loop_invariant(self, c, ordinal):
            s = c.self
            cur = conn_seq(c)
            inv = []
            if ordinal == 0:
                # clean-up only removes: the unprocessed suffix of the snapshot is still a suffix of the list
                snap = [e for e in c.events("for.iter") if e.data["ordinal"] == 0]
                i = c.st.env.get("$i0")
                if snap and i is not None:
                    sq = snap[0].data["seq"].t
                    n = z3.Length(sq)
                    rest = n - i.t
                    inv.append(("unprocessed_connections_still_pooled", ("C08", "C15"), z3.And(z3.Length(cur) >= rest, z3.SubSeq(cur, z3.Length(cur) - rest, rest) == z3.SubSeq(sq, i.t, rest))))
                inv.append(("cleanup_never_grows_the_pool", ("C04",), z3.Length(cur) <= z3.Length(conn_seq(c, old=True))))
            if ordinal == 1:
                inv.append(("pool_size_within_limit", ("C04",), z3.Length(cur) <= self.bound(c)))
            return inv

        def _removed_handed_over(self, c):
            """every connection removed in this iteration was observed closed or is appended to the closing list"""
            evs = c.since_cut({"list.remove", "list.append", "ci.is_closed"})
            goals = []
            for i, e in enumerate(evs):
                if e.name == "list.remove" and e.data["target"] == "Pool._connections":
                    x = e.data["value"].t
                    closed = [z3.And(k.data["conn"].t == x, k.data["result"].t) for k in evs if k.name == "ci.is_closed"]
                    queued = [k.data["value"].t == x for k in evs[i:] if k.name == "list.append" and k.data["target"] == "local"]
                    goals.append(z3.Or(*(closed + queued)) if closed + queued else z3.BoolVal(False))
            return z3.And(*goals) if goals else True

        def on_back_edge(self, c, ordinal):
            s = c.self
            out = [("removed_connection_is_closed_or_queued_for_closing", ("C06", "C04"), self._removed_handed_over(c))]
            evs = c.since_cut(None)
            if ordinal == 0:
                # reasons for dropping a connection in the clean-up pass (C09)
                rem = [e for e in evs if e.name == "list.remove" and e.data["target"] == "Pool._connections"]
                obs = {n: [e for e in evs if e.name == "ci." + n] for n in ("is_closed", "has_expired", "is_idle")}
                conn = c.interp.loop_var(c.st, ordinal)
                if rem:
                    x = rem[0].data["value"].t
                    before = rem[0].data["before"].t
                    xc = z3.Const("xc", IntS)
                    idle_now = count_in(before, xc, z3.Select(c.eng.heap_arr(c.st, "CI.idle", BoolS), xc))
                    closed = z3.Select(c.eng.heap_arr(c.st, "CI.closed", BoolS), x)
                    expired = z3.Select(c.eng.heap_arr(c.st, "CI.expired", BoolS), x)
                    idle = z3.Select(c.eng.heap_arr(c.st, "CI.idle", BoolS), x)
                    surplus = z3.And(idle, idle_now > F(c, s, "Pool._max_keepalive_connections"))
                    out.append(("cleanup_removes_only_closed_expired_or_surplus_idle", ("C09", "C17", "C01"), z3.And(z3.BoolVal(len(rem) == 1), z3.Or(closed, expired, surplus))))
                    out.append(("cleanup_removes_the_connection_it_examined", ("C09", "C06"), x == conn.t if isinstance(conn, VRef) else False))
                else:
                    if isinstance(conn, VRef):
                        closed = z3.Select(c.eng.heap_arr(c.st, "CI.closed", BoolS), conn.t)
                        expired = z3.Select(c.eng.heap_arr(c.st, "CI.expired", BoolS), conn.t)
                        out.append(("closed_and_expired_connections_never_stay", ("C09", "C06"), z3.And(z3.Not(closed), z3.Not(expired))))
            if ordinal == 1:
                pr = c.interp.loop_var(c.st, 1)
                assigns = [e for e in evs if e.name == "pr.assign"]
                creates = [e for e in evs if e.name == "pool.create_connection"]
                cur = conn_seq(c)
                if isinstance(pr, VRef):
                    req = c.new(pr, "PR.request")
                    url = c.new(req, "Request.url")
                    if assigns:
                        a = assigns[0]
                        conn = a.data["connection"]
                        origin_ok = z3.And(
                            F(c, c.new(conn, "CI.origin"), "Origin.scheme") == F(c, url, "URL.scheme"),
                            F(c, c.new(conn, "CI.origin"), "Origin.host") == F(c, url, "URL.host"),
                        )
                        reused = z3.And(F(c, conn, "CI.avail"), z3.Contains(cur, z3.Unit(conn.t)))
                        created = z3.BoolVal(len(creates) == 1 and True) if creates else z3.BoolVal(False)
                        out.append(("assigned_connection_handles_the_requests_origin", ("C01", "C10"), origin_ok))
                        out.append(("assigned_connection_is_pooled", ("C01", "C04"), z3.Contains(cur, z3.Unit(conn.t))))
                        out.append(("assigned_connection_was_available_or_just_created", ("C01", "C09"), z3.Or(reused, z3.And(created, conn.t == creates[0].data["result"].t)) if creates else reused))
                        out.append(("assigns_the_request_being_examined", ("C01", "C07"), z3.And(z3.BoolVal(len(assigns) == 1), a.data["pr"].t == pr.t)))
                        out.append(("at_most_one_connection_created_per_request", ("C04",), len(creates) <= 1))
                    else:
                        # left queued: nothing available, at the limit, nothing idle to evict
                        xc = z3.Const("xc", IntS)
                        origin_match = lambda x: z3.And(  # noqa: E731
                            F(c, VRef(z3.Select(c.eng.heap_arr(c.st, "CI.origin", IntS), x), ORIGIN), "Origin.scheme") == F(c, url, "URL.scheme"),
                        )
                        out.append(("request_left_queued_only_at_the_limit", ("C07", "C04"), z3.Length(cur) >= F(c, s, "Pool._max_connections")))
                        idle_arr = c.eng.heap_arr(c.st, "CI.idle", BoolS)
                        out.append(("request_left_queued_only_without_an_idle_connection_to_evict", ("C07", "C05"), z3.Not(exists_in(cur, xc, z3.Select(idle_arr, xc)))))
                        org = c.new(url, "URL.scheme")
                        avail_arr = c.eng.heap_arr(c.st, "CI.avail", BoolS)
                        out.append(("request_left_queued_creates_nothing", ("C07", "C04"), len(creates) == 0))
            return out

        def on_loop_break(self, c, ordinal):
            return [("queue_and_pool_are_scanned_completely", ("C07", "C09"), False)]

        def callsite(self, c, ev):
            s = c.self
            out = []
            if ev.name == "for.iter" and ev.data["ordinal"] == 0:
                out.append(("cleanup_scans_a_snapshot_of_the_pool", ("C09", "C08"), ev.data["seq"].t == conn_seq(c)))
            if ev.name == "for.iter" and ev.data["ordinal"] == 1:
                x = z3.Const("qx", IntS)
                queued = filter_map(F(c, s, "Pool._requests"), x, z3.Select(c.eng.heap_arr(c.st, "PR.connection", IntS), x) == 0, x, IntS)
                out.append(("queued_requests_scanned_in_arrival_order", ("C07",), ev.data["seq"].t == queued))
            if ev.name == "pool.create_connection":
                cur = conn_seq(c)
                pr = c.interp.loop_var(c.st, 1)
                x = z3.Const("ax", IntS)
                if isinstance(pr, VRef):
                    origin = ev.data["origin"]
                    evicted = [e for e in c.since_cut({"list.remove"}) if e.data["target"] == "Pool._connections"]
                    scanned = evicted[0].data["before"].t if evicted else cur
                    avail = filter_map(scanned, x, z3.And(origin_fields_equal(c.eng, c.st, origin, VRef(z3.Select(c.eng.heap_arr(c.st, "CI.origin", IntS), x), ORIGIN)), z3.Select(c.eng.heap_arr(c.st, "CI.avail", BoolS), x)), x, IntS)
                    out.append(("reuse_before_create", ("C09",), z3.Length(avail) == 0))
                    req = c.new(pr, "PR.request")
                    url = c.new(req, "Request.url")
                    out.append(("created_for_the_requests_origin", ("C10", "C01"), z3.And(F(c, origin, "Origin.scheme") == F(c, url, "URL.scheme"), F(c, origin, "Origin.host") == F(c, url, "URL.host"))))
                out.append(("create_only_below_the_limit", ("C04",), z3.Length(cur) < self.bound(c)))
                evict = [e for e in c.since_cut({"list.remove"}) if e.data["target"] == "Pool._connections"]
                out.append(("create_at_the_limit_only_after_evicting_one", ("C04",), z3.Or(z3.Length(cur) < F(c, s, "Pool._max_connections"), z3.BoolVal(len(evict) == 1))))
            if ev.name == "list.remove" and ev.data["target"] == "Pool._connections" and any(e.name == "for.iter" and e.data["ordinal"] == 1 for e in c.trace):
                x = ev.data["value"].t
                out.append(("eviction_only_of_an_idle_connection_at_the_limit", ("C09", "C04"), z3.And(z3.Select(c.eng.heap_arr(c.st, "CI.idle", BoolS), x), z3.Length(ev.data["before"].t) >= F(c, s, "Pool._max_connections"))))
            return out

        def ensures(self, c):
            cur = conn_seq(c)
            return [("pool_size_within_limit_after_pass", ("C04",), z3.Length(cur) <= self.bound(c))]

        def checks(self, c):
            r = c.result
            # the returned list is the local list the evicted connections were appended to (any name)
            locals_ = [v for v in c.st.env.values() if isinstance(v, (VSeq, VList))]
            same = any((isinstance(r, VSeq) and isinstance(v, VSeq) and z3.eq(r.t, v.t)) or (r is v) for v in locals_)
            appended_elsewhere = [e for e in c.trace if e.name == "list.append" and e.data["target"] not in ("local", "Pool._connections")]
            return [("returns_the_closing_list", ("C06",), bool(same) and not appended_elsewhere)]

        def exc_checks(self, c, exc):
            return []

    # ================================================================== _release_unused_connection (fix for p30)
    @reg.contract
    class ReleaseUnused(Contract):
        """C05 / C07, from the property: a request that leaves without ever having driven the connection the pool assigned
        to it must not strand that connection.  A newly created connection is neither available, idle nor closed, and
        nobody but the request it was created for will ever establish it (design_probes/p30)."""
        key = RELEASE
        props = ("C05", "C07", "C04", "C06", "C08", "C15")
        suspends = False
        result_kind = "seq:ref:" + CI
        params = {"pool_request": "ref:" + PR}
        modifies = ("Pool._connections",)
        raises = []
        raises_props = ("C15", "C08")

        def setup(self, c):
            c.st.ghost["list_elem_kind"] = {"*": "ref:" + CI}

        def ensures(self, c):
            s = c.self
            pr = c.args["pool_request"]
            conn = c.old(pr, "PR.connection")
            old = conn_seq(c, old=True)
            cur = conn_seq(c)
            r = c.eng.coerce(c.st, c.result, "seq:ref:" + CI).t
            usable = z3.Or(F(c, conn, "CI.idle"), F(c, conn, "CI.closed"))
            released = r == z3.Unit(conn.t)
            return [
                ("returns_nothing_or_exactly_the_requests_connection", ("C06", "C05"), z3.Or(r == z3.Empty(RefSeqS), z3.And(conn.t != 0, released))),
                ("pool_untouched_when_nothing_is_released", ("C04", "C05"), z3.Implies(r == z3.Empty(RefSeqS), cur == old)),
                ("released_connection_gives_its_slot_back", ("C05", "C04", "C07"), z3.Implies(released, z3.And(z3.Contains(old, z3.Unit(conn.t)), z3.Length(cur) == z3.Length(old) - 1))),
                ("only_a_connection_nobody_can_use_is_released", ("C05", "C09", "C01"), z3.Implies(released, z3.Not(usable))),
                ("a_connection_another_queued_request_holds_is_never_released", ("C05", "C01", "C12"), z3.Implies(released, z3.Not(
                    exists_in(F(c, s, "Pool._requests"), z3.Const("rx", IntS), z3.Select(c.eng.heap_arr(c.st, "PR.connection", IntS), z3.Const("rx", IntS)) == conn.t)))),
            ]

        def checks(self, c):
            # the property-level clause: afterwards the request's connection is gone from the pool (handed over for
            # closing), or it is idle (reusable, can expire, can be evicted), or it is closed (the pass drops it), or
            # another request of the queue holds it (and will drive it).  "It reports itself available" is NOT enough: an
            # unestablished https + HTTP/2 connection does, and so does an HTTP/2 connection a cancelled request left ACTIVE
            # with no stream - neither can ever be evicted (design_probes/w5_preexisting/C05_preexisting_1/2.py)
            s = c.self
            pr = c.args["pool_request"]
            conn = c.old(pr, "PR.connection")
            r = c.eng.coerce(c.st, c.result, "seq:ref:" + CI).t
            usable = z3.Or(F(c, conn, "CI.idle"), F(c, conn, "CI.closed"))
            x = z3.Const("rx", IntS)
            held_by_other = exists_in(F(c, s, "Pool._requests"), x, z3.Select(c.eng.heap_arr(c.st, "PR.connection", IntS), x) == conn.t)
            removed = [e for e in c.events("list.remove") if e.data["target"] == "Pool._connections"]
            handed_over = z3.And(z3.BoolVal(len(removed) == 1), r == z3.Unit(conn.t), removed[0].data["value"].t == conn.t) if removed else z3.BoolVal(False)
            not_pooled = z3.Not(z3.Contains(conn_seq(c, old=True), z3.Unit(conn.t)))
            return [
                ("unused_assigned_connection_is_not_left_stranded", ("C05", "C07"), z3.Or(conn.t == 0, not_pooled, usable, held_by_other, handed_over)),
                ("removes_at_most_the_requests_own_connection", ("C04", "C06"), z3.And(z3.BoolVal(len(removed) <= 1), *[e.data["value"].t == conn.t for e in removed])),
            ]

        def exc_checks(self, c, exc):
            return []

    # ================================================================== _close_connections / aclose
    @reg.contract
    class CloseConnections(Contract):
        key = CLOSECONNS
        props = ("C06", "C05", "C04")
        params = {"closing": "seq:ref:" + CI}
        raises = ["Cancelled"]
        call_raises = []
        cancellable = False  # every await of the callee is inside its shield (closing_is_shielded_from_cancellation)
        modifies = ("CI.closed", "CI.avail", "CI.idle")

        def on_back_edge(self, c, ordinal):
            evs = c.since_cut({"ci.aclose"})
            conn = c.interp.loop_var(c.st, ordinal)
            ok = len(evs) == 1 and isinstance(conn, VRef)
            return [
                ("closes_each_listed_connection", ("C06",), evs[0].data["conn"].t == conn.t if ok else False),
                ("closing_is_shielded_from_cancellation", ("C05", "C06", "C04"), evs[0].data["shield"] > 0 if ok and c.eng.tree == "async" else bool(ok)),
            ]

        def on_loop_break(self, c, ordinal):
            return [("closes_all_of_them", ("C06",), False)]

        def callsite(self, c, ev):
            if ev.name == "for.iter":
                return [("iterates_the_given_list", ("C06",), ev.data["seq"].t == c.args["closing"].t)]
            return []

        def exc_checks(self, c, exc):
            return [("closing_is_never_interrupted", ("C06", "C05", "C04"), False)]

    @reg.contract
    class PoolClose(Contract):
        key = POOL + ".aclose"
        props = ("C06", "C08")
        raises = ["Cancelled"]

        def callsite(self, c, ev):
            if ev.name == "call:" + CLOSECONNS:
                a = ev.data["args"]
                arg = c.eng.coerce(c.st, a[0], "seq:ref:" + CI) if a else None
                return [("closes_every_pooled_connection", ("C06",), arg.t == conn_seq(c, old=True) if arg is not None else False)]
            return []

        def on_field_write(self, c, obj, key, v, node):
            if key == "Pool._connections":
                return [("pool_emptied_under_the_pool_lock", ("C08",), pool_lock_held(c, c.self)),
                        ("pool_emptied", ("C06",), z3.Length(c.eng.coerce(c.st, v, "seq:ref:" + CI).t) == 0)]
            return []

        def checks(self, c):
            calls = c.events("call:" + CLOSECONNS)
            return [("close_connections_called_once", ("C06",), len(calls) == 1)]

        def setup(self, c):
            # snapshot read and reset happen in one lock region without suspension: no interference
            pass

    # ================================================================== handle_async_request
    @reg.contract
    class PoolHandle(Contract):
        key = POOL + ".handle_async_request"
        props = ("C01", "C03", "C04", "C05", "C06", "C07", "C08", "C09", "C14", "C15", "C16")
        raises = CONN_RAISES[:] + [UP, PT, "Cancelled"]
        raises_props = ("C15",)
        max_paths = 40000

        def __init__(self):
            self.raises = [r for r in CONN_RAISES if r != CNA] + [UP, PT, "Cancelled"]

        def requires(self, c):
            s = c.self
            return [("limits_nonnegative", z3.And(F(c, s, "Pool._max_connections") >= 0, F(c, s, "Pool._max_keepalive_connections") >= 0))]

        def _pool_budget(self, c, kwt):
            """C16 ("raises PoolTimeout at that moment - not earlier, not later"), from the property: whatever number of times the
            request goes back to waiting (a connection it was given turned out unavailable), each wait is limited by what is
            LEFT of its pool timeout: None if none was configured, else max(first clock reading + pool timeout - now, 0), with
            `now` read after the last suspension point (design_probes/p35: the timeout used to start again from zero)."""
            req = c.args["request"]
            conf = timeout_of(F(c, req, "Request.extensions"), "pool")
            got = c.eng.to_val(c.st, kwt).t
            clocks = [e for e in c.trace if e.name == "time.monotonic"]
            if not clocks:
                return z3.And(conf == none_val, got == none_val)
            rov = z3.Function("real_of_val", ValS, RealS)
            t0 = clocks[0].data["value"].t
            now = clocks[-1].data["value"].t
            idx = [i for i, e in enumerate(c.trace) if e.name == "suspend"]
            fresh = (not idx) or c.trace.index(clocks[-1]) > idx[-1] or len(clocks) == 1
            left = t0 + rov(conf) - now
            budget = z3.If(left > 0, left, z3.RealVal(0))
            fresh_ok = z3.BoolVal(len(clocks) >= 2 and ((not idx) or c.trace.index(clocks[-1]) > idx[-1]))
            k = c.eng.unbox(c.st, kwt)
            if isinstance(k, VNone):
                return conf == none_val
            if isinstance(k, (VReal, VInt)):
                return z3.And(conf != none_val, fresh_ok, c.eng.coerce(c.st, k, "real").t == budget)
            return z3.If(conf == none_val, got == none_val, z3.And(fresh_ok, got != none_val, rov(got) == budget))

        def _pr(self, c):
            # this flow's pool request: the object it appended to the queue (whatever the local is called)
            mine = [e for e in c.trace if e.name == "list.append" and e.data["target"] == "Pool._requests"]
            if mine:
                return mine[0].data["value"]
            pr = c.st.ghost.get("pool_request_ref")
            return pr

        def loop_invariant(self, c, ordinal):
            pr = self._pr(c)
            if pr is None:
                return [("pool_request_exists", ("C05",), False)]
            return [
                ("own_request_stays_queued_in_the_pool", ("C05", "C08"), z3.Contains(F(c, c.self, "Pool._requests"), z3.Unit(pr.t))),
                ("own_request_is_for_the_callers_request", ("C01",), F(c, pr, "PR.request") == c.args["request"].t),
            ]

        def after_loop_havoc(self, c, ordinal):
            pass

        def on_back_edge(self, c, ordinal):
            caught = c.since_cut({"except"})
            ok = len(caught) == 1 and c.eng.classes.issub(caught[0].data["cls"], CNA)
            clears = c.since_cut({"pr.clear"})
            out = [
                ("retries_only_on_connection_not_available", ("C14",), ok),
                ("retry_clears_the_assignment_first", ("C07", "C14"), len(clears) == 1),
            ]
            # transparent re-send needs an untouched (or restartable) body
            req = c.args["request"]
            body = VRef(ref_of_val(F(c, req, "Request.stream")), "pyvc.Body")
            out.append(("retry_resends_the_whole_body", ("C03", "C14"), z3.Or(z3.Not(F(c, body, "Body.consumed")), F(c, body, "Body.consumed", old=True))))
            return out

        def on_loop_break(self, c, ordinal):
            return []

        def callsite(self, c, ev):
            s = c.self
            req = c.args["request"]
            out = []
            pr = self._pr(c)
            if ev.name == "list.append" and ev.data["target"] == "Pool._requests":
                v = ev.data["value"]
                url = c.new(req, "Request.url")
                known, _ = default_port_of(F(c, url, "URL.scheme"), [t for t in DEFAULT_PORT_TABLE if not t[0].startswith(b"socks")])
                out += [
                    ("request_enqueued_under_the_pool_lock", ("C08",), pool_lock_held(c, s)),
                    ("request_enqueued_only_with_supported_scheme", ("C15", "C07"), known),
                    ("enqueued_pool_request_wraps_the_callers_request", ("C01",), F(c, v, "PR.request") == req.t),
                ]
                my_requests(c.st).append((s.t, v.t))
                c.st.ghost["pool_request_ref"] = v
            if ev.name == "list.remove" and ev.data["target"] == "Pool._requests":
                out += [
                    ("request_dequeued_under_the_pool_lock", ("C08",), pool_lock_held(c, s)),
                    ("dequeues_own_request", ("C05",), ev.data["value"].t == pr.t if pr is not None else False),
                ]
            if ev.name == "call:" + ASSIGN:
                out.append(("assignment_pass_under_the_pool_lock", ("C08", "C07"), pool_lock_held(c, s)))
            if ev.name == "call:" + RELEASE:
                a = ev.data["args"]
                tl = c.since_cut(None)
                k = max([n for n, e in enumerate(tl) if e.name == "except"], default=-1)
                deq = [e for e in tl[k + 1:] if e.name == "list.remove" and e.data["target"] == "Pool._requests"]
                out += [
                    ("unused_connection_released_under_the_pool_lock", ("C08", "C05"), pool_lock_held(c, s)),
                    ("releases_the_connection_of_its_own_request_after_dequeuing_it", ("C05", "C07"), z3.And(z3.BoolVal(len(deq) == 1), a[0].t == pr.t) if a and pr is not None and isinstance(a[0], VRef) else False),
                ]
            if ev.name == "call:" + CLOSECONNS:
                # everything the clean-up under the lock took out of the pool since the last closing round: the
                # connection released for the leaving request (if that step ran) followed by the pass's evictions
                tl = [e for e in c.since_cut(None) if e is not ev]
                k = max([n for n, e in enumerate(tl) if e.name == "call:" + CLOSECONNS], default=-1)
                taken = [e.data["result"].t for e in tl[k + 1:] if e.name in ("call:" + RELEASE, "call:" + ASSIGN) and "result" in e.data]
                a = ev.data["args"]
                want = z3.Concat(*taken) if len(taken) > 1 else (taken[0] if taken else None)
                out.append(("evicted_connections_are_closed", ("C06", "C04", "C09"), z3.simplify(c.eng.coerce(c.st, a[0], "seq:ref:" + CI).t == want) if want is not None and a else False))
                out.append(("closing_happens_outside_the_pool_lock", ("C08", "C07"), not pool_lock_held(c, s)))
            if ev.name == "call:" + PR + ".wait_for_connection":
                kwt = ev.data["kwargs"].get("timeout", ev.data["args"][0] if ev.data["args"] else NONE)
                out += [
                    ("waits_with_the_requests_pool_timeout", ("C16",), self._pool_budget(c, kwt)),
                    ("waits_outside_the_pool_lock", ("C07", "C08"), not pool_lock_held(c, s)),
                    ("waits_on_own_pool_request", ("C07",), ev.data["self"].t == pr.t if pr is not None else False),
                    ("waits_only_after_an_assignment_pass", ("C07",), len(c.since_cut({"call:" + ASSIGN})) >= 1),
                ]
            if ev.name == "ci.handle_request":
                waits = [e for e in c.since_cut({"call:" + PR + ".wait_for_connection"}) if "result" in e.data]
                out += [
                    ("request_sent_on_the_assigned_connection", ("C01",), ev.data["conn"].t == waits[-1].data["result"].t if waits else False),
                    ("sends_the_callers_request_unchanged", ("C01", "C03"), ev.data["request"].t == req.t),
                    ("request_sent_outside_the_pool_lock", ("C08",), not pool_lock_held(c, s)),
                ]
            return out

        def checks(self, c):
            hs = [e for e in c.since_cut({"ci.handle_request"}) if "result" in e.data]
            inits = c.events("call:" + PBS + ".__init__")
            r = c.result
            ok = len(hs) == 1 and len(inits) == 1
            out = [("returns_one_response_wrapping_the_connections_response", ("C01", "C02"), ok)]
            if ok:
                inner = hs[0].data["result"]
                kw = inits[0].data["kwargs"]
                pbs = inits[0].data["self"]
                pr = self._pr(c)
                out += [
                    ("status_headers_extensions_passed_through", ("C01", "C02"), z3.And(F(c, r, "Response.status") == F(c, inner, "Response.status"), F(c, r, "Response.headers") == F(c, inner, "Response.headers"), F(c, r, "Response.extensions") == F(c, inner, "Response.extensions"))),
                    ("body_is_the_pool_stream_over_the_connections_stream", ("C01", "C02", "C05"), z3.And(F(c, r, "Response.stream") == val_of_ref(pbs.t), c.eng.to_val(c.st, kw["stream"]).t == F(c, inner, "Response.stream"), kw["pool_request"].t == pr.t, kw["pool"].t == c.self.t) if pr is not None else False),
                    ("request_still_counted_while_response_open", ("C05",), z3.Contains(F(c, c.self, "Pool._requests"), z3.Unit(pr.t)) if pr is not None else False),
                ]
            return out

        def exc_checks(self, c, exc):
            s = c.self
            pr = self._pr(c)
            out = []
            if exc.cls == UP:
                return [("unsupported_protocol_touches_nothing", ("C15",), not c.events("list.append") and not c.events("ci.handle_request"))]
            appended = [e for e in c.trace if e.name == "list.append" and e.data["target"] == "Pool._requests"]
            if not appended:
                return out
            tail = c.since_cut({"list.remove", "call:" + RELEASE, "call:" + ASSIGN, "call:" + CLOSECONNS, "except"})
            i = max([k for k, e in enumerate(tail) if e.name == "except"], default=-1)
            after = [e.name.split(":")[-1].rsplit(".", 1)[-1] if e.name.startswith("call:") else e.name for e in tail[i + 1:]]
            out.append(("failed_request_is_dequeued_then_queue_reassigned_then_evictions_closed", ("C05", "C07", "C06", "C04", "C09"), after == ["list.remove", "_release_unused_connection", "_assign_requests_to_connections", "_close_connections"]))
            # from the property (C05): a request that leaves after the pool gave it a connection which it never drove (it was
            # cancelled, or timed out, at its wait) must not strand that connection - a fresh one is neither available, idle
            # nor closed, and nobody else will ever establish it (design_probes/p30).  Decided modularly: the handler hands
            # its own dequeued request to _release_unused_connection under the lock before the pass (call-site obligations
            # above), whose contract carries `unused_assigned_connection_is_not_left_stranded`.
            rel = [e for e in tail[i + 1:] if e.name == "call:" + RELEASE]
            out.append(("request_leaving_with_an_unused_assigned_connection_does_not_strand_it", ("C05", "C07"), len(rel) == 1))
            return out

    # ================================================================== PoolByteStream
    @reg.contract
    class PBSInit(Contract):
        key = PBS + ".__init__"
        props = ("C05",)
        suspends = False
        params = {"stream": "val"}

        def ensures(self, c):
            s = c.self
            return [("binds_stream_request_pool_open", ("C05", "C01"), z3.And(F(c, s, "PBS._stream") == c.args["stream"].t, F(c, s, "PBS._pool_request") == c.args["pool_request"].t, F(c, s, "PBS._pool") == c.args["pool"].t, z3.Not(F(c, s, "PBS._closed"))))]

        def apply(self, it, st, self_v, args, kwargs, node):
            eng = it.eng
            eng.heap_write(st, self_v, "PBS._stream", eng.to_val(st, kwargs["stream"]))
            eng.heap_write(st, self_v, "PBS._pool_request", kwargs["pool_request"])
            eng.heap_write(st, self_v, "PBS._pool", kwargs["pool"])
            eng.heap_write(st, self_v, "PBS._closed", VBool(False))
            return NONE

    @reg.contract
    class PBSClose(Contract):
        key = PBS + ".aclose"
        props = ("C05", "C06", "C07", "C08", "C04")
        raises = ["Cancelled"]
        call_raises = []
        modifies = ("PBS._closed", "Pool._connections", "Pool._requests", "PR.connection", "Evt.flag", "CI.closed", "CI.avail", "CI.idle")

        def setup(self, c):
            s = c.self
            pool = c.new(s, "PBS._pool")
            pr = c.new(s, "PBS._pool_request")
            c.eng.assume(c.st, z3.And(pool.t > 0, pr.t > 0))
            c.eng.assume(c.st, z3.And(F(c, pool, "Pool._max_connections") >= 0, F(c, pool, "Pool._max_keepalive_connections") >= 0))
            # an open response is still counted by its pool (request_still_counted_while_response_open)
            c.eng.assume(c.st, z3.Implies(z3.Not(F(c, s, "PBS._closed")), z3.Contains(F(c, pool, "Pool._requests"), z3.Unit(pr.t))))
            my_requests(c.st).append((pool.t, pr.t))

        def ensures(self, c):
            return [("marks_closed", ("C05",), F(c, c.self, "PBS._closed"))]

        def callsite(self, c, ev):
            s = c.self
            pool = c.new(s, "PBS._pool")
            out = []
            if ev.name == "inner.aclose":
                out += [
                    ("closes_the_wrapped_response_stream", ("C05",), ev.data["stream"].t == F(c, s, "PBS._stream")),
                    ("inner_close_is_shielded_from_cancellation", ("C05", "C07"), ev.data["shield"] > 0 if c.eng.tree == "async" else True),
                    ("inner_close_outside_the_pool_lock", ("C08",), not pool_lock_held(c, pool)),
                ]
            if ev.name == "list.remove":
                out += [
                    ("dequeues_own_request_from_own_pool", ("C05",), z3.BoolVal(ev.data["target"] == "Pool._requests") if True else False),
                    ("dequeues_own_request", ("C05",), ev.data["value"].t == F(c, s, "PBS._pool_request")),
                    ("request_dequeued_under_the_pool_lock", ("C08",), pool_lock_held(c, pool)),
                ]
            if ev.name == "call:" + ASSIGN:
                out += [
                    ("assignment_pass_under_the_pool_lock", ("C08", "C07"), pool_lock_held(c, pool)),
                    ("assignment_pass_on_own_pool", ("C07",), ev.data["self"].t == pool.t),
                ]
            if ev.name == "call:" + CLOSECONNS:
                passes = [e for e in c.events("call:" + ASSIGN) if "result" in e.data]
                a = ev.data["args"]
                out.append(("evicted_connections_are_closed", ("C06", "C04", "C09"), c.eng.coerce(c.st, a[0], "seq:ref:" + CI).t == passes[-1].data["result"].t if passes and a else False))
                out.append(("closing_happens_outside_the_pool_lock", ("C08",), not pool_lock_held(c, pool)))
            return out

        def checks(self, c):
            was_closed = F(c, c.self, "PBS._closed", old=True)
            names = [e.name.rsplit(".", 1)[-1] if e.name.startswith("call:") else e.name for e in c.trace if e.name in ("inner.aclose", "list.remove", "call:" + ASSIGN, "call:" + CLOSECONNS)]
            full = names in (["inner.aclose", "list.remove", "_assign_requests_to_connections", "_close_connections"], ["list.remove", "_assign_requests_to_connections", "_close_connections"])
            return [("close_once_dequeue_reassign_close_evicted", ("C05", "C07", "C06"), z3.If(was_closed, z3.BoolVal(names == []), z3.BoolVal(full)))]

        def exc_checks(self, c, exc):
            return [("closing_a_response_always_gives_the_slot_back", ("C05", "C07"), False)]

    @reg.contract
    class PBSIter(GeneratorContract):
        key = PBS + ".__aiter__"
        props = ("C02", "C05", "C15", "C17")

        def checks(self, c):
            # C17: after 101 / CONNECT 2xx the (empty) body may be read before the caller takes extensions["network_stream"]:
            # exhausting the body must not release the connection - only an explicit close, a failure or an early exit does
            calls = [e for e in c.trace if e.name == "call:" + PBS + ".aclose"]
            return [("exhausting_the_body_does_not_close_the_response", ("C17", "C01"), len(calls) == 0)]
        raises = CONN_RAISES + ["Cancelled", "GeneratorExit"]
        raises_props = ("C15",)
        opaque_iter_raises = CONN_RAISES + ["Cancelled"]

        def setup(self, c):
            pool = c.new(c.self, "PBS._pool")
            pr = c.new(c.self, "PBS._pool_request")
            c.eng.assume(c.st, z3.And(pool.t > 0, pr.t > 0))

        def on_yield(self, c, v, node):
            evs = c.since_cut({"iter.next", "yield"})
            ok = len(evs) == 2 and evs[0].name == "iter.next"
            goal = c.eng.to_val(c.st, v).t == c.eng.to_val(c.st, evs[0].data["value"]).t if ok else False
            c.eng.oblige(c.st, "yields_exactly_the_inner_chunk", goal, props=("C02",), kind="call-pre")

        def on_back_edge(self, c, ordinal):
            evs = [e.name for e in c.since_cut({"iter.next", "yield"})]
            return [("every_inner_chunk_is_yielded_once", ("C02",), evs == ["iter.next", "yield"])]

        def exc_checks(self, c, exc):
            calls = [e for e in c.trace if e.name == "call:" + PBS + ".aclose"]
            return [("failure_or_early_exit_closes_the_response", ("C05", "C07"), len(calls) == 1 and calls[0].data["self"].t.eq(c.self.t))]
