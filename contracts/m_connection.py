"""Contracts for httpcore/_async/connection.py (exponential_backoff, AsyncHTTPConnection)
and the sync twin.  C20 (retries), C10 (target / TLS / SNI / ALPN / protocol class),
C16 (connect timeouts), C06 (stream ownership during establishment), C05 (connect-failed
flag), C14 (retry scope), C15.
"""
from __future__ import annotations

import z3

from pyvc.values import *  # noqa: F401,F403
from pyvc.engine import Contract, GeneratorContract, Unsupported, PyRaise
from pyvc.registry import IterHandler
from .common import NS, NB, EXC, NET_CONNECT_RAISES, timeout_of, stream_of_interest
from .ext_runtime import LOCK, lock_id
from .iface import CI, CONN_RAISES
from .m_models_fields import ORIGIN, REQUEST, URL, RESPONSE, origin_fields_equal

MOD = "httpcore._async.connection."
HC = MOD + "AsyncHTTPConnection"
H11 = "httpcore._async.http11.AsyncHTTP11Connection"
H2 = "httpcore._async.http2.AsyncHTTP2Connection"
BACKOFF = MOD + "exponential_backoff"
GEN = "pyvc.BackoffGenerator"

CE = EXC + "ConnectError"
CT = EXC + "ConnectTimeout"
CNA = EXC + "ConnectionNotAvailable"

alpn_of = z3.Function("alpn_of", ValS, ValS)  # ssl_object.selected_alpn_protocol()


def F(c, ref, key, old=False):
    return (c.old(ref, key) if old else c.new(ref, key)).t


def backoff_value(factor_t, k):
    """k-th value of exponential_backoff(factor): 0, factor, 2*factor, 4*factor, ..."""
    return z3.If(k == 0, z3.RealVal(0), factor_t * z3.ToReal(pow2(k - 1)))


def is_tls_scheme(scheme_t):
    return z3.Or(scheme_t == bytes_lit(b"https"), scheme_t == bytes_lit(b"wss"))


def local_streams(st):
    return st.ghost.get("streams", [])


def stream_settled(c, s, returned=None):
    """a stream opened by this flow is closed, or has become part of a TLS stream that is closed /
    returned, or is the returned one"""
    eng, st = c.eng, c.st
    opts = [z3.Not(F(c, s, "NS.open"))]
    if returned is not None:
        opts.append(s.t == returned.t)
    for new, raw in st.ghost.get("wrapped", []):
        if z3.eq(raw.t, s.t):
            inner = [z3.Not(F(c, new, "NS.open"))]
            if returned is not None:
                inner.append(new.t == returned.t)
            opts.append(z3.Or(*inner))
    return z3.Or(*opts)


def register(reg):
    reg.ext_class(GEN)
    reg.fields(GEN, "Backoff", ghost=["k", "factor"], k="int", factor="real")
    reg.consts["itertools.count"] = VFunc("itertools.count")
    # 2**n for the first attempts, ground (the k-th pause is stated with the same pow2 symbol, so
    # the general case needs no arithmetic; these instances pin the documented 0, 0.5, 1, 2, ...)
    for i in range(0, 8):
        reg.axioms.append(pow2(i) == 2 ** i)

    class CountIter(IterHandler):
        def next(self, it, st):
            n = it.eng.fresh(st, "int", "count_n")
            it.eng.assume(st, n.t >= 0)
            it.emit(st, "count.next", None, value=n)
            return n

    @reg.intrinsic("itertools.count")
    def count(it, st, args, kwargs, node):
        if args or kwargs:
            raise Unsupported("itertools.count with arguments")
        return VGen("count", CountIter())

    # ================================================================== exponential_backoff
    @reg.contract
    class Backoff(GeneratorContract):
        key = BACKOFF
        props = ("C20",)
        params = {"factor": "real"}
        raises = ["GeneratorExit"]
        raises_props = ("C20",)

        def on_yield(self, c, v, node):
            cuts = [e for e in c.trace if e.name == "loop_cut"]
            counts = c.since_cut({"count.next"})
            val = c.eng.coerce(c.st, v, "real").t
            if not cuts:
                prior = [e for e in c.trace if e.name == "yield"]
                goal = z3.And(val == 0, z3.BoolVal(len(prior) == 1))
                c.eng.oblige(c.st, "first_value_is_zero", goal, props=("C20",), kind="call-pre")
            else:
                ok = len(counts) == 1
                n = counts[0].data["value"].t if ok else z3.IntVal(0)
                goal = z3.And(z3.BoolVal(ok), val == c.args["factor"].t * z3.ToReal(pow2(n)))
                c.eng.oblige(c.st, "nth_loop_value_is_factor_times_2_pow_n", goal, props=("C20",), kind="call-pre")

        def on_back_edge(self, c, ordinal):
            ys = c.since_cut({"yield"})
            return [("one_value_per_count", ("C20",), len(ys) == 1)]

        def checks(self, c):
            return [("generator_never_ends", ("C20",), False)]

        def apply(self, it, st, self_v, args, kwargs, node):
            eng = it.eng
            factor = eng.coerce(st, kwargs.get("factor", args[0] if args else None), "real")
            g = eng.alloc(st, GEN, "delays")
            eng.heap_write(st, g, "Backoff.k", VInt(0))
            eng.heap_write(st, g, "Backoff.factor", factor)

            class H(IterHandler):
                ref = g

                def next_value(self_h, it_, st_):
                    k = eng.heap_read(st_, g, "Backoff.k")
                    f = eng.heap_read(st_, g, "Backoff.factor")
                    v = VReal(backoff_value(f.t, k.t))
                    eng.heap_write(st_, g, "Backoff.k", VInt(k.t + 1))
                    it_.emit(st_, "backoff.next", None, gen=g, k=k, value=v)
                    return v

            vg = VGen("backoff", H())
            vg.ref = g
            return vg

    # ================================================================== AsyncHTTPConnection
    reg.fields(
        HC,
        "HC",
        const=["_origin", "_ssl_context", "_keepalive_expiry", "_http1", "_http2", "_retries", "_local_address", "_uds",
               "_network_backend", "_request_lock", "_socket_options"],
        shared=["_connection", "_connect_failed"],
        _origin="ref:" + ORIGIN,
        _ssl_context="val",
        _keepalive_expiry="opt:real",
        _http1="bool",
        _http2="bool",
        _retries="int",
        _local_address="val",
        _uds="val",
        _network_backend="ref:" + NB,
        _connection="ref:" + CI,
        _connect_failed="bool",
        _request_lock="ref:" + LOCK,
        _socket_options="val",
    )
    reg.watch_reads = set(getattr(reg, "watch_reads", set())) | {"HC._connection"}

    def hc_invariant(eng, st, s):
        return z3.Implies(z3.Select(eng.heap_arr(st, "HC._connection", IntS), s.t) != 0,
                          z3.Not(z3.Select(eng.heap_arr(st, "HC._connect_failed", z3.BoolSort()), s.t)))

    reg.hc_invariant = hc_invariant

    def rely(it, st, old):
        # while this flow holds the connection's request lock nobody else writes _connection
        # (guarantee checked at every write: written_under_request_lock)
        eng = it.eng
        ctx = it.ctx
        s = getattr(ctx, "self", None)
        if s is None or not isinstance(s, VRef) or s.cls != HC:
            return
        lid = lock_id(eng.heap_read(st, s, "HC._request_lock"))
        # representation invariant kept by every flow (guarantees: connection_set_only_on_a_connection_not_marked_failed,
        # connect_failed_set_only_while_unconnected): an established connection is never marked failed
        eng.assume(st, hc_invariant(eng, st, s))
        # _connect_failed is sticky (guarantee: connect_failed_is_only_ever_set).  Any flow that fails or is cancelled
        # while the connection is unconnected may set it - also while this flow holds the lock and is connecting
        of0 = eng.old_arr(old, "HC._connect_failed", z3.BoolSort())
        eng.assume(st, z3.Implies(z3.Select(of0, s.t), z3.Select(eng.heap_arr(st, "HC._connect_failed", z3.BoolSort()), s.t)))
        if lid in st.held:
            o = eng.old_arr(old, "HC._connection", IntS)
            eng.assume(st, z3.Select(eng.heap_arr(st, "HC._connection", IntS), s.t) == z3.Select(o, s.t))
        else:
            # once set, _connection is never cleared or replaced
            o = eng.old_arr(old, "HC._connection", IntS)
            n = eng.heap_arr(st, "HC._connection", IntS)
            eng.assume(st, z3.Implies(z3.Select(o, s.t) != 0, z3.Select(n, s.t) == z3.Select(o, s.t)))

    reg.rely_hooks.append(rely)

    def set_alpn(it, st, recv, args, kwargs, node):
        protos = it.eng.unbox(st, args[0])
        if not isinstance(protos, VList):
            raise Unsupported("set_alpn_protocols with non-literal list")
        from pyvc.builtins_ import const_str

        lit = [const_str(x.t) for x in protos.items]
        it.emit(st, "ssl.set_alpn", node, context=recv, protocols=lit)
        return NONE

    def selected_alpn(it, st, recv, args, kwargs, node):
        return VVal(alpn_of(recv.t))

    reg.val_methods = dict(getattr(reg, "val_methods", {}))
    reg.val_methods["set_alpn_protocols"] = set_alpn
    reg.val_methods["selected_alpn_protocol"] = selected_alpn

    @reg.contract
    class HCInit(Contract):
        key = HC + ".__init__"
        props = ("C10", "C05")
        params = {"keepalive_expiry": "opt:real", "http1": "bool", "http2": "bool", "retries": "int",
                  "ssl_context": "val", "local_address": "val", "uds": "val", "socket_options": "val",
                  "network_backend": "ref:" + NB}

        def requires(self, c):
            return [("backend_given", c.args["network_backend"].t > 0)]

        def ensures(self, c):
            s = c.self
            a = c.args
            return [
                ("stores_origin", ("C10",), F(c, s, "HC._origin") == a["origin"].t),
                ("starts_unconnected", ("C05", "C10"), z3.And(F(c, s, "HC._connection") == 0, z3.Not(F(c, s, "HC._connect_failed")))),
                ("stores_switches", ("C10",), z3.And(F(c, s, "HC._http1") == a["http1"].t, F(c, s, "HC._http2") == a["http2"].t, F(c, s, "HC._retries") == a["retries"].t)),
                ("stores_tls_and_socket_config", ("C10",), z3.And(F(c, s, "HC._ssl_context") == a["ssl_context"].t, F(c, s, "HC._uds") == a["uds"].t,
                                                                  F(c, s, "HC._local_address") == a["local_address"].t, F(c, s, "HC._socket_options") == a["socket_options"].t)),
                ("stores_backend", ("C10",), F(c, s, "HC._network_backend") == a["network_backend"].t),
            ]

        def apply(self, it, st, self_v, args, kwargs, node):
            eng = it.eng
            a = dict(zip(["origin", "ssl_context", "keepalive_expiry", "http1", "http2", "retries", "local_address", "uds", "network_backend", "socket_options"], args))
            a.update(kwargs)
            eng.heap_write(st, self_v, "HC._origin", a["origin"])
            eng.heap_write(st, self_v, "HC._ssl_context", eng.to_val(st, a.get("ssl_context", NONE)))
            eng.heap_write(st, self_v, "HC._keepalive_expiry", eng.coerce(st, a.get("keepalive_expiry", NONE), "opt:real"))
            eng.heap_write(st, self_v, "HC._http1", eng.coerce(st, a.get("http1", VBool(True)), "bool"))
            eng.heap_write(st, self_v, "HC._http2", eng.coerce(st, a.get("http2", VBool(False)), "bool"))
            eng.heap_write(st, self_v, "HC._retries", eng.coerce(st, a.get("retries", VInt(0)), "int"))
            eng.heap_write(st, self_v, "HC._local_address", eng.to_val(st, a.get("local_address", NONE)))
            eng.heap_write(st, self_v, "HC._uds", eng.to_val(st, a.get("uds", NONE)))
            nb = a.get("network_backend", NONE)
            if isinstance(nb, VNone):
                nb = eng.alloc(st, NB, "autobackend")
            eng.heap_write(st, self_v, "HC._network_backend", nb)
            eng.heap_write(st, self_v, "HC._socket_options", eng.to_val(st, a.get("socket_options", NONE)))
            eng.heap_write(st, self_v, "HC._connection", NONE)
            eng.heap_write(st, self_v, "HC._connect_failed", VBool(False))
            eng.heap_write(st, self_v, "HC._request_lock", eng.alloc(st, LOCK, "lock"))
            eng.heap_write(st, self_v, "CI.origin", a["origin"])
            it.emit(st, "HC.__init__", node, conn=self_v, **a)
            return NONE

    @reg.intrinsic("httpcore._backends.auto.AutoBackend", "httpcore._backends.sync.SyncBackend")
    def mk_backend(it, st, args, kwargs, node):
        return it.eng.alloc(st, NB, "backend")

    # ------------------------------------------------------------------ _connect
    @reg.contract
    class Connect(Contract):
        key = HC + "._connect"
        callsite_events = {'backoff.next', 'net.start_tls', 'net.connect_tcp', 'net.sleep', 'net.connect_unix'}
        props = ("C20", "C10", "C16", "C06", "C14", "C15", "C05")
        result_kind = "ref:" + NS
        raises = NET_CONNECT_RAISES + ["Cancelled"]
        raises_props = ("C15", "C20")
        modifies = ("NS.open", "NS.tls", "NS.wraps", "NS.written", "Backoff.k")
        max_paths = 20000

        def requires(self, c):
            return [("retries_nonneg", F(c, c.self, "HC._retries") >= 0)]

        # ---- retry loop (C20)
        def _gen(self, c):
            # the backoff generator object, whatever the local variable is called
            for v in c.st.env.values():
                if isinstance(v, VGen) and v.name == "backoff":
                    return getattr(v, "ref", None)
            return None

        def _retries_left(self, c):
            """the local counter of remaining retries: identified by role (the int local that was
            initialised from self._retries), not by name"""
            name = c.st.ghost.get("retries_var")
            if name is None:
                want = z3.simplify(F(c, c.self, "HC._retries"))
                for k, v in c.st.env.items():
                    if isinstance(v, VInt) and z3.eq(z3.simplify(v.t), want):
                        name = c.st.ghost["retries_var"] = k
                        break
            v = c.st.env.get(name) if name else None
            return c.eng.coerce(c.st, v, "int").t if v is not None else None

        def loop_invariant(self, c, ordinal):
            g = self._gen(c)
            if g is None:
                import ast as _ast

                fn = c.interp.fi.node
                nonlocal_next = any(isinstance(n, _ast.Call) and isinstance(n.func, _ast.Name) and n.func.id == "next" and n.args
                                    and not isinstance(n.args[0], _ast.Name) for n in _ast.walk(fn))
                if nonlocal_next:
                    # pauses drawn from a generator that outlives this call: whether they are 0, 0.5, 1, ... depends
                    # on how often _connect ran on this object before - call history these contracts do not track.
                    # Undecidable here (checker exit 3), not a refutation.
                    raise Unsupported("_connect draws its pauses from a generator that is not local to the call: the pause sequence depends on the call history (not tracked)")
                return [("delays_is_the_backoff_generator", ("C20",), False)]
            k = F(c, g, "Backoff.k")
            rl = self._retries_left(c)
            if rl is None:
                return [("retry_counter_initialised_from_retries_setting", ("C20",), False)]
            n = F(c, c.self, "HC._retries")
            inv = [
                ("attempts_plus_retries_left_is_n_plus_1", ("C20",), z3.And(k >= 0, rl + k == n, rl >= 0)),
                ("backoff_factor_is_half_a_second", ("C20",), F(c, g, "Backoff.factor") == z3.RealVal("1/2")),
            ]
            # no stream opened by an earlier attempt is still open (C06)
            return inv

        def on_back_edge(self, c, ordinal):
            out = []
            opened = [e for e in c.since_cut({"net.connect_tcp", "net.connect_unix"}) if "result" in e.data]
            goals = [stream_settled(c, e.data["result"]) for e in opened]
            out.append(("failed_attempt_leaves_no_open_stream", ("C06", "C04"), z3.And(*goals) if goals else True))
            sleeps = c.since_cut({"net.sleep"})
            out.append(("one_pause_between_attempts", ("C20",), len(sleeps) == 1))
            caught = c.since_cut({"except"})
            eng = c.eng
            ok = len(caught) == 1 and (eng.classes.issub(caught[0].data["cls"], CE) or eng.classes.issub(caught[0].data["cls"], CT))
            out.append(("retries_only_after_connect_error_or_connect_timeout", ("C20", "C14"), ok))
            return out

        def callsite(self, c, ev):
            s = c.self
            req = c.args["request"]
            ext = F(c, req, "Request.extensions")
            e = c.eng
            st = c.st
            origin = c.new(s, "HC._origin")
            tv = lambda v: e.to_val(st, v).t  # noqa: E731
            out = []
            if ev.name == "net.connect_tcp":
                d = ev.data
                out += [
                    ("tcp_host_is_origin_host", ("C10",), e.coerce(st, d["host"], "str").t == decode_ascii(F(c, origin, "Origin.host"))),
                    ("tcp_port_is_origin_port", ("C10",), e.coerce(st, d["port"], "int").t == F(c, origin, "Origin.port")),
                    ("tcp_connect_timeout", ("C16",), d["timeout"].t == timeout_of(ext, "connect")),
                    ("tcp_local_address_and_options", ("C10",), z3.And(tv(d["local_address"]) == F(c, s, "HC._local_address"), tv(d["socket_options"]) == F(c, s, "HC._socket_options"))),
                    ("tcp_only_without_uds", ("C10",), F(c, s, "HC._uds") == none_val),
                    ("connect_on_own_backend", ("C10",), d["backend"].t == F(c, s, "HC._network_backend")),
                ]
            if ev.name == "net.connect_unix":
                d = ev.data
                out += [
                    ("uds_path_is_configured_path", ("C10",), z3.And(tv(d["path"]) == F(c, s, "HC._uds"), F(c, s, "HC._uds") != none_val)),
                    ("uds_connect_timeout", ("C16",), d["timeout"].t == timeout_of(ext, "connect")),
                    ("uds_socket_options", ("C10",), tv(d["socket_options"]) == F(c, s, "HC._socket_options")),
                ]
            if ev.name == "net.start_tls":
                d = ev.data
                sni = dget(ext, str_lit("sni_hostname"), none_val)
                hostname = z3.If(truthy_val(sni), sni, val_of_str(decode_ascii(F(c, origin, "Origin.host"))))
                conns = [x for x in c.since_cut({"net.connect_tcp", "net.connect_unix"}) if "result" in x.data]
                alpn = c.since_cut({"ssl.set_alpn"})
                cfg = F(c, s, "HC._ssl_context")
                defaults = c.since_cut({"ssl.default_context"})
                ctx_ok = z3.If(cfg == none_val, tv(d["ssl_context"]) == defaults[-1].data["value"].t if defaults else False, tv(d["ssl_context"]) == cfg)
                out += [
                    ("tls_only_for_https_and_wss", ("C10",), is_tls_scheme(F(c, origin, "Origin.scheme"))),
                    ("tls_on_the_stream_just_connected", ("C10", "C06"), d["stream"].t == conns[-1].data["result"].t if len(conns) == 1 else False),
                    ("tls_server_name_is_sni_extension_or_host", ("C10",), tv(d["server_hostname"]) == hostname),
                    ("tls_connect_timeout", ("C16",), d["timeout"].t == timeout_of(ext, "connect")),
                    ("tls_context_is_configured_or_default", ("C10",), ctx_ok),
                    ("alpn_set_on_the_context_used", ("C10",), tv(alpn[-1].data["context"]) == tv(d["ssl_context"]) if alpn else False),
                    ("alpn_offers_h2_iff_http2_enabled", ("C10",), z3.If(F(c, s, "HC._http2"), z3.BoolVal(alpn[-1].data["protocols"] == ["http/1.1", "h2"]), z3.BoolVal(alpn[-1].data["protocols"] == ["http/1.1"])) if alpn else False),
                ]
                # no suspension other than the trace callback between choosing ALPN and the handshake
                if alpn:
                    i = c.trace.index(alpn[-1])
                    susp = [x for x in c.trace[i:] if x.name == "suspend" and x.data["label"] not in ("trace.enter",)]
                    out.append(("alpn_chosen_immediately_before_handshake", ("C10",), len(susp) == 0))
            if ev.name == "net.sleep":
                g = self._gen(c)
                nexts = c.since_cut({"backoff.next"})
                ok = g is not None and len(nexts) == 1
                out += [
                    ("pause_is_next_backoff_value", ("C20",), e.coerce(st, ev.data["seconds"], "real").t == nexts[0].data["value"].t if ok else False),
                    ("pause_follows_0_half_1_2", ("C20",), e.coerce(st, ev.data["seconds"], "real").t == backoff_value(z3.RealVal("1/2"), nexts[0].data["k"].t) if ok else False),
                ]
            if ev.name == "backoff.next":
                fails = [x for x in c.since_cut({"net.connect_tcp", "net.connect_unix", "net.start_tls"})]
                out.append(("pause_only_after_a_failed_attempt", ("C20",), len(fails) >= 1))
            return out

        def ensures(self, c):
            r = c.result
            return [
                ("returns_open_stream", ("C06", "C10"), z3.And(r.t > 0, F(c, r, "NS.open"))),
            ]

        def checks(self, c):
            s = c.self
            origin = c.new(s, "HC._origin")
            tls = c.since_cut({"net.start_tls"})
            conns = [x for x in c.since_cut({"net.connect_tcp", "net.connect_unix"}) if "result" in x.data]
            r = c.result
            out = [
                ("exactly_one_connect_in_the_successful_attempt", ("C10", "C20"), len(conns) == 1),
                ("tls_iff_https_or_wss", ("C10",), z3.If(is_tls_scheme(F(c, origin, "Origin.scheme")), z3.BoolVal(len(tls) == 1), z3.BoolVal(len(tls) == 0))),
                ("returned_stream_tls_iff_scheme_secure", ("C10",), F(c, r, "NS.tls") == is_tls_scheme(F(c, origin, "Origin.scheme"))),
                ("tcp_iff_no_uds", ("C10",), z3.If(F(c, s, "HC._uds") == none_val, z3.BoolVal(len(conns) == 1 and conns[0].name == "net.connect_tcp"), z3.BoolVal(len(conns) == 1 and conns[0].name == "net.connect_unix"))),
            ]
            if len(conns) == 1:
                raw = conns[0].data["result"]
                out.append(("returns_the_connected_or_wrapped_stream", ("C10", "C06"), z3.Or(r.t == raw.t, F(c, r, "NS.wraps") == raw.t)))
                goals = [stream_settled(c, e.data["result"], returned=r) for e in conns]
                out.append(("no_other_stream_left_open", ("C06",), z3.And(*goals)))
            return out

        def exc_ensures(self, c, exc):
            return []

        def exc_checks(self, c, exc):
            out = []
            eng = c.eng
            opened = [e for e in c.since_cut({"net.connect_tcp", "net.connect_unix"}) if "result" in e.data]
            goals = [stream_settled(c, e.data["result"]) for e in opened]
            leak_label = "failed_establishment_leaves_no_open_stream"
            if exc.cls == "Cancelled":
                leak_label = "cancelled_establishment_leaves_no_open_stream"
            out.append((leak_label, ("C06",), z3.And(*goals) if goals else True))
            retryable = eng.classes.issub(exc.cls, CE) or eng.classes.issub(exc.cls, CT)
            g = self._gen(c)
            if retryable and exc.cls != "Cancelled":
                rl = self._retries_left(c)
                rl = rl if rl is not None else z3.IntVal(1)
                k = F(c, g, "Backoff.k") if g is not None else z3.IntVal(-1)
                out.append(("gives_up_only_when_retries_exhausted", ("C20",), z3.And(rl <= 0, k == F(c, c.self, "HC._retries"))))
                last = [e for e in c.since_cut({"net.connect_tcp", "net.connect_unix", "net.start_tls"})]
                out.append(("raises_the_last_attempts_error", ("C20",), bool(last) and exc.tag.get("from", "").startswith(last[-1].name)))
            elif exc.cls != "Cancelled":
                # any other failure: leaves at once, no pause, no further attempt
                n = exc.tag.get("trace_len", 0)
                # (closing the half-established stream is clean-up, not another attempt)
                later = [e for e in c.trace[n:] if e.name in ("net.connect_tcp", "net.connect_unix", "net.start_tls", "net.sleep", "backoff.next")]
                out.append(("other_failures_are_not_retried", ("C20", "C14"), len(later) == 0))
            return out

    # ------------------------------------------------------------------ handle_async_request
    @reg.contract
    class HandleRequest(Contract):
        key = HC + ".handle_async_request"
        callsite_events = {'H2.__init__', 'H11.__init__', 'call:httpcore._async.connection.AsyncHTTPConnection._connect', 'ci.handle_request'}
        props = ("C05", "C06", "C07", "C10", "C14", "C15", "C20", "C01", "C04", "C08")
        raises = CONN_RAISES + ["RuntimeError", "Cancelled"]
        raises_props = ("C15",)
        max_paths = 20000

        def requires(self, c):
            from .m_models import default_port_of, DEFAULT_PORT_TABLE

            known, _ = default_port_of(F(c, c.new(c.args["request"], "Request.url"), "URL.scheme"), DEFAULT_PORT_TABLE)
            return [("scheme_supported", known), ("retries_nonneg", F(c, c.self, "HC._retries") >= 0)]

        def setup(self, c):
            c.eng.assume(c.st, reg.hc_invariant(c.eng, c.st, c.self))

        def on_field_write(self, c, obj, key, v, node):
            out = []
            lid = lock_id(c.new(c.self, "HC._request_lock"))
            if key == "HC._connection":
                out.append(("connection_written_under_request_lock", ("C05", "C08", "C04"), lid in c.st.held))
                reads = [e for e in c.trace if e.name == "field.read" and e.data["key"] == "HC._connection" and lid in e.data["held"]]
                out.append(("connection_set_only_when_unset", ("C04", "C20"), bool(reads)))
                out.append(("connection_set_only_on_a_connection_not_marked_failed", ("C04", "C06", "C05"), z3.Not(F(c, c.self, "HC._connect_failed"))))
            if key == "HC._connect_failed":
                out.append(("connect_failed_is_only_ever_set", ("C05", "C06", "C04"), c.eng.z_bool(c.eng.truthy(c.st, v))))
                out.append(("connect_failed_set_only_while_unconnected", ("C05", "C06", "C04"), F(c, c.self, "HC._connection") == 0))
            return out

        def callsite(self, c, ev):
            s = c.self
            out = []
            lid = lock_id(c.new(s, "HC._request_lock"))
            if ev.name == "call:" + HC + "._connect":
                out += [
                    ("connect_only_under_request_lock", ("C04", "C20", "C08"), lid in c.st.held),
                    ("connect_only_when_unconnected", ("C04", "C20"), F(c, s, "HC._connection") == 0),
                    # the pool drops an unconnected connection whose _connect_failed is set (is_closed() is
                    # True): a stream opened on it afterwards would be owned by no pooled connection
                    ("never_establishes_a_connection_already_marked_failed", ("C06", "C04", "C05"), z3.Not(F(c, s, "HC._connect_failed"))),
                    ("connect_gets_the_request", ("C16", "C10"), (ev.data["args"][0].t if ev.data["args"] else ev.data["kwargs"]["request"].t) == c.args["request"].t),
                ]
            if ev.name in ("H11.__init__", "H2.__init__"):
                d = ev.data
                conn = [x for x in c.events("call:" + HC + "._connect") if "result" in x.data]
                out += [
                    ("protocol_connection_for_own_origin", ("C10", "C01"), d["origin"].t == F(c, s, "HC._origin")),
                    ("protocol_connection_gets_the_established_stream", ("C10", "C06"), d["stream"].t == conn[-1].data["result"].t if conn else False),
                    ("protocol_connection_gets_keepalive_expiry", ("C09",), c.eng.z_bool(c.eng.eq(c.st, c.eng.coerce(c.st, d.get("keepalive_expiry", NONE), "opt:real"), c.new(s, "HC._keepalive_expiry")))),
                ]
                # HTTP/2 only when negotiated or when HTTP/1.1 is disabled
                f = z3.Function("extra_info", IntS, StrS, ValS)
                if conn:
                    sslobj = f(conn[-1].data["result"].t, str_lit("ssl_object"))
                    negotiated = z3.And(sslobj != none_val, alpn_of(sslobj) == val_of_str(str_lit("h2")))
                    want_h2 = z3.Or(negotiated, z3.And(F(c, s, "HC._http2"), z3.Not(F(c, s, "HC._http1"))))
                    out.append(("http2_iff_negotiated_or_http1_disabled", ("C10",), want_h2 if ev.name == "H2.__init__" else z3.Not(want_h2)))
            if ev.name == "ci.handle_request":
                out += [
                    ("request_sent_on_own_connection", ("C01", "C10"), ev.data["conn"].t == F(c, s, "HC._connection")),
                    ("request_passed_unchanged", ("C03", "C10"), ev.data["request"].t == c.args["request"].t),
                    ("request_sent_outside_request_lock", ("C12",), lid not in c.st.held),
                ]
            return out

        def checks(self, c):
            hs = c.events("ci.handle_request")
            ok = len(hs) == 1 and "result" in hs[0].data
            return [
                ("returns_the_inner_response", ("C01", "C02"), c.result.t == hs[0].data["result"].t if ok else False),
            ]

        def exc_checks(self, c, exc):
            s = c.self
            out = []
            hs = c.events("ci.handle_request")
            conns = c.events("call:" + HC + "._connect")
            if exc.cls == "RuntimeError":
                return [("wrong_origin_guard_touches_nothing", ("C10",), not hs and not conns and not c.events("field.write"))]
            if exc.cls == CNA and not exc.tag.get("from"):
                # C14: a refusal originated here is only allowed while provably nothing was opened or written
                # (the flow may have opened a stream - and must then have closed it - but nothing of the request was written)
                got = [x for x in conns if "result" in x.data]
                out.append(("refusal_only_for_a_connection_marked_failed_and_before_any_io", ("C14", "C06"),
                            z3.And(F(c, s, "HC._connect_failed"), F(c, s, "HC._connection") == 0, z3.BoolVal(not hs),
                                   *[z3.Not(F(c, x.data["result"], "NS.open")) for x in got])))
                return out
            if not hs:
                # failed before the request reached a protocol connection: establishment failed / was cancelled, or the
                # request was cancelled while waiting for the request lock.  From the property (C05): an unconnected
                # connection that is not marked failed is neither available (HTTP/1.1), idle, closed nor expiring - if
                # the request that leaves was the one that would have established it, it keeps its slot for ever
                out.append(("failed_establishment_marks_connection_failed", ("C05", "C07"), z3.Implies(F(c, s, "HC._connection") == 0, F(c, s, "HC._connect_failed"))))
                # a stream obtained from _connect must have been handed to a protocol connection
                got = [x for x in conns if "result" in x.data]
                inits = c.events("H11.__init__") + c.events("H2.__init__")
                if got:
                    out.append(("established_stream_is_owned_or_closed", ("C06",), z3.Or(z3.BoolVal(len(inits) == 1), z3.Not(F(c, got[-1].data["result"], "NS.open")))))
            else:
                out.append(("exchange_failures_pass_through_unchanged", ("C15", "C14"), exc.cls == "Cancelled" or exc.tag.get("from") == "ci.handle_request"))
            return out

    # ------------------------------------------------------------------ observers / close
    @reg.contract
    class CanHandle(Contract):
        key = HC + ".can_handle_request"
        props = ("C10",)
        result_kind = "bool"
        suspends = False

        def ensures(self, c):
            o = c.new(c.self, "HC._origin")
            return [("gate", ("C10", "C01"), c.eng.coerce(c.st, c.result, "bool").t == origin_fields_equal(c.eng, c.st, c.args["origin"], o))]

        def apply(self, it, st, self_v, args, kwargs, node):
            o = it.eng.heap_read(st, self_v, "HC._origin")
            other = args[0] if args else kwargs["origin"]
            return VBool(origin_fields_equal(it.eng, st, other, o))

    def observer(name, ci_name, unconnected):
        @reg.contract
        class Obs(Contract):
            key = HC + "." + name
            props = ("C05", "C09", "C01", "C06", "C04")
            result_kind = "bool"
            suspends = False

            def setup(self, c):
                c.eng.assume(c.st, reg.hc_invariant(c.eng, c.st, c.self))

            def checks(self, c):
                s = c.self
                conn = c.new(s, "HC._connection")
                evs = c.events("ci." + ci_name)
                r = c.eng.z_bool(c.eng.truthy(c.st, c.result))
                delegated = z3.BoolVal(len(evs) == 1) if True else None
                goal = z3.If(
                    conn.t == 0,
                    z3.And(r == unconnected(c), z3.BoolVal(len(evs) == 0)),
                    z3.And(z3.BoolVal(len(evs) == 1), r == evs[0].data["result"].t, evs[0].data["conn"].t == conn.t) if evs else z3.BoolVal(False),
                )
                return [("delegates_or_reports_connect_state", ("C05", "C09", "C01", "C06", "C04"), goal)]

        Obs.__name__ = "Obs_" + name
        return Obs

    failed = lambda c: F(c, c.self, "HC._connect_failed")  # noqa: E731

    def avail_unconnected(c):
        s = c.self
        o = c.new(s, "HC._origin")
        return z3.And(F(c, s, "HC._http2"), z3.Or(F(c, o, "Origin.scheme") == bytes_lit(b"https"), z3.Not(F(c, s, "HC._http1"))), z3.Not(F(c, s, "HC._connect_failed")))

    observer("is_available", "is_available", avail_unconnected)
    observer("has_expired", "has_expired", failed)
    observer("is_idle", "is_idle", failed)
    observer("is_closed", "is_closed", failed)

    @reg.contract
    class Close(Contract):
        key = HC + ".aclose"
        props = ("C06",)
        raises = ["Cancelled"]

        def checks(self, c):
            conn = c.new(c.self, "HC._connection")
            evs = c.events("ci.aclose")
            return [("closes_the_protocol_connection_if_any", ("C06",), z3.If(conn.t == 0, z3.BoolVal(len(evs) == 0), z3.BoolVal(len(evs) == 1 and True))),
                    # from the property (C06 "owned at all times by a connection that is in the pool or being closed"): the pool
                    # drops every connection it closes.  Closing one that is still being established must make the establishing
                    # request give it up (mark it failed), or the stream it opens afterwards belongs to a connection nobody knows
                    # (design_probes/w4_preexisting/C06_preexisting_1.py: pool.aclose() during connect_tcp)
                    ("closing_an_unestablished_connection_makes_its_establishment_give_up", ("C06",), z3.Or(conn.t != 0, F(c, c.self, "HC._connect_failed")))]

        def callsite(self, c, ev):
            if ev.name == "ci.aclose":
                return [("closes_own_connection", ("C06",), ev.data["conn"].t == F(c, c.self, "HC._connection"))]
            return []
