"""Contracts for httpcore/_async/socks_proxy.py (_init_socks5_connection,
AsyncSocks5Connection) and the sync twin, with the assumed contract of socksio (A-socksio).
C11 (negotiation content and order), C10 (targets, TLS), C16, C05, C06, C15."""
from __future__ import annotations

import z3

from pyvc.values import *  # noqa: F401,F403
from pyvc.engine import Contract, Unsupported
from .common import NS, NB, EXC, NET_CONNECT_RAISES, NET_READ_RAISES, NET_WRITE_RAISES, timeout_of
from .ext_runtime import LOCK, lock_id
from .iface import CI, CONN_RAISES
from .m_models_fields import ORIGIN, REQUEST, origin_fields_equal
from .m_connection import alpn_of, is_tls_scheme, stream_settled

MOD = "httpcore._async.socks_proxy."
SOCKS = MOD + "AsyncSocks5Connection"
INIT = MOD + "_init_socks5_connection"
SC = "socksio.socks5.SOCKS5Connection"
SMSG = "socksio.socks5.Message"
PE = EXC + "ProxyError"

NO_AUTH, GSSAPI, USERPASS, NO_ACCEPTABLE = 0, 1, 2, 255
CMD_CONNECT = 1
REPLY_SUCCEEDED = 0

socks_wire = z3.Function("socks_wire", IntS, BytesS)


def F(c, ref, key, old=False):
    return (c.old(ref, key) if old else c.new(ref, key)).t


def register(reg):
    reg.ext_class(SC)
    reg.ext_class(SMSG)
    for n in ("SOCKS5AuthMethodsRequest", "SOCKS5UsernamePasswordRequest", "SOCKS5CommandRequest", "SOCKS5AuthReply", "SOCKS5UsernamePasswordReply", "SOCKS5Reply"):
        reg.ext_class("socksio.socks5." + n, SMSG)
    reg.ext_class("socksio.ProtocolError", "Exception")
    reg.ext_class("socksio.exceptions.ProtocolError", "Exception")
    reg.trusted_notes.append(
        "A-socksio: SOCKS5Connection.send() queues the encoding of the given message and raises only socksio.ProtocolError; "
        "data_to_send() returns and clears the queue; receive_data() returns the reply type determined by the negotiation state "
        "(AuthReply, then UsernamePasswordReply iff the server chose USERNAME_PASSWORD, then Reply) and raises only socksio.ProtocolError"
    )
    reg.consts["socksio.socks5.SOCKS5AuthMethod.NO_AUTH_REQUIRED"] = VInt(NO_AUTH)
    reg.consts["socksio.socks5.SOCKS5AuthMethod.USERNAME_PASSWORD"] = VInt(USERPASS)
    reg.consts["socksio.socks5.SOCKS5Command.CONNECT"] = VInt(CMD_CONNECT)
    reg.consts["socksio.socks5.SOCKS5ReplyCode.SUCCEEDED"] = VInt(REPLY_SUCCEEDED)
    reg.fields(SC, "Sx", ghost=["phase", "queue"], phase="int", queue="bytes")
    reg.fields(
        SMSG, "Sm",
        const=["method", "success", "reply_code"],
        method="int", success="bool", reply_code="int",
    )

    @reg.intrinsic(SC)
    def mk_conn(it, st, args, kwargs, node):
        eng = it.eng
        c = eng.alloc(st, SC, "socks")
        eng.heap_write(st, c, "Sx.phase", VInt(0))
        eng.heap_write(st, c, "Sx.queue", VBytes(b""))
        return c

    def mk_msg(name, fields):
        @reg.intrinsic("socksio.socks5." + name)
        def ctor(it, st, args, kwargs, node):
            m = it.eng.alloc(st, "socksio.socks5." + name, "socksmsg")
            it.emit(st, "socks.msg." + name, node, msg=m, args=args, kwargs=kwargs)
            return m

        return ctor

    mk_msg("SOCKS5AuthMethodsRequest", [])
    mk_msg("SOCKS5UsernamePasswordRequest", [])

    @reg.intrinsic("socksio.socks5.SOCKS5CommandRequest.from_address")
    def from_address(it, st, args, kwargs, node):
        m = it.eng.alloc(st, "socksio.socks5.SOCKS5CommandRequest", "socksmsg")
        it.emit(st, "socks.msg.SOCKS5CommandRequest", node, msg=m, args=args, kwargs=kwargs)
        return m

    @reg.method(SC, "send")
    def conn_send(it, st, self_v, args, kwargs, node):
        eng = it.eng
        msg = args[0]
        it.emit(st, "socks.send", node, conn=self_v, msg=msg)
        if eng.choose(st, 2, f"socks.send@{node.lineno}", ["ok", "ProtocolError"]) == 1:
            eng.raise_(st, "socksio.ProtocolError", tag={"from": "socks.send"})
        q = eng.heap_read(st, self_v, "Sx.queue")
        eng.heap_write(st, self_v, "Sx.queue", VBytes(z3.Concat(q.t, socks_wire(msg.t))))
        return NONE

    @reg.method(SC, "data_to_send")
    def data_to_send(it, st, self_v, args, kwargs, node):
        eng = it.eng
        q = eng.heap_read(st, self_v, "Sx.queue")
        eng.heap_write(st, self_v, "Sx.queue", VBytes(b""))
        it.emit(st, "socks.data_to_send", node, conn=self_v, value=q)
        return q

    @reg.method(SC, "receive_data")
    def receive_data(it, st, self_v, args, kwargs, node):
        eng = it.eng
        data = eng.coerce(st, args[0], "bytes")
        phase = eng.heap_read(st, self_v, "Sx.phase")
        ev = it.emit(st, "socks.receive_data", node, conn=self_v, data=data, phase=phase)
        if eng.choose(st, 2, f"socks.receive_data@{node.lineno}", ["reply", "ProtocolError"]) == 1:
            eng.raise_(st, "socksio.ProtocolError", tag={"from": "socks.receive_data"})
        r = eng.fresh(st, "ref:" + SMSG, "reply")
        eng.assume(st, r.t > 0)
        t = typ(r.t)
        # reply type follows the negotiation phase (0: auth reply, 1: username/password reply, 2: command reply)
        eng.assume(
            st,
            z3.And(
                z3.Implies(phase.t == 0, t == cid("socksio.socks5.SOCKS5AuthReply")),
                z3.Implies(phase.t == 1, t == cid("socksio.socks5.SOCKS5UsernamePasswordReply")),
                z3.Implies(phase.t == 2, t == cid("socksio.socks5.SOCKS5Reply")),
                z3.Or(phase.t == 0, phase.t == 1, phase.t == 2),
            ),
        )
        method = eng.heap_read(st, r, "Sm.method")
        nxt = z3.If(phase.t == 0, z3.If(method.t == USERPASS, z3.IntVal(1), z3.IntVal(2)), z3.If(phase.t == 1, z3.IntVal(2), z3.IntVal(3)))
        eng.heap_write(st, self_v, "Sx.phase", VInt(nxt))
        ev.data["result"] = r
        return r

    # ================================================================== _init_socks5_connection
    @reg.contract
    class InitSocks5(Contract):
        key = INIT
        props = ("C11", "C16", "C15", "C10")
        params = {"stream": "ref:" + NS, "host": "val", "port": "int", "auth": "val", "timeout": "val"}
        variants = [("no_auth", {"auth": "none"}), ("with_auth", {"auth": lambda eng, st: VTuple([eng.mk("bytes", "user"), eng.mk("bytes", "password")])})]
        # socksio.ProtocolError (malformed reply) may leave this module-private helper: its only caller,
        # Socks5Connection.handle_request, has to map it (its own `raises` does not contain it)
        raises = NET_READ_RAISES + NET_WRITE_RAISES + [PE, "Cancelled", "socksio.ProtocolError"]
        raises_props = ("C15",)
        modifies = ("NS.written", "NS.pending")
        call_raises = NET_READ_RAISES + NET_WRITE_RAISES + [PE, "Cancelled", "socksio.ProtocolError"]
        back_edges_of_inlined_loops = True

        def on_back_edge(self, c, ordinal):
            # C15 ("a call never hangs once its input has ended"): the negotiation has no loop of its own; if a change gives it one
            # (reading until a reply is complete, say - seeds C15-w4-2 / C16-w4-2), a read that reported end of input (b"") must
            # end it: every further read returns b"" at once, no timeout ever fires, and the loop spins for ever
            reads = [e for e in c.since_cut({"net.read"}) if "result" in e.data]
            goals = [z3.Length(e.data["result"].t) > 0 for e in reads]
            return [("a_read_that_reported_end_of_input_ends_the_negotiation_loop", ("C15",), z3.And(*goals) if goals else True)]

        def callsite(self, c, ev):
            e, st = c.eng, c.st
            auth = c.args["auth"]
            has_auth = not isinstance(auth, VNone)
            out = []
            if ev.name == "socks.msg.SOCKS5AuthMethodsRequest":
                methods = e.unbox(st, ev.data["args"][0])
                want = USERPASS if has_auth else NO_AUTH
                ok = isinstance(methods, VList) and len(methods.items) == 1
                out.append(("offers_only_the_configured_auth_method", ("C11",), e.coerce(st, methods.items[0], "int").t == want if ok else False))
            if ev.name == "socks.msg.SOCKS5UsernamePasswordRequest":
                replies = [x for x in c.events("socks.receive_data") if "result" in x.data]
                a = ev.data["args"]
                ok = has_auth and len(a) == 2 and len(replies) == 1
                out.append(("credentials_sent_only_after_server_chose_userpass", ("C11",), F(c, replies[0].data["result"], "Sm.method") == USERPASS if ok else False))
                out.append(("credentials_are_the_configured_pair", ("C11",), z3.And(e.coerce(st, a[0], "bytes").t == auth.items[0].t, e.coerce(st, a[1], "bytes").t == auth.items[1].t) if ok else False))
            if ev.name == "socks.msg.SOCKS5CommandRequest":
                a = ev.data["args"]
                addr = e.unbox(st, a[1]) if len(a) == 2 else None
                ok = isinstance(addr, VTuple) and len(addr.items) == 2
                out.append(("command_is_connect", ("C11",), e.coerce(st, a[0], "int").t == CMD_CONNECT if len(a) == 2 else False))
                out.append(("command_names_exactly_the_given_host_and_port", ("C11", "C10"), z3.And(e.to_val(st, addr.items[0]).t == c.args["host"].t, e.coerce(st, addr.items[1], "int").t == c.args["port"].t) if ok else False))
                # authentication finished first
                replies = [x for x in c.events("socks.receive_data") if "result" in x.data]
                out.append(("command_only_after_auth_completed", ("C11",), len(replies) == (2 if len(c.events("socks.msg.SOCKS5UsernamePasswordRequest")) else 1)))
                # "offers only the configured authentication method ... no HTTP byte is written until it has succeeded":
                # the proxy must have chosen exactly the offered method (and, with credentials, accepted them)
                want = USERPASS if has_auth else NO_AUTH
                chosen = F(c, replies[0].data["result"], "Sm.method") == want if replies else z3.BoolVal(False)
                accepted = F(c, replies[1].data["result"], "Sm.success") if has_auth and len(replies) == 2 else z3.BoolVal(not has_auth)
                out.append(("command_only_after_the_offered_method_was_chosen_and_succeeded", ("C11",), z3.And(chosen, accepted)))
            if ev.name == "net.write":
                dts = c.events("socks.data_to_send")
                out.append(("writes_exactly_the_encoded_message", ("C11",), ev.data["buffer"].t == dts[-1].data["value"].t if dts else False))
                out.append(("negotiation_write_is_time_limited", ("C16",), ev.data["timeout"].t == e.to_val(st, c.args["timeout"]).t if "timeout" in c.args else False))
                out.append(("negotiation_on_the_given_stream", ("C11",), ev.data["stream"].t == c.args["stream"].t))
            if ev.name == "net.read":
                out.append(("negotiation_read_is_time_limited", ("C16",), ev.data["timeout"].t == e.to_val(st, c.args["timeout"]).t if "timeout" in c.args else False))
                out.append(("negotiation_on_the_given_stream", ("C11",), ev.data["stream"].t == c.args["stream"].t))
            if ev.name == "socks.receive_data":
                reads = c.events("net.read")
                out.append(("feeds_exactly_what_was_read", ("C11",), ev.data["data"].t == reads[-1].data["result"].t if reads and "result" in reads[-1].data else False))
            return out

        def checks(self, c):
            replies = [x for x in c.events("socks.receive_data") if "result" in x.data]
            last = replies[-1].data["result"] if replies else None
            names = [e.name for e in c.trace if e.name in ("net.write", "net.read")]
            n = len(replies)
            return [
                ("returns_only_after_reply_succeeded", ("C11",), z3.And(typ(last.t) == cid("socksio.socks5.SOCKS5Reply"), F(c, last, "Sm.reply_code") == REPLY_SUCCEEDED) if last is not None else False),
                ("strict_write_read_alternation", ("C11",), names == ["net.write", "net.read"] * n and n in (2, 3)),
            ]

        def exc_checks(self, c, exc):
            out = []
            if exc.cls == PE:
                replies = [x for x in c.events("socks.receive_data") if "result" in x.data]
                last = replies[-1].data["result"] if replies else None
                n = exc.tag.get("trace_len", 0)
                later = [x for x in c.trace[n:] if x.name.startswith("net.")]
                out.append(("nothing_written_after_a_refusal", ("C11",), len(later) == 0))
            return out

    # ================================================================== AsyncSocks5Connection
    reg.fields(
        SOCKS, "SK",
        const=["_proxy_origin", "_remote_origin", "_proxy_auth", "_ssl_context", "_keepalive_expiry", "_http1", "_http2", "_network_backend", "_connect_lock"],
        shared=["_connection", "_connect_failed"],
        _proxy_origin="ref:" + ORIGIN, _remote_origin="ref:" + ORIGIN, _proxy_auth="val", _ssl_context="val", _keepalive_expiry="opt:real",
        _http1="bool", _http2="bool", _network_backend="ref:" + NB, _connect_lock="ref:" + LOCK, _connection="ref:" + CI, _connect_failed="bool",
    )

    @reg.contract
    class SocksInit(Contract):
        key = SOCKS + ".__init__"
        props = ("C09", "C10", "C11")
        suspends = False
        params = {"proxy_auth": "val", "ssl_context": "val", "keepalive_expiry": "opt:real", "http1": "bool", "http2": "bool", "network_backend": "ref:" + NB}

        def requires(self, c):
            return [("backend_given", c.args["network_backend"].t > 0)]

        def ensures(self, c):
            s, a, e, st = c.self, c.args, c.eng, c.st
            return [
                ("stores_both_origins", ("C10", "C11"), z3.And(F(c, s, "SK._proxy_origin") == a["proxy_origin"].t, F(c, s, "SK._remote_origin") == a["remote_origin"].t)),
                ("stores_credentials_and_tls_context", ("C11", "C10"), z3.And(F(c, s, "SK._proxy_auth") == e.to_val(st, a["proxy_auth"]).t, F(c, s, "SK._ssl_context") == e.to_val(st, a["ssl_context"]).t)),
                ("stores_protocol_switches_and_backend", ("C10",), z3.And(F(c, s, "SK._http1") == a["http1"].t, F(c, s, "SK._http2") == a["http2"].t, F(c, s, "SK._network_backend") == a["network_backend"].t)),
                ("stores_keepalive_expiry", ("C09",), e.z_bool(e.eq(st, c.new(s, "SK._keepalive_expiry"), a["keepalive_expiry"]))),
                ("starts_unconnected", ("C10", "C05"), z3.And(F(c, s, "SK._connection") == 0, z3.Not(F(c, s, "SK._connect_failed")))),
            ]

    reg.watch_reads = set(getattr(reg, "watch_reads", set())) | {"SK._connect_failed"}

    def rely(it, st, old):
        eng = it.eng
        s = getattr(it.ctx, "self", None)
        if s is None or not isinstance(s, VRef) or s.cls != SOCKS:
            return
        lid = lock_id(eng.heap_read(st, s, "SK._connect_lock"))
        o = eng.old_arr(old, "SK._connection", IntS)
        n = eng.heap_arr(st, "SK._connection", IntS)
        of = eng.old_arr(old, "SK._connect_failed", z3.BoolSort())
        nf = eng.heap_arr(st, "SK._connect_failed", z3.BoolSort())
        # _connect_failed is sticky, and set only while the connection is unconnected (guarantees:
        # socks_connect_failed_is_only_ever_set / _set_only_while_unconnected) - by any flow that fails or is
        # cancelled there, also while this flow holds the lock and is connecting
        eng.assume(st, z3.Implies(z3.Select(of, s.t), z3.Select(nf, s.t)))
        eng.assume(st, z3.Implies(z3.Select(n, s.t) != 0, z3.Not(z3.Select(nf, s.t))))
        if lid in st.held:
            # _connection is only written by the holder of the connect lock (guarantee:
            # socks_connection_written_under_connect_lock), so it is stable across this flow's awaits
            eng.assume(st, z3.Select(n, s.t) == z3.Select(o, s.t))
        else:
            eng.assume(st, z3.Implies(z3.Select(o, s.t) != 0, z3.Select(n, s.t) == z3.Select(o, s.t)))

    reg.rely_hooks.append(rely)

    @reg.contract
    class SocksHandle(Contract):
        key = SOCKS + ".handle_async_request"
        callsite_events = {'H11.__init__', 'H2.__init__', 'net.start_tls', 'call:httpcore._async.socks_proxy._init_socks5_connection', 'ci.handle_request', 'net.connect_tcp'}
        props = ("C11", "C10", "C16", "C05", "C06", "C07", "C15", "C14", "C04", "C08", "C09")
        raises = CONN_RAISES + ["Cancelled"]
        raises_props = ("C15",)
        max_paths = 40000

        def on_field_write(self, c, obj, key, v, node):
            lid = lock_id(c.new(c.self, "SK._connect_lock"))
            if key == "SK._connection":
                return [("socks_connection_written_under_connect_lock", ("C05", "C08", "C04"), lid in c.st.held),
                        ("socks_connection_set_only_on_a_connection_not_marked_failed", ("C04", "C06", "C05"), z3.Not(F(c, c.self, "SK._connect_failed")))]
            if key == "SK._connect_failed":
                return [("socks_connect_failed_is_only_ever_set", ("C05", "C06", "C04"), c.eng.z_bool(c.eng.truthy(c.st, v))),
                        ("socks_connect_failed_set_only_while_unconnected", ("C05", "C06", "C04"), F(c, c.self, "SK._connection") == 0)]
            return []

        def setup(self, c):
            s = c.self
            c.eng.assume(c.st, z3.Implies(F(c, s, "SK._connection") != 0, z3.Not(F(c, s, "SK._connect_failed"))))

        def callsite(self, c, ev):
            s = c.self
            req = c.args["request"]
            e, st = c.eng, c.st
            ext = F(c, req, "Request.extensions")
            tv = lambda v: e.to_val(st, v).t  # noqa: E731
            po = c.new(s, "SK._proxy_origin")
            ro = c.new(s, "SK._remote_origin")
            lid = lock_id(c.new(s, "SK._connect_lock"))
            out = []
            if ev.name == "net.connect_tcp":
                d = ev.data
                out += [
                    ("socks_tcp_goes_to_the_proxy", ("C10", "C11"), z3.And(e.coerce(st, d["host"], "str").t == decode_ascii(F(c, po, "Origin.host")), e.coerce(st, d["port"], "int").t == F(c, po, "Origin.port"))),
                    ("socks_tcp_connect_timeout", ("C16",), d["timeout"].t == timeout_of(ext, "connect")),
                    # same hazard as HTTPConnection: the pool drops an unconnected connection marked failed.  A cancelled
                    # waiter may still set the flag while the trace callback of connect_tcp is awaited, so the exact
                    # obligation is at the other end (socks_connection_set_only_on_a_connection_not_marked_failed +
                    # the stream is closed when the flow gives up); here: the flag was consulted under the lock first
                    ("never_establishes_a_connection_already_marked_failed", ("C06", "C04", "C05"),
                     any(e.name == "field.read" and e.data["key"] == "SK._connect_failed" and lid in e.data["held"] for e in c.trace)),
                    ("socks_connect_under_lock_and_only_once", ("C04", "C08", "C06"), z3.And(z3.BoolVal(lid in c.st.held), F(c, s, "SK._connection") == 0)),
                ]
            if ev.name == "call:" + INIT:
                k = ev.data["kwargs"]
                conns = [x for x in c.events("net.connect_tcp") if "result" in x.data]
                ok = all(n in k for n in ("stream", "host", "port", "auth")) and len(conns) == 1
                out += [
                    ("negotiation_names_exactly_the_remote_origin", ("C11", "C10"), z3.And(tv(k["host"]) == val_of_str(decode_ascii(F(c, ro, "Origin.host"))), e.coerce(st, k["port"], "int").t == F(c, ro, "Origin.port")) if ok else False),
                    ("negotiation_uses_configured_credentials", ("C11",), tv(k["auth"]) == F(c, s, "SK._proxy_auth") if ok else False),
                    ("negotiation_on_the_stream_just_connected", ("C11", "C06"), k["stream"].t == conns[0].data["result"].t if ok else False),
                    # C16: "proxy negotiation steps use one of the configured values, never none" (an absent value means unlimited)
                    ("negotiation_gets_one_of_the_configured_timeouts", ("C16",), z3.Or(*[tv(k["timeout"]) == timeout_of(ext, kind) for kind in ("connect", "read", "write")]) if "timeout" in k else False),
                ]
            if ev.name == "net.start_tls":
                d = ev.data
                sni = dget(ext, str_lit("sni_hostname"), none_val)
                hostname = z3.If(truthy_val(sni), sni, val_of_str(decode_ascii(F(c, ro, "Origin.host"))))
                negs = [x for x in c.events("call:" + INIT) if "result" in x.data]
                alpn = c.since_cut({"ssl.set_alpn"})
                cfg = F(c, s, "SK._ssl_context")
                defaults = c.since_cut({"ssl.default_context"})
                ctx_ok = z3.If(cfg == none_val, tv(d["ssl_context"]) == defaults[-1].data["value"].t if defaults else False, tv(d["ssl_context"]) == cfg)
                out += [
                    ("socks_tls_only_after_negotiation_succeeded", ("C11",), len(negs) == 1),
                    ("socks_tls_server_name_is_sni_extension_or_host", ("C10",), tv(d["server_hostname"]) == hostname),
                    ("socks_tls_connect_timeout", ("C16",), d["timeout"].t == timeout_of(ext, "connect")),
                    ("socks_tls_context_is_configured_or_default", ("C10",), ctx_ok),
                    ("socks_alpn_offers_h2_iff_http2_enabled", ("C10",), z3.If(F(c, s, "SK._http2"), z3.BoolVal(alpn[-1].data["protocols"] == ["http/1.1", "h2"]), z3.BoolVal(alpn[-1].data["protocols"] == ["http/1.1"])) if alpn else False),
                ]
            if ev.name in ("H11.__init__", "H2.__init__"):
                d = ev.data
                negs = [x for x in c.events("call:" + INIT) if "result" in x.data]
                tls = [x for x in c.events("net.start_tls")]
                conns = [x for x in c.events("net.connect_tcp") if "result" in x.data]
                f = z3.Function("extra_info", IntS, StrS, ValS)
                secure = is_tls_scheme(F(c, ro, "Origin.scheme"))
                out += [
                    ("no_http_before_negotiation_succeeded", ("C11",), len(negs) == 1),
                    ("socks_connection_gets_keepalive_expiry", ("C09",), c.eng.z_bool(c.eng.eq(c.st, c.eng.coerce(c.st, d.get("keepalive_expiry", NONE), "opt:real"), c.new(s, "SK._keepalive_expiry")))),
                    ("socks_connection_is_for_the_remote_origin", ("C10", "C01"), d["origin"].t == F(c, s, "SK._remote_origin")),
                    ("socks_tls_iff_https_or_wss", ("C10",), z3.If(secure, z3.BoolVal(len(tls) == 1), z3.BoolVal(len(tls) == 0))),
                    ("socks_connection_gets_the_negotiated_stream", ("C10", "C06"), z3.Or(d["stream"].t == conns[0].data["result"].t, F(c, d["stream"], "NS.wraps") == conns[0].data["result"].t) if len(conns) == 1 else False),
                ]
                sslobj = f(d["stream"].t, str_lit("ssl_object"))
                negotiated = z3.And(sslobj != none_val, alpn_of(sslobj) == val_of_str(str_lit("h2")))
                want_h2 = z3.Or(negotiated, z3.And(F(c, s, "SK._http2"), z3.Not(F(c, s, "SK._http1"))))
                out.append(("socks_http2_iff_negotiated_or_http1_disabled", ("C10",), want_h2 if ev.name == "H2.__init__" else z3.Not(want_h2)))
            if ev.name == "ci.handle_request":
                out += [
                    ("socks_request_is_the_callers_request_unchanged", ("C11", "C03"), ev.data["request"].t == req.t),
                    ("socks_request_sent_on_own_connection", ("C10", "C01"), ev.data["conn"].t == F(c, s, "SK._connection")),
                ]
            return out

        def checks(self, c):
            hs = [x for x in c.events("ci.handle_request") if "result" in x.data]
            return [("returns_the_inner_response", ("C01",), c.result.t == hs[-1].data["result"].t if hs else False)]

        def exc_checks(self, c, exc):
            s = c.self
            out = []
            hs = c.events("ci.handle_request")
            lid = lock_id(c.new(s, "SK._connect_lock"))
            inside = lid in exc.tag.get("held", [])
            conns = [x for x in c.events("net.connect_tcp") if "result" in x.data]
            inits = c.events("H11.__init__") + c.events("H2.__init__")
            label = "cancelled" if exc.cls == "Cancelled" else "failed"
            if not hs:
                # from the property (C05), as for HTTPConnection: no request leaves the connection unconnected and unmarked
                out.append((f"{label}_socks_establishment_marks_connection_failed", ("C05", "C07"), z3.Implies(F(c, s, "SK._connection") == 0, F(c, s, "SK._connect_failed"))))
            if not hs and inside and (conns or c.events("net.connect_tcp")):
                if conns and not inits:
                    out.append((f"{label}_socks_establishment_closes_the_stream", ("C06",), stream_settled(c, conns[0].data["result"])))
            return out

    def observer(name, unconnected):
        @reg.contract
        class Obs(Contract):
            key = SOCKS + "." + name
            props = ("C05", "C09", "C01", "C06", "C04")
            result_kind = "bool"
            suspends = False

            def checks(self, c):
                s = c.self
                conn = c.new(s, "SK._connection")
                evs = c.events("ci." + name)
                r = c.eng.z_bool(c.eng.truthy(c.st, c.result))
                goal = z3.If(
                    conn.t == 0,
                    z3.And(r == unconnected(c), z3.BoolVal(len(evs) == 0)),
                    z3.And(z3.BoolVal(len(evs) == 1), r == evs[0].data["result"].t, evs[0].data["conn"].t == conn.t) if evs else z3.BoolVal(False),
                )
                return [("delegates_or_reports_connect_state", ("C05", "C09", "C01", "C06", "C04"), goal)]

        Obs.__name__ = "ObsSK_" + name

    failed = lambda c: F(c, c.self, "SK._connect_failed")  # noqa: E731

    def avail_unconnected(c):
        s = c.self
        o = c.new(s, "SK._remote_origin")
        return z3.And(F(c, s, "SK._http2"), z3.Or(F(c, o, "Origin.scheme") == bytes_lit(b"https"), z3.Not(F(c, s, "SK._http1"))), z3.Not(F(c, s, "SK._connect_failed")))

    observer("is_available", avail_unconnected)
    observer("has_expired", failed)
    observer("is_idle", failed)
    observer("is_closed", failed)

    @reg.contract
    class CanHandle(Contract):
        key = SOCKS + ".can_handle_request"
        props = ("C10",)
        result_kind = "bool"
        suspends = False

        def ensures(self, c):
            o = c.new(c.self, "SK._remote_origin")
            return [("gate_is_the_remote_origin", ("C10", "C01"), c.eng.coerce(c.st, c.result, "bool").t == origin_fields_equal(c.eng, c.st, c.args["origin"], o))]

    @reg.contract
    class Close(Contract):
        key = SOCKS + ".aclose"
        props = ("C06",)
        raises = ["Cancelled"]

        def checks(self, c):
            conn = c.new(c.self, "SK._connection")
            evs = c.events("ci.aclose")
            return [("closes_the_protocol_connection_if_any", ("C06",), z3.If(conn.t == 0, z3.BoolVal(len(evs) == 0), z3.BoolVal(len(evs) == 1)))]

        def callsite(self, c, ev):
            if ev.name == "ci.aclose":
                return [("closes_own_connection", ("C06",), ev.data["conn"].t == F(c, c.self, "SK._connection"))]
            return []
