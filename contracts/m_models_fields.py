"""Field declarations of the data classes in httpcore/_models.py and the modular
call semantics of their constructors (the constructors' own bodies are verified in
m_models.py against the postconditions used here)."""
from __future__ import annotations

import z3

from pyvc.values import *  # noqa: F401,F403
from pyvc.engine import Contract, Unsupported

M = "httpcore._models."
URL = M + "URL"
ORIGIN = M + "Origin"
REQUEST = M + "Request"
RESPONSE = M + "Response"
PROXY = M + "Proxy"
BYTESTREAM = M + "ByteStream"

origin_eq_spec = None


def origin_fields_equal(eng, st, a, b, heap=None):
    s = lambda r, k: eng.heap_read(st, r, k, heap=heap).t  # noqa: E731
    return z3.And(
        s(a, "Origin.scheme") == s(b, "Origin.scheme"),
        s(a, "Origin.host") == s(b, "Origin.host"),
        s(a, "Origin.port") == s(b, "Origin.port"),
    )


def register(reg):
    reg.fields(URL, "URL", const=["scheme", "host", "port", "target"], scheme="bytes", host="bytes", port="opt:int", target="bytes")
    reg.fields(ORIGIN, "Origin", const=["scheme", "host", "port"], scheme="bytes", host="bytes", port="int")
    reg.fields(REQUEST, "Request", const=["method", "url", "headers", "stream", "extensions"], method="bytes", url="ref:" + URL, headers="seq:hdr", stream="val", extensions="val")
    reg.fields(
        RESPONSE, "Response", const=["status", "headers", "stream", "extensions"], status="int", headers="seq:hdr", stream="val", extensions="val",
        _stream_consumed="bool", _content="opt:bytes",
    )
    reg.fields(PROXY, "Proxy", const=["url", "headers", "ssl_context", "auth"], url="ref:" + URL, headers="seq:hdr", ssl_context="val", auth="val")
    reg.fields(BYTESTREAM, "ByteStream", _content="bytes")

    # `a == b` on Origin references at call sites uses the contract of Origin.__eq__
    # (proved against the real method in m_models.py): equal iff scheme, host, port all equal.
    def origin_eq(eng, st, a, b):
        return origin_fields_equal(eng, st, a, b)

    reg.ref_eq[ORIGIN] = origin_eq

    # class invariant assumed for Origin objects: host and scheme are ASCII (RFC 3986 hosts; the
    # package decodes them with .decode("ascii") at every connect)
    is_ascii_bytes = z3.Function("is_ascii_bytes", BytesS, BoolS)

    def origin_fact(eng, st, ref):
        return z3.And(is_ascii_bytes(eng.heap_read(st, ref, "Origin.host").t), is_ascii_bytes(eng.heap_read(st, ref, "Origin.scheme").t))

    origin_fact.unconditional = True  # fields of a null reference are arbitrary anyway
    reg.ref_facts = dict(getattr(reg, "ref_facts", {}))
    reg.ref_facts[ORIGIN] = origin_fact
    reg.trusted_notes.append("class invariant assumed: Origin.host / Origin.scheme are ASCII bytes (no UnicodeDecodeError at connect)")
    # ground instances of "the empty dict has no key" for every key the package looks up
    # (quantifier-free on purpose: quantified axioms make every feasibility check time out)
    for key in ("timeout", "connect", "read", "write", "pool", "sni_hostname", "target", "trace", "reason_phrase", "network_stream"):
        ks = str_lit(key)
        reg.axioms.append(z3.Not(dhas(empty_dict_val, ks)))
        for d in (none_val, empty_dict_val):
            reg.axioms.append(dget(empty_dict_val, ks, d) == d)
    reg.axioms.append(empty_dict_val != none_val)
