"""Contracts for httpcore/_synchronization.py - the REAL lock / event / semaphore / shield classes that every other
contract so far only knew as assumed primitives (ext_runtime.py: LockCtx, ev_wait, sem_acquire, ShieldCtx).

What is proved here is the thin layer between the package and the runtimes: each method drives the runtime primitive OF ITS
OWN OBJECT (the one `setup()` / `__init__` created, created once), with the arguments the primitive contract needs:

* C07  AsyncEvent.set / .wait address the same runtime event (a wake-up is never lost to a second, fresh event);
* C16  the wait runs under fail_after(timeout) (trio: inf for None) / threading wait(timeout=...), and exactly the
       runtime's timeout signal becomes PoolTimeout;  C15: nothing else is mapped, nothing else escapes;
* C08 / C01 / C12  AsyncLock / Lock / ThreadLock acquire on entry and release on exit their own runtime lock, and never
       swallow the exception of the guarded region;
* C12  AsyncSemaphore / Semaphore are bounded by `bound` (initial == max == bound) and acquire / release that semaphore;
* C05 / C06  AsyncShieldCancellation enters and leaves a CancelScope(shield=True) of the running library.

Still ASSUMED (A-runtime, unchanged): the behaviour of the runtime primitives themselves (trio / anyio / threading:
mutual exclusion, `set` before `wait` is not lost, `fail_after(t)` fires at t, `CancelScope(shield=True)` blocks scope
cancellation - false for native asyncio Task.cancel(), recorded), and `current_async_library()` (sniffio).
"""
from __future__ import annotations

import z3

from pyvc.values import *  # noqa: F401,F403
from pyvc.engine import Contract, Unsupported, PyRaise
from pyvc.registry import CtxHandler
from .common import EXC
from .ext_runtime import SYN, LOCK, TLOCK, EVENT, SEM, SHIELD

RT_EVENT = "pyvc.RtEvent"
RT_LOCK = "pyvc.RtLock"
RT_SEM = "pyvc.RtSem"
RT_SCOPE = "pyvc.RtScope"
PT = EXC + "PoolTimeout"


def F(c, ref, key, old=False):
    return (c.old(ref, key) if old else c.new(ref, key)).t


def register(reg):
    for k in (RT_EVENT, RT_LOCK, RT_SEM, RT_SCOPE):
        reg.ext_class(k)
    reg.fields(RT_EVENT, "RtE", lib="str")
    reg.fields(RT_LOCK, "RtL", lib="str")
    reg.fields(RT_SEM, "RtS", lib="str", initial="val", maximum="val")
    reg.fields(RT_SCOPE, "RtC", lib="str", shield="bool")
    # the real attributes of the classes (next to the ghost model ext_runtime.py declares for their users)
    reg.fields(EVENT, "Evt", _backend="str", _trio_event="ref:" + RT_EVENT, _anyio_event="ref:" + RT_EVENT, _event="ref:" + RT_EVENT)
    reg.fields(LOCK, "Lck", _backend="str", _trio_lock="ref:" + RT_LOCK, _anyio_lock="ref:" + RT_LOCK, _lock="ref:" + RT_LOCK)
    reg.fields(TLOCK, "TLck", _lock="ref:" + RT_LOCK)
    reg.fields(SEM, "Sem", _backend="str", _bound="val", _trio_semaphore="ref:" + RT_SEM, _anyio_semaphore="ref:" + RT_SEM, _semaphore="ref:" + RT_SEM)
    reg.fields(SHIELD, "Shd", _backend="str", _trio_shield="ref:" + RT_SCOPE, _anyio_shield="ref:" + RT_SCOPE)
    reg.trusted_notes.append(
        "A-runtime (primitives): trio / anyio / threading Event, Lock, Semaphore, CancelScope behave as documented; "
        "sniffio names the running library - the thin layer of httpcore/_synchronization.py over them is PROVED (contracts/m_sync.py)")

    def deadline_of(st):
        ds = st.ghost.get("deadlines", [])
        return ds[-1] if ds else None

    def mk(kind_cls, lib, short):
        def ctor(it, st, args, kwargs, node):
            eng = it.eng
            o = eng.alloc(st, kind_cls, short)
            eng.heap_write(st, o, f"{short}.lib", VStr(lib))
            if kind_cls == RT_SEM:
                init = kwargs.get("initial_value", kwargs.get("value", args[0] if args else NONE))
                mx = kwargs.get("max_value", NONE)
                eng.heap_write(st, o, "RtS.initial", eng.to_val(st, init))
                eng.heap_write(st, o, "RtS.maximum", eng.to_val(st, mx))
            if kind_cls == RT_SCOPE:
                eng.heap_write(st, o, "RtC.shield", eng.coerce(st, kwargs.get("shield", VBool(False)), "bool"))
            it.emit(st, "rt.new", node, cls=kind_cls, lib=lib, obj=o)
            return o
        return ctor

    for lib in ("trio", "anyio", "threading"):
        reg.intrinsics[f"{lib}.Event"] = mk(RT_EVENT, lib, "RtE")
        reg.intrinsics[f"{lib}.Lock"] = mk(RT_LOCK, lib, "RtL")
        reg.intrinsics[f"{lib}.Semaphore"] = mk(RT_SEM, lib, "RtS")
        for n in ("Event", "Lock", "Semaphore"):
            reg.intrinsics[f"{lib}.{n}"].suspends = False
    for lib in ("trio", "anyio"):
        reg.intrinsics[f"{lib}.CancelScope"] = mk(RT_SCOPE, lib, "RtC")
        reg.intrinsics[f"{lib}.CancelScope"].suspends = False

    @reg.intrinsic(SYN + "current_async_library")
    def current_async_library(it, st, args, kwargs, node):
        # assumed (sniffio): names the library the caller runs under - one of the two the package supports
        k = it.eng.choose(st, 2, f"async-library@{node.lineno}", ["trio", "asyncio"])
        return VStr("trio" if k == 0 else "asyncio")

    def blocking(it, st, name, obj, node, **data):
        """a runtime call that may block: in the async tree a suspension point that the innermost fail_after may cut short"""
        eng = it.eng
        d = deadline_of(st)
        ev = it.emit(st, name, node, obj=obj, deadline=(d.param if d is not None else None), held=list(st.held), **data)
        if eng.tree == "async":
            it.suspend(st, f"{name}@{node.lineno}")
            if d is not None:
                if eng.choose(st, 2, f"{name}@{node.lineno}", ["done", "DeadlineCancelled"]) == 1:
                    ev.data["outcome"] = "DeadlineCancelled"
                    eng.raise_(st, "DeadlineCancelled", tag={"scope": d, "from": name})
        ev.data["outcome"] = "done"
        return ev

    @reg.method(RT_EVENT, "set")
    def rt_event_set(it, st, self_v, args, kwargs, node):
        it.emit(st, "rt.event.set", node, obj=self_v)
        return NONE

    @reg.method(RT_EVENT, "wait")
    def rt_event_wait(it, st, self_v, args, kwargs, node):
        eng = it.eng
        t = kwargs.get("timeout", args[0] if args else None)
        ev = blocking(it, st, "rt.event.wait", self_v, node, timeout=(eng.to_val(st, t) if t is not None else None))
        if eng.tree == "sync":
            # threading.Event.wait(timeout) -> True when set, False when the timeout elapsed first
            st.counter += 1
            r = VBool(z3.Bool(f"event_was_set!{st.counter}"))
            ev.data["result"] = r
            return r
        return NONE

    @reg.method(RT_LOCK, "acquire")
    def rt_lock_acquire(it, st, self_v, args, kwargs, node):
        blocking(it, st, "rt.lock.acquire", self_v, node)
        return VBool(True)

    @reg.method(RT_LOCK, "release")
    def rt_lock_release(it, st, self_v, args, kwargs, node):
        it.emit(st, "rt.lock.release", node, obj=self_v)
        return NONE

    @reg.method(RT_SEM, "acquire")
    def rt_sem_acquire(it, st, self_v, args, kwargs, node):
        blocking(it, st, "rt.sem.acquire", self_v, node)
        return VBool(True)

    @reg.method(RT_SEM, "release")
    def rt_sem_release(it, st, self_v, args, kwargs, node):
        it.emit(st, "rt.sem.release", node, obj=self_v)
        return NONE

    @reg.method(RT_SCOPE, "__enter__")
    def rt_scope_enter(it, st, self_v, args, kwargs, node):
        it.emit(st, "rt.scope.enter", node, obj=self_v)
        return self_v

    @reg.method(RT_SCOPE, "__exit__")
    def rt_scope_exit(it, st, self_v, args, kwargs, node):
        it.emit(st, "rt.scope.exit", node, obj=self_v, args=list(args))
        st.counter += 1
        return VVal(z3.Const(f"scope_exit_ret!{st.counter}", ValS))

    # ---------------------------------------------------------------------------------------------------------
    def own(c, short, trio_f, anyio_f, sync_f):
        """the runtime primitive this object must use: the one of the running library (async) / its only one (sync)"""
        s = c.self
        if c.eng.tree == "sync":
            return F(c, s, f"{short}.{sync_f}")
        return z3.If(F(c, s, f"{short}._backend") == z3.StringVal("trio"), F(c, s, f"{short}.{trio_f}"), F(c, s, f"{short}.{anyio_f}"))

    def set_up(c, short):
        b = F(c, c.self, f"{short}._backend")
        return z3.Or(b == z3.StringVal("trio"), b == z3.StringVal("asyncio"))

    def setup_contract(cls, short, trio_f, anyio_f, rt_cls, props):
        @reg.contract
        class Setup(Contract):
            key = cls + ".setup"
            trees = ("async",)
            inline = True  # callers inline the real body; it is verified here on its own
            suspends = False
            raises = []
            raises_props = ()

            def checks(self, c):
                s = c.self
                news = [e for e in c.events("rt.new")]
                b = F(c, s, f"{short}._backend")
                ok = len(news) == 1 and news[0].data["cls"] == rt_cls
                lib = news[0].data["lib"] if ok else ""
                fld = z3.If(b == z3.StringVal("trio"), F(c, s, f"{short}.{trio_f}"), F(c, s, f"{short}.{anyio_f}"))
                out = [
                    ("names_the_running_library", props, set_up(c, short)),
                    ("creates_exactly_one_runtime_primitive_of_the_running_library_and_keeps_it", props,
                     z3.And(z3.BoolVal(ok), fld == news[0].data["obj"].t, z3.BoolVal(lib == "trio") == (b == z3.StringVal("trio"))) if ok else False),
                ]
                if rt_cls == RT_SEM and ok:
                    o = news[0].data["obj"]
                    out.append(("semaphore_starts_full_and_is_bounded_by_bound", ("C12",), z3.And(F(c, o, "RtS.initial") == F(c, s, "Sem._bound"), F(c, o, "RtS.maximum") == F(c, s, "Sem._bound"))))
                return out

        Setup.props = props
        Setup.__name__ = "Setup_" + short

    setup_contract(EVENT, "Evt", "_trio_event", "_anyio_event", RT_EVENT, ("C07", "C16"))
    setup_contract(LOCK, "Lck", "_trio_lock", "_anyio_lock", RT_LOCK, ("C08", "C01", "C12"))
    setup_contract(SEM, "Sem", "_trio_semaphore", "_anyio_semaphore", RT_SEM, ("C12",))

    def once(c, short):
        """`setup()` ran in this call iff the object was not set up before (a second setup would replace the runtime primitive
        other tasks already wait on / hold)"""
        news = c.events("rt.new")
        was = z3.Or(F(c, c.self, f"{short}._backend", old=True) == z3.StringVal("trio"), F(c, c.self, f"{short}._backend", old=True) == z3.StringVal("asyncio"))
        return z3.If(was, z3.BoolVal(len(news) == 0), z3.BoolVal(len(news) == 1))

    def entry_assumption(c, short):
        # representation invariant (established by __init__: "", kept by setup): _backend is "", "trio" or "asyncio"
        b = F(c, c.self, f"{short}._backend")
        c.eng.assume(c.st, z3.Or(b == z3.StringVal(""), b == z3.StringVal("trio"), b == z3.StringVal("asyncio")))

    # ================================================================== AsyncEvent / Event
    @reg.contract
    class EventInit(Contract):
        key = EVENT + ".__init__"
        props = ("C07",)
        suspends = False
        raises = []
        raises_props = ()

        def checks(self, c):
            if c.eng.tree == "sync":
                news = c.events("rt.new")
                return [("creates_its_runtime_event", ("C07",), z3.And(z3.BoolVal(len(news) == 1), F(c, c.self, "Evt._event") == news[0].data["obj"].t) if news else False)]
            return [("starts_without_a_runtime_event", ("C07",), F(c, c.self, "Evt._backend") == z3.StringVal(""))]

    @reg.contract
    class EventSet(Contract):
        key = EVENT + ".set"
        props = ("C07", "C08")
        suspends = False
        raises = []
        raises_props = ()

        def setup(self, c):
            if c.eng.tree == "async":
                entry_assumption(c, "Evt")

        def checks(self, c):
            sets = c.events("rt.event.set")
            out = [("sets_its_own_runtime_event_exactly_once", ("C07", "C08"), z3.And(z3.BoolVal(len(sets) == 1), sets[0].data["obj"].t == own(c, "Evt", "_trio_event", "_anyio_event", "_event")) if sets else False)]
            if c.eng.tree == "async":
                out.append(("runtime_event_created_once_and_never_replaced", ("C07",), once(c, "Evt")))
            return out

    @reg.contract
    class EventWait(Contract):
        key = EVENT + ".wait"
        props = ("C07", "C16", "C15")
        params = {"timeout": "val"}
        raises = [PT, "Cancelled"]
        raises_props = ("C15",)

        def setup(self, c):
            if c.eng.tree == "async":
                entry_assumption(c, "Evt")

        def _wait(self, c):
            ws = c.events("rt.event.wait")
            return ws[0] if len(ws) == 1 else None

        def callsite(self, c, ev):
            if ev.name != "rt.event.wait":
                return []
            t = c.eng.to_val(c.st, c.args["timeout"]).t
            out = [("waits_on_its_own_runtime_event", ("C07",), ev.data["obj"].t == own(c, "Evt", "_trio_event", "_anyio_event", "_event"))]
            if c.eng.tree == "sync":
                got = ev.data.get("timeout")
                inf = z3.Const("float_inf", ValS)
                out.append(("wait_is_limited_by_the_given_timeout", ("C16",), z3.If(t == inf, got.t == none_val, got.t == t) if got is not None else False))
            else:
                d = ev.data.get("deadline")
                is_trio = F(c, c.self, "Evt._backend") == z3.StringVal("trio")
                want = z3.If(z3.And(is_trio, t == none_val), z3.Const("float_inf", ValS), t)
                out.append(("wait_runs_under_fail_after_the_given_timeout", ("C16",), d.t == want if d is not None else False))
            return out

        def checks(self, c):
            w = self._wait(c)
            out = [("waits_exactly_once", ("C07", "C16"), w is not None)]
            if c.eng.tree == "async":
                out.append(("runtime_event_created_once_and_never_replaced", ("C07",), once(c, "Evt")))
            if c.eng.tree == "sync" and w is not None and "result" in w.data:
                out.append(("returns_only_when_the_event_was_set", ("C16", "C07"), w.data["result"].t))
            return out

        def exc_checks(self, c, exc):
            w = self._wait(c)
            if exc.cls == PT:
                if c.eng.tree == "sync":
                    return [("pool_timeout_exactly_when_the_runtime_wait_timed_out", ("C16", "C15"), z3.Not(w.data["result"].t) if w is not None and "result" in w.data else False)]
                return [("pool_timeout_exactly_when_the_deadline_cut_the_wait_short", ("C16", "C15"), w is not None and w.data.get("outcome") == "DeadlineCancelled")]
            return []

    # ================================================================== AsyncLock / Lock / ThreadLock
    def lock_contracts(cls, short, trio_f, anyio_f, sync_f, has_setup):
        @reg.contract
        class LInit(Contract):
            key = cls + ".__init__"
            props = ("C08",)
            suspends = False
            raises = []
            raises_props = ()
            trees = ("async", "sync") if has_setup else ("sync",)

            def checks(self, c):
                if c.eng.tree == "sync":
                    news = c.events("rt.new")
                    return [("creates_its_runtime_lock", ("C08",), z3.And(z3.BoolVal(len(news) == 1 and news[0].data["cls"] == RT_LOCK), F(c, c.self, f"{short}.{sync_f}") == news[0].data["obj"].t) if news else False)]
                return [("starts_without_a_runtime_lock", ("C08",), F(c, c.self, f"{short}._backend") == z3.StringVal(""))]

        @reg.contract
        class LEnter(Contract):
            key = cls + (".__aenter__" if has_setup else ".__enter__")
            props = ("C08", "C01", "C12")
            raises = ["Cancelled"]
            raises_props = ()
            trees = ("async", "sync") if has_setup else ("sync",)

            def setup(self, c):
                if c.eng.tree == "async":
                    entry_assumption(c, short)

            def checks(self, c):
                acq = c.events("rt.lock.acquire")
                target = own(c, short, trio_f, anyio_f, sync_f) if has_setup else F(c, c.self, f"{short}.{sync_f}")
                out = [
                    ("acquires_its_own_runtime_lock_exactly_once", ("C08", "C01", "C12"), z3.And(z3.BoolVal(len(acq) == 1), acq[0].data["obj"].t == target) if acq else False),
                    ("returns_itself", ("C08",), isinstance(c.result, VRef) and c.result.t.eq(c.self.t)),
                    ("does_not_release_on_entry", ("C08",), len(c.events("rt.lock.release")) == 0),
                ]
                if c.eng.tree == "async" and has_setup:
                    out.append(("runtime_lock_created_once_and_never_replaced", ("C08", "C12"), once(c, short)))
                return out

        @reg.contract
        class LExit(Contract):
            key = cls + (".__aexit__" if has_setup else ".__exit__")
            props = ("C08", "C01", "C12", "C15")
            params = {"exc_type": "val", "exc_value": "val", "traceback": "val"}
            suspends = False
            raises = []
            raises_props = ()
            trees = ("async", "sync") if has_setup else ("sync",)

            def setup(self, c):
                if c.eng.tree == "async":
                    # only a lock that was entered is left: it has been set up
                    c.eng.assume(c.st, set_up(c, short))

            def checks(self, c):
                rel = c.events("rt.lock.release")
                target = own(c, short, trio_f, anyio_f, sync_f) if has_setup else F(c, c.self, f"{short}.{sync_f}")
                return [
                    ("releases_its_own_runtime_lock_exactly_once", ("C08", "C01", "C12"), z3.And(z3.BoolVal(len(rel) == 1), rel[0].data["obj"].t == target) if rel else False),
                    ("never_swallows_the_exception_of_the_guarded_region", ("C15", "C08"), isinstance(c.result, VNone)),
                    ("does_not_acquire_on_exit", ("C08",), len(c.events("rt.lock.acquire")) == 0),
                ]

        for k in (LInit, LEnter, LExit):
            k.__name__ = k.__name__ + "_" + short

    lock_contracts(LOCK, "Lck", "_trio_lock", "_anyio_lock", "_lock", True)

    # AsyncThreadLock is a no-op under async; ThreadLock (its sync twin) is a real mutex
    @reg.contract
    class TLInit(Contract):
        key = TLOCK + ".__init__"
        props = ("C08",)
        trees = ("sync",)
        suspends = False
        raises = []
        raises_props = ()

        def checks(self, c):
            news = c.events("rt.new")
            return [("creates_its_runtime_lock", ("C08",), z3.And(z3.BoolVal(len(news) == 1 and news[0].data["cls"] == RT_LOCK), F(c, c.self, "TLck._lock") == news[0].data["obj"].t) if news else False)]

    @reg.contract
    class TLEnter(Contract):
        key = TLOCK + ".__enter__"
        props = ("C08",)
        suspends = False
        raises = []
        raises_props = ()

        def checks(self, c):
            acq = c.events("rt.lock.acquire")
            out = [("returns_itself", ("C08",), isinstance(c.result, VRef) and c.result.t.eq(c.self.t))]
            if c.eng.tree == "sync":
                out.append(("acquires_its_own_runtime_lock_exactly_once", ("C08",), z3.And(z3.BoolVal(len(acq) == 1), acq[0].data["obj"].t == F(c, c.self, "TLck._lock")) if acq else False))
            else:
                out.append(("never_blocks_under_async", ("C08", "C07"), len(acq) == 0))
            return out

    @reg.contract
    class TLExit(Contract):
        key = TLOCK + ".__exit__"
        props = ("C08", "C15")
        params = {"exc_type": "val", "exc_value": "val", "traceback": "val"}
        suspends = False
        raises = []
        raises_props = ()

        def checks(self, c):
            rel = c.events("rt.lock.release")
            out = [("never_swallows_the_exception_of_the_guarded_region", ("C15", "C08"), isinstance(c.result, VNone))]
            if c.eng.tree == "sync":
                out.append(("releases_its_own_runtime_lock_exactly_once", ("C08",), z3.And(z3.BoolVal(len(rel) == 1), rel[0].data["obj"].t == F(c, c.self, "TLck._lock")) if rel else False))
            return out

    # ================================================================== AsyncSemaphore / Semaphore
    @reg.contract
    class SemInit(Contract):
        key = SEM + ".__init__"
        props = ("C12",)
        params = {"bound": "val"}
        suspends = False
        raises = []
        raises_props = ()

        def checks(self, c):
            b = c.eng.to_val(c.st, c.args["bound"]).t
            if c.eng.tree == "sync":
                news = c.events("rt.new")
                ok = len(news) == 1 and news[0].data["cls"] == RT_SEM
                return [("creates_a_semaphore_with_bound_permits", ("C12",), z3.And(F(c, c.self, "Sem._semaphore") == news[0].data["obj"].t, F(c, news[0].data["obj"], "RtS.initial") == b) if ok else False)]
            return [("remembers_the_bound_and_starts_without_a_runtime_semaphore", ("C12",), z3.And(F(c, c.self, "Sem._bound") == b, F(c, c.self, "Sem._backend") == z3.StringVal("")))]

    @reg.contract
    class SemAcquire(Contract):
        key = SEM + ".acquire"
        props = ("C12",)
        raises = ["Cancelled"]
        raises_props = ()

        def setup(self, c):
            if c.eng.tree == "async":
                entry_assumption(c, "Sem")

        def checks(self, c):
            acq = c.events("rt.sem.acquire")
            out = [("acquires_its_own_runtime_semaphore_exactly_once", ("C12",), z3.And(z3.BoolVal(len(acq) == 1), acq[0].data["obj"].t == own(c, "Sem", "_trio_semaphore", "_anyio_semaphore", "_semaphore")) if acq else False),
                   ("does_not_release_while_acquiring", ("C12",), len(c.events("rt.sem.release")) == 0)]
            if c.eng.tree == "async":
                out.append(("runtime_semaphore_created_once_and_never_replaced", ("C12",), once(c, "Sem")))
            return out

    @reg.contract
    class SemRelease(Contract):
        key = SEM + ".release"
        props = ("C12",)
        suspends = False
        raises = []
        raises_props = ()

        def setup(self, c):
            if c.eng.tree == "async":
                # a permit is given back only after one was taken: the semaphore has been set up
                c.eng.assume(c.st, set_up(c, "Sem"))

        def checks(self, c):
            rel = c.events("rt.sem.release")
            return [("releases_its_own_runtime_semaphore_exactly_once", ("C12",), z3.And(z3.BoolVal(len(rel) == 1), rel[0].data["obj"].t == own(c, "Sem", "_trio_semaphore", "_anyio_semaphore", "_semaphore")) if rel else False),
                    ("does_not_acquire_while_releasing", ("C12",), len(c.events("rt.sem.acquire")) == 0),
                    ("never_creates_a_new_semaphore", ("C12",), len(c.events("rt.new")) == 0)]

    # ================================================================== AsyncShieldCancellation
    @reg.contract
    class ShieldInit(Contract):
        key = SHIELD + ".__init__"
        props = ("C05", "C06", "C07")
        trees = ("async",)
        suspends = False
        raises = []
        raises_props = ()

        def checks(self, c):
            s = c.self
            news = c.events("rt.new")
            ok = len(news) == 1 and news[0].data["cls"] == RT_SCOPE
            b = F(c, s, "Shd._backend")
            fld = z3.If(b == z3.StringVal("trio"), F(c, s, "Shd._trio_shield"), F(c, s, "Shd._anyio_shield"))
            return [("creates_one_shielded_cancel_scope_of_the_running_library", ("C05", "C06", "C07"),
                     z3.And(set_up(c, "Shd"), fld == news[0].data["obj"].t, F(c, news[0].data["obj"], "RtC.shield"), z3.BoolVal(news[0].data["lib"] == "trio") == (b == z3.StringVal("trio"))) if ok else False)]

    @reg.contract
    class ShieldEnter(Contract):
        key = SHIELD + ".__enter__"
        props = ("C05", "C06", "C07")
        trees = ("async",)
        suspends = False
        raises = []
        raises_props = ()

        def setup(self, c):
            c.eng.assume(c.st, set_up(c, "Shd"))

        def checks(self, c):
            en = c.events("rt.scope.enter")
            return [("enters_its_own_shielded_scope_exactly_once", ("C05", "C06", "C07"), z3.And(z3.BoolVal(len(en) == 1), en[0].data["obj"].t == own(c, "Shd", "_trio_shield", "_anyio_shield", "_anyio_shield")) if en else False)]

    @reg.contract
    class ShieldExit(Contract):
        key = SHIELD + ".__exit__"
        props = ("C05", "C06", "C15")
        params = {"exc_type": "val", "exc_value": "val", "traceback": "val"}
        trees = ("async",)
        suspends = False
        raises = []
        raises_props = ()

        def setup(self, c):
            c.eng.assume(c.st, set_up(c, "Shd"))

        def checks(self, c):
            ex = c.events("rt.scope.exit")
            ok = len(ex) == 1
            same_args = False
            if ok:
                a = ex[0].data["args"]
                same_args = len(a) == 3 and all(c.eng.to_val(c.st, x).t.eq(c.eng.to_val(c.st, c.args[n]).t) for x, n in zip(a, ("exc_type", "exc_value", "traceback")))
            return [
                ("leaves_its_own_shielded_scope_exactly_once_with_the_exception_it_was_given", ("C05", "C06"), z3.And(ex[0].data["obj"].t == own(c, "Shd", "_trio_shield", "_anyio_shield", "_anyio_shield"), z3.BoolVal(bool(same_args))) if ok else False),
                ("never_swallows_the_exception_of_the_shielded_region", ("C15", "C05"), isinstance(c.result, VNone)),
            ]

    # ================================================================== AutoBackend (the default network back end)
    from .common import NB, NET_CONNECT_RAISES
    AUTO = "httpcore._backends.auto.AutoBackend"
    TRIO_B = "httpcore._backends.trio.TrioBackend"
    ANYIO_B = "httpcore._backends.anyio.AnyIOBackend"
    reg.hasattr_hooks = dict(getattr(reg, "hasattr_hooks", {}))
    reg.hasattr_hooks[(AUTO, "_backend")] = lambda it, st, v: VBool(it.eng.heap_read(st, v, "Auto._backend").t != 0)

    @reg.contract
    class AutoInit(Contract):
        """the back end is chosen once, for the library the first call runs under: trio -> TrioBackend, else AnyIOBackend"""
        key = AUTO + "._init_backend"
        props = ("C10", "C16", "C18", "C15")
        trees = ("async",)
        inline = True
        raises = []
        raises_props = ()

        def checks(self, c):
            s = c.self
            had = F(c, s, "Auto._backend", old=True) != 0
            libs = [e for e in c.trace if e.name == "choice" and False]
            now = c.new(s, "Auto._backend")
            typ = z3.Function("typ", IntS, IntS)
            return [
                ("an_existing_back_end_is_kept", ("C10", "C16"), z3.Implies(had, now.t == F(c, s, "Auto._backend", old=True))),
                ("a_back_end_exists_afterwards", ("C10", "C16"), now.t != 0),
            ]

    def auto_delegate(method, kind, names):
        @reg.contract
        class AutoConnect(Contract):
            """every argument reaches the chosen back end unchanged, and its stream is what the caller gets"""
            key = AUTO + "." + method
            props = ("C10", "C16", "C18", "C20", "C15")
            trees = ("async",)
            params = {"timeout": "val", "local_address": "val", "socket_options": "val", "host": "str", "port": "int", "path": "val"}
            raises = NET_CONNECT_RAISES + ["Cancelled"]
            raises_props = ("C15",)

            def callsite(self, c, ev):
                if ev.name != "net.connect_" + kind:
                    return []
                e, st = c.eng, c.st
                same = [e.to_val(st, ev.data[n]).t == e.to_val(st, c.args[n]).t for n in names]
                return [
                    (f"{method}_arguments_reach_the_back_end_unchanged", ("C10", "C16", "C18"), z3.And(*same)),
                    ("delegates_to_its_own_chosen_back_end", ("C10", "C18"), ev.data["backend"].t == F(c, c.self, "Auto._backend")),
                ]

            def checks(self, c):
                evs = [e for e in c.events("net.connect_" + kind) if "result" in e.data]
                return [("one_connection_attempt_whose_stream_is_returned", ("C10", "C20", "C06"), z3.And(z3.BoolVal(len(evs) == 1), c.result.t == evs[0].data["result"].t) if evs and isinstance(c.result, VRef) else False)]

            def exc_checks(self, c, exc):
                return [("at_most_one_connection_attempt", ("C20",), len(c.events("net.connect_" + kind)) <= 1)]

        AutoConnect.__name__ = "Auto_" + method

    auto_delegate("connect_tcp", "tcp", ("host", "port", "timeout", "local_address", "socket_options"))
    auto_delegate("connect_unix_socket", "unix", ("path", "timeout", "socket_options"))
