"""Contracts for httpcore/_async/http11.py (AsyncHTTP11Connection, HTTP11ConnectionByteStream)
and, through the unasync name table, httpcore/_sync/http11.py.

Ghost: exclusive ownership of the exchange (st.ghost['h11_owned']): set when this control
flow passes the ACTIVE gate, needed by everything that touches h11 state / the stream.
Rely (interference at suspension points): while a flow owns the exchange other tasks change
the connection only through aclose() (-> _state = CLOSED, stream closed).
"""
from __future__ import annotations

import z3

from pyvc.values import *  # noqa: F401,F403
from pyvc.engine import Contract, GeneratorContract, Unsupported
from .common import NS, EXC, NET_READ_RAISES, NET_WRITE_RAISES, timeout_of
from .ext_h11 import HC, EV, IDLE as H_IDLE, DONE as H_DONE, SEND_RESPONSE as H_SEND_RESPONSE, SWITCHED as H_SWITCHED, h11_wire, NEED_DATA_REF, PAUSED_REF
from .ext_runtime import LOCK, lock_id
from .m_models_fields import REQUEST, URL, ORIGIN, RESPONSE, origin_fields_equal

MOD = "httpcore._async.http11."
H11 = MOD + "AsyncHTTP11Connection"
BS = MOD + "HTTP11ConnectionByteStream"
US = MOD + "AsyncHTTP11UpgradeStream"

NEW, ACTIVE, IDLE, CLOSED = 0, 1, 2, 3

CNA = EXC + "ConnectionNotAvailable"
LPE = EXC + "LocalProtocolError"
RPE = EXC + "RemoteProtocolError"

EXCHANGE_STEPS = ("_send_request_headers", "_send_request_body", "_receive_response_headers", "_response_closed")


def F(c, ref, key, old=False):
    return (c.old(ref, key) if old else c.new(ref, key)).t


def req_ext(c, request, old=False):
    return F(c, request, "Request.extensions", old)


def owned(st):
    return st.ghost.setdefault("h11_owned", [])


def own(st, ref):
    if not any(z3.eq(x, ref.t) for x in owned(st)):
        owned(st).append(ref.t)


def disown(st, ref):
    st.ghost["h11_owned"] = [x for x in owned(st) if not z3.eq(x, ref.t)]


def register(reg):
    reg.fields(
        H11,
        "H11",
        const=["_origin", "_network_stream", "_keepalive_expiry", "_state_lock", "_h11_state"],
        shared=["_state", "_expire_at", "_request_count"],
        _origin="ref:" + ORIGIN,
        _network_stream="ref:" + NS,
        _keepalive_expiry="opt:real",
        _expire_at="opt:real",
        _state="int",
        _state_lock="ref:" + LOCK,
        _request_count="int",
        _h11_state="ref:" + HC,
    )
    reg.fields(BS, "BS", const=["_connection", "_request"], _connection="ref:" + H11, _request="ref:" + REQUEST, _closed="bool")
    reg.watch_reads = set(getattr(reg, "watch_reads", set())) | {"H11._state"}

    def rely(it, st, old):
        eng = it.eng
        for r in owned(st):
            o = lambda k, sort=IntS: z3.Select(eng.old_arr(old, k, sort), r)  # noqa: E731
            n = lambda k, sort=IntS: z3.Select(eng.heap_arr(st, k, sort), r)  # noqa: E731
            eng.assume(st, z3.Or(n("H11._state") == o("H11._state"), n("H11._state") == CLOSED))
            eng.assume(st, n("H11._request_count") == o("H11._request_count"))
            eng.assume(st, n("H11._expire_at#none", BoolS) == o("H11._expire_at#none", BoolS))
            eng.assume(st, n("H11._expire_at#val", RealS) == o("H11._expire_at#val", RealS))

    reg.rely_hooks.append(rely)

    from .common import stream_of_interest as interest

    # ------------------------------------------------------------------ __init__
    @reg.contract
    class Init(Contract):
        key = H11 + ".__init__"
        props = ("C01", "C06", "C09")
        params = {"keepalive_expiry": "opt:real"}

        def ensures(self, c):
            s = c.self
            h = c.new(s, "H11._h11_state")
            return [
                ("state_new", ("C01",), F(c, s, "H11._state") == NEW),
                ("no_expiry", ("C09",), c.new(s, "H11._expire_at").none),
                ("stores_stream", ("C06", "C01"), F(c, s, "H11._network_stream") == c.args["stream"].t),
                ("stores_origin", ("C01",), F(c, s, "H11._origin") == c.args["origin"].t),
                ("stores_expiry", ("C09",), c.eng.eq(c.st, c.new(s, "H11._keepalive_expiry"), c.args["keepalive_expiry"])),
                ("h11_idle", ("C01",), z3.And(F(c, h, "H.our") == H_IDLE, F(c, h, "H.their") == H_IDLE)),
                ("count_zero", ("C01",), F(c, s, "H11._request_count") == 0),
            ]

        def apply(self, it, st, self_v, args, kwargs, node):
            eng = it.eng
            names = ["origin", "stream", "keepalive_expiry"]
            a = dict(zip(names, args))
            a.update(kwargs)
            eng.heap_write(st, self_v, "H11._origin", a["origin"])
            eng.heap_write(st, self_v, "H11._network_stream", a["stream"])
            eng.heap_write(st, self_v, "H11._keepalive_expiry", eng.coerce(st, a.get("keepalive_expiry", NONE), "opt:real"))
            eng.heap_write(st, self_v, "H11._expire_at", NONE)
            eng.heap_write(st, self_v, "H11._state", VInt(NEW))
            eng.heap_write(st, self_v, "H11._request_count", VInt(0))
            lock = eng.alloc(st, LOCK, "lock")
            eng.heap_write(st, self_v, "H11._state_lock", lock)
            h = eng.alloc(st, HC, "h11conn")
            eng.heap_write(st, h, "H.our", VInt(H_IDLE))
            eng.heap_write(st, h, "H.their", VInt(H_IDLE))
            eng.heap_write(st, self_v, "H11._h11_state", h)
            eng.heap_write(st, self_v, "CI.origin", a["origin"])
            it.emit(st, "H11.__init__", node, conn=self_v, **a)
            return NONE

    # ------------------------------------------------------------------ observers
    def observer(name, spec, props):
        @reg.contract
        class Obs(Contract):
            key = H11 + "." + name
            result_kind = "bool"
            suspends = False

            def ensures(self, c):
                return [("spec", props, c.eng.coerce(c.st, c.result, "bool").t == spec(c))]

            def apply(self, it, st, self_v, args, kwargs, node):
                from pyvc.engine import Ctx

                c = Ctx(it.eng, st, None, {}, st.snapshot_heap(), self_v)
                return VBool(spec(c))

        Obs.props = props
        Obs.__name__ = "Obs_" + name
        return Obs

    observer("is_available", lambda c: F(c, c.self, "H11._state") == IDLE, ("C01", "C09"))
    observer("is_idle", lambda c: F(c, c.self, "H11._state") == IDLE, ("C01", "C09", "C05"))
    observer("is_closed", lambda c: F(c, c.self, "H11._state") == CLOSED, ("C01", "C06", "C05"))

    @reg.contract
    class CanHandle(Contract):
        key = H11 + ".can_handle_request"
        props = ("C10", "C01")
        result_kind = "bool"
        suspends = False

        def ensures(self, c):
            o = c.new(c.self, "H11._origin")
            return [("gate", ("C10", "C01"), c.eng.coerce(c.st, c.result, "bool").t == origin_fields_equal(c.eng, c.st, c.args["origin"], o))]

        def apply(self, it, st, self_v, args, kwargs, node):
            o = it.eng.heap_read(st, self_v, "H11._origin")
            other = args[0] if args else kwargs["origin"]
            return VBool(origin_fields_equal(it.eng, st, other, o))

    @reg.contract
    class HasExpired(Contract):
        key = H11 + ".has_expired"
        props = ("C09", "C01")
        result_kind = "bool"
        suspends = False

        def checks(self, c):
            s = c.self
            now_evs = c.events("time.monotonic")
            if len(now_evs) != 1:
                return [("reads_clock_once", ("C09", "C01"), False)]
            now = now_evs[0].data["value"].t
            exp = c.new(s, "H11._expire_at")
            keepalive_expired = z3.And(z3.Not(exp.none), now > exp.val.t)
            f = z3.Function("extra_info", IntS, StrS, ValS)
            stream = F(c, s, "H11._network_stream")
            readable = truthy_val(f(stream, str_lit("is_readable")))
            server_disconnected = z3.And(F(c, s, "H11._state") == IDLE, readable)
            r = c.eng.truthy(c.st, c.result)
            return [("spec", ("C09", "C01"), c.eng.z_bool(r) == z3.Or(keepalive_expired, server_disconnected))]

    # ------------------------------------------------------------------ aclose
    @reg.contract
    class Close(Contract):
        key = H11 + ".aclose"
        props = ("C06", "C01", "C05", "C07", "C08")
        modifies = ("H11._state", "NS.open")
        raises = ["Cancelled"]
        call_raises = []

        def ensures(self, c):
            s = c.self
            stream = c.new(s, "H11._network_stream")
            return [
                ("state_closed", ("C01", "C05", "C06", "C07", "C08"), F(c, s, "H11._state") == CLOSED),
                ("stream_closed", ("C06",), z3.Not(F(c, stream, "NS.open"))),
            ]

        def exc_ensures(self, c, exc):
            # cancelled while closing: the state flag and the close were issued before the await
            return self.ensures(c)

        def checks(self, c):
            # the CLOSED flag must flip before the first suspension point (the pool relies on it
            # to re-queue a request that was handed this connection in the same pass)
            ok = True
            seen_write = False
            for e in c.trace:
                if e.name == "field.write" and e.data["key"] == "H11._state":
                    seen_write = True
                if e.name == "suspend" and not seen_write:
                    ok = False
            return [("closed_flag_before_first_await", ("C01", "C05", "C07", "C08"), ok)]

        exc_checks = lambda self, c, exc: self.checks(c)  # noqa: E731

        def setup(self, c):
            # the post-state at return is proved for a caller that owns the exchange (or when none
            # is in flight); for any other caller the two obligations that matter are
            # closed_flag_before_first_await and stream_closed
            own(c.st, c.self)

    # ------------------------------------------------------------------ _response_closed
    @reg.contract
    class ResponseClosed(Contract):
        key = H11 + "._response_closed"
        props = ("C01", "C05", "C09", "C17", "C06", "C08")
        modifies = ("H11._state", "H11._expire_at", "H.our", "H.their", "NS.open")
        raises = ["Cancelled"]
        call_raises = []

        def setup(self, c):
            own(c.st, c.self)
            interest(c.st, F(c, c.self, "H11._network_stream"))

        def requires(self, c):
            # invariant of an exchange in flight: the gate cleared the expiry (obligation
            # starting_a_request_clears_expiry of handle_async_request)
            return [("no_expiry_while_active", c.new(c.self, "H11._expire_at").none)]

        def ensures(self, c):
            s = c.self
            h = c.new(s, "H11._h11_state")
            stream = c.new(s, "H11._network_stream")
            state = F(c, s, "H11._state")
            was_done = z3.And(F(c, h, "H.our", old=True) == H_DONE, F(c, h, "H.their", old=True) == H_DONE)
            exp = c.new(s, "H11._expire_at")
            ka = c.new(s, "H11._keepalive_expiry")
            out = [
                ("idle_or_closed", ("C01", "C05"), z3.Or(state == IDLE, state == CLOSED)),
                ("idle_only_if_both_done", ("C01", "C17"), z3.Implies(state == IDLE, was_done)),
                # from the property (C01 "completely finished in both directions", C09 "an idle connection the server has
                # already written to is never handed to a request"): requests are never pipelined, so a byte received beyond
                # the end of the response answers nothing - the connection must not go back to the pool with it in the
                # parser's buffer, where the next request would take it for its own response (design_probes/p33)
                ("idle_only_if_nothing_was_received_beyond_the_response", ("C01", "C09"), z3.Implies(state == IDLE, z3.Length(F(c, h, "H.trailing", old=True)) == 0)),
                ("idle_means_h11_recycled", ("C01",), z3.Implies(state == IDLE, z3.And(F(c, h, "H.our") == H_IDLE, F(c, h, "H.their") == H_IDLE))),
                ("not_done_means_closed", ("C01", "C17", "C06"), z3.Implies(z3.Not(was_done), z3.And(state == CLOSED, z3.Not(F(c, stream, "NS.open"))))),
                ("expiry_armed_iff_configured", ("C09",), z3.Implies(state == IDLE, exp.none == ka.none)),
            ]
            return out

        def checks(self, c):
            s = c.self
            state = F(c, s, "H11._state")
            exp = c.new(s, "H11._expire_at")
            ka = c.new(s, "H11._keepalive_expiry")
            nows = c.events("time.monotonic")
            goal = True
            if nows:
                now = nows[-1].data["value"].t
                goal = z3.Implies(z3.And(state == IDLE, z3.Not(ka.none)), z3.And(z3.Not(exp.none), exp.val.t == now + ka.val.t))
            else:
                goal = z3.Implies(z3.And(state == IDLE, z3.Not(ka.none)), False)
            return [("expiry_is_now_plus_keepalive", ("C09",), goal)]

        def exc_ensures(self, c, exc):
            return []

        def on_field_write(self, c, obj, key, v, node):
            lid = lock_id(c.new(c.self, "H11._state_lock"))
            if key == "H11._state":
                return [("state_written_under_state_lock", ("C08", "C01"), lid in c.st.held)]
            if key == "H11._expire_at":
                # C08 / C09: the gate clears the expiry under the state lock when it turns the connection ACTIVE; arming it
                # outside the lock can arm it on a connection another thread has already taken (seed C08-w5-2)
                return [("expiry_armed_under_the_state_lock", ("C08", "C09"), lid in c.st.held)]
            return []

        def callsite(self, c, ev):
            if ev.name == "h11.start_next_cycle":
                # the connection is published as IDLE only together with a recycled h11 state machine: both inside the region the
                # gate of handle_request locks (another thread admitted in between finds h11 still DONE: LocalProtocolError)
                lid = lock_id(c.new(c.self, "H11._state_lock"))
                return [("h11_is_recycled_under_the_state_lock_that_publishes_idle", ("C08", "C01"), lid in c.st.held)]
            return []

    # ------------------------------------------------------------------ _send_event
    @reg.contract
    class SendEvent(Contract):
        key = H11 + "._send_event"
        props = ("C03", "C16", "C15")
        params = {"timeout": "val", "event": "ref:" + EV}
        modifies = ("NS.written", "H.our", "H.wire")
        raises = NET_WRITE_RAISES + [LPE, "Cancelled"]
        raises_props = ("C15",)

        def ensures(self, c):
            stream = c.new(c.self, "H11._network_stream")
            w0 = F(c, stream, "NS.written", old=True)
            w1 = F(c, stream, "NS.written")
            return [("writes_exactly_the_event", ("C03",), w1 == z3.Concat(w0, h11_wire(c.args["event"].t)))]

        def exc_ensures(self, c, exc):
            stream = c.new(c.self, "H11._network_stream")
            w0 = F(c, stream, "NS.written", old=True)
            w1 = F(c, stream, "NS.written")
            if exc.cls in ("h11.LocalProtocolError", LPE):
                return [("rejected_event_writes_nothing", ("C03",), w1 == w0)]
            return []

        def callsite(self, c, ev):
            if ev.name == "h11.send":
                return [
                    ("sends_given_event", ("C03",), ev.data["event"].t == c.args["event"].t),
                    ("on_own_h11_state", ("C03",), ev.data["conn"].t == F(c, c.self, "H11._h11_state")),
                ]
            if ev.name == "net.write":
                sends = c.events("h11.send")
                ok = len(sends) == 1 and "result" in sends[0].data
                return [
                    ("writes_h11_output", ("C03",), ev.data["buffer"].t == sends[0].data["result"].t if ok else False),
                    ("write_timeout_passed", ("C16",), ev.data["timeout"].t == c.eng.to_val(c.st, c.args["timeout"]).t),
                    ("on_own_stream", ("C03",), ev.data["stream"].t == F(c, c.self, "H11._network_stream")),
                ]
            return []

        def checks(self, c):
            return [
                ("one_send_one_write", ("C03",), len(c.events("h11.send")) == 1 and len(c.events("net.write")) == 1),
            ]

    # ------------------------------------------------------------------ _send_request_headers
    @reg.contract
    class SendRequestHeaders(Contract):
        key = H11 + "._send_request_headers"
        props = ("C03", "C16", "C15")
        modifies = ("NS.written", "H.our", "H.wire")
        raises = NET_WRITE_RAISES + [LPE, "Cancelled"]
        raises_props = ("C15",)

        def exc_ensures(self, c, exc):
            stream = c.new(c.self, "H11._network_stream")
            if exc.cls == LPE:
                return [("rejected_head_writes_nothing", ("C03",), F(c, stream, "NS.written") == F(c, stream, "NS.written", old=True))]
            return []

        def callsite(self, c, ev):
            req = c.args["request"]
            if ev.name == "h11.Request":
                url = c.new(req, "Request.url")
                d = ev.data
                e = c.eng
                return [
                    ("method_is_request_method", ("C03",), e.coerce(c.st, d["method"], "bytes").t == F(c, req, "Request.method")),
                    ("target_is_url_target", ("C03",), e.coerce(c.st, d["target"], "bytes").t == F(c, url, "URL.target")),
                    ("headers_are_request_headers", ("C03",), e.coerce(c.st, d["headers"], "seq:hdr").t == F(c, req, "Request.headers")),
                ]
            if ev.name == "call:" + H11 + "._send_event":
                reqs = [x for x in c.events("h11.Request") if "result" in x.data]
                a = ev.data["args"]
                kwt = ev.data["kwargs"].get("timeout", a[1] if len(a) > 1 else NONE)
                return [
                    ("sends_the_request_event", ("C03",), a[0].t == reqs[-1].data["result"].t if reqs and a else False),
                    ("write_timeout", ("C16",), c.eng.to_val(c.st, kwt).t == timeout_of(req_ext(c, req), "write")),
                ]
            return []

        def checks(self, c):
            return [("exactly_one_event_sent", ("C03",), len(c.events("call:" + H11 + "._send_event")) == 1)]

        def exc_checks(self, c, exc):
            if exc.cls == LPE:
                # stated over the wire (NS.written), not over which helper ran: h11 may also reject the event in send()
                stream = c.new(c.self, "H11._network_stream")
                return [("nothing_sent_when_head_rejected", ("C03",), F(c, stream, "NS.written") == F(c, stream, "NS.written", old=True))]
            return []

    # ------------------------------------------------------------------ _send_request_body
    @reg.contract
    class SendRequestBody(Contract):
        key = H11 + "._send_request_body"
        props = ("C03", "C16", "C15")
        modifies = ("NS.written", "H.our", "H.wire")
        raises = NET_WRITE_RAISES + [LPE, "Cancelled"]
        raises_props = ("C15",)

        def requires(self, c):
            # the body stream is iterable in this tree's flavour (API precondition)
            f = z3.Function("isinst_typing_AsyncIterable", ValS, BoolS)
            g = z3.Function("isinst_typing_Iterable", ValS, BoolS)
            v = F(c, c.args["request"], "Request.stream")
            return [("body_is_iterable", z3.And(f(v), g(v)))]

        def callsite(self, c, ev):
            req = c.args["request"]
            out = []
            if ev.name == "h11.Data":
                chunks = c.since_cut({"iter.next"})
                ok = len(chunks) >= 1
                out.append(("data_event_carries_the_chunk", ("C03",), c.eng.coerce(c.st, ev.data["data"], "bytes").t == chunks[-1].data["value"].t if ok else False))
            if ev.name == "call:" + H11 + "._send_event":
                a = ev.data["args"]
                kwt = ev.data["kwargs"].get("timeout", a[1] if len(a) > 1 else NONE)
                out.append(("write_timeout", ("C16",), c.eng.to_val(c.st, kwt).t == timeout_of(req_ext(c, req), "write")))
            if ev.name == "iter.next":
                out.append(("iterates_request_stream", ("C03",), ev.data["source"].t == F(c, req, "Request.stream")))
            return out

        def on_back_edge(self, c, ordinal):
            evs = c.since_cut({"iter.next", "h11.Data", "call:" + H11 + "._send_event"})
            names = [e.name for e in evs]
            shape = names == ["iter.next", "h11.Data", "call:" + H11 + "._send_event"]
            same = False
            if shape:
                same = evs[2].data["args"][0].t == evs[1].data["result"].t
            return [
                ("one_data_event_per_chunk_in_order", ("C03",), shape),
                ("the_data_event_is_sent", ("C03",), same),
            ]

        def checks(self, c):
            evs = c.since_cut({"iter.next", "h11.Data", "h11.EndOfMessage", "call:" + H11 + "._send_event"})
            names = [e.name for e in evs]
            shape = names == ["h11.EndOfMessage", "call:" + H11 + "._send_event"]
            same = shape and evs[1].data["args"][0].t == evs[0].data["result"].t
            return [("ends_with_exactly_one_end_of_message", ("C03",), bool(shape)), ("end_of_message_is_sent", ("C03",), same if shape else False)]

    # ------------------------------------------------------------------ _receive_event
    @reg.contract
    class ReceiveEvent(Contract):
        key = H11 + "._receive_event"
        props = ("C02", "C15", "C16", "C14")
        params = {"timeout": "val"}
        result_kind = "ref:" + EV
        modifies = ("NS.pending", "H.their", "H.fed", "H.eof", "H.trailing")
        raises = NET_READ_RAISES + [RPE, "Cancelled"]
        raises_props = ("C15", "C14")

        def ensures(self, c):
            r = c.result
            return [
                ("never_returns_need_data", ("C02",), r.t != NEED_DATA_REF),
                ("returns_an_event", ("C02",), z3.Or(r.t > 0, r.t == PAUSED_REF)),
            ]

        def result_builder(self, c):
            # at call sites: the event the state machine produced, with the peer-state facts
            from .ext_h11 import register as _r  # noqa: F401

            eng, st = c.eng, c.st
            r = c.result
            t = typ(r.t)
            kinds = ["h11.PAUSED", "h11.InformationalResponse", "h11.Response", "h11.Data", "h11.EndOfMessage", "h11.ConnectionClosed"]
            eng.assume(st, z3.Or(*[t == cid(k) for k in kinds]))
            eng.assume(st, (t == cid("h11.PAUSED")) == (r.t == PAUSED_REF))
            status = eng.heap_read(st, r, "Ev.status_code")
            eng.assume(st, z3.Implies(t == cid("h11.InformationalResponse"), z3.And(status.t >= 100, status.t < 200)))
            eng.assume(st, z3.Implies(t == cid("h11.Response"), z3.And(status.t >= 200, status.t < 1000)))
            c.interp.emit(st, "H11._receive_event.result", None, result=r)
            return r

        def callsite(self, c, ev):
            s = c.self
            if ev.name == "net.read":
                return [
                    ("read_timeout_passed", ("C16",), ev.data["timeout"].t == c.eng.to_val(c.st, c.args["timeout"]).t),
                    ("reads_own_stream", ("C02",), ev.data["stream"].t == F(c, s, "H11._network_stream")),
                ]
            if ev.name == "h11.receive_data":
                reads = c.since_cut({"net.read"})
                ok = len(reads) == 1 and "result" in reads[0].data
                data = ev.data["data"].t
                return [
                    ("feeds_exactly_what_was_read", ("C02",), data == reads[0].data["result"].t if ok else False),
                    (
                        "eof_before_response_is_not_fed",
                        ("C02", "C15"),
                        z3.Not(z3.And(z3.Length(data) == 0, ev.data["their"].t == H_SEND_RESPONSE)),
                    ),
                ]
            return []

        def on_back_edge(self, c, ordinal):
            # an iteration that goes round again read once and fed once
            evs = [e.name for e in c.since_cut({"net.read", "h11.receive_data", "h11.next_event"})]
            return [("iteration_is_next_read_feed", ("C02",), evs == ["h11.next_event", "net.read", "h11.receive_data"])]

        def checks(self, c):
            nx = c.since_cut({"h11.next_event"})
            rd = c.since_cut({"net.read", "h11.receive_data"})
            ok = len(nx) == 1 and "result" in nx[0].data
            return [
                ("returns_what_h11_returned", ("C02",), c.result.t == nx[0].data["result"].t if ok else False),
                ("returns_without_unfed_read", ("C02",), len(rd) == 0),
            ]

        def exc_checks(self, c, exc):
            out = []
            if exc.cls == RPE and not exc.tag.get("mapped_from"):
                # the explicit "Server disconnected" error: only for b"" while a response head is awaited
                reads = c.since_cut({"net.read"})
                ok = len(reads) == 1 and "result" in reads[0].data
                h = c.new(c.self, "H11._h11_state")
                out.append(("disconnect_error_only_on_eof_before_response", ("C02", "C15"),
                            z3.And(z3.Length(reads[0].data["result"].t) == 0, F(c, h, "H.their") == H_SEND_RESPONSE) if ok else False))
            return out

    # ------------------------------------------------------------------ _receive_response_headers
    @reg.contract
    class ReceiveResponseHeaders(Contract):
        key = H11 + "._receive_response_headers"
        props = ("C02", "C16", "C17", "C15", "C01", "C14")
        modifies = ("NS.pending", "H.their", "H.fed", "H.eof", "H.trailing")
        raises = NET_READ_RAISES + [RPE, "Cancelled"]
        raises_props = ("C15", "C14")

        def head_facts(self, c, event, res):
            """res: VTuple (http_version, status, reason, headers, trailing)"""
            e = c.eng
            st = c.st
            t = typ(event)
            status = F(c, VRef(event, EV), "Ev.status_code")
            h = c.new(c.self, "H11._h11_state")
            items = res.items
            return [
                ("final_head_or_101", ("C02", "C01"), z3.Or(t == cid("h11.Response"), z3.And(t == cid("h11.InformationalResponse"), status == 101))),
                ("status_is_event_status", ("C02",), e.coerce(st, items[1], "int").t == status),
                ("version_is_event_version", ("C02",), e.coerce(st, items[0], "bytes").t == z3.Concat(bytes_lit(b"HTTP/"), F(c, VRef(event, EV), "Ev.http_version"))),
                ("reason_is_event_reason", ("C02",), e.coerce(st, items[2], "bytes").t == F(c, VRef(event, EV), "Ev.reason")),
                ("headers_are_raw_items", ("C02",), e.coerce(st, items[3], "seq:hdr").t == F(c, VRef(event, EV), "Ev.raw_headers")),
                ("trailing_data_captured_with_head", ("C17",), e.coerce(st, items[4], "bytes").t == F(c, h, "H.trailing")),
            ]

        def checks(self, c):
            res = c.eng.unbox(c.st, c.result)
            evs = c.since_cut({"H11._receive_event.result"})
            if not (isinstance(res, VTuple) and len(res.items) == 5 and len(evs) == 1):
                return [("returns_five_tuple_of_last_event", ("C02",), False)]
            return self.head_facts(c, evs[0].data["result"].t, res)

        def callsite(self, c, ev):
            if ev.name == "call:" + H11 + "._receive_event":
                a = ev.data["args"]
                kwt = ev.data["kwargs"].get("timeout", a[0] if a else NONE)
                return [("read_timeout", ("C16",), c.eng.to_val(c.st, kwt).t == timeout_of(req_ext(c, c.args["request"]), "read"))]
            return []

        def on_back_edge(self, c, ordinal):
            # an event that is skipped is an interim 1xx other than 101 (never a final response)
            evs = c.since_cut({"H11._receive_event.result"})
            if len(evs) != 1:
                return [("skips_one_event_per_iteration", ("C02",), False)]
            ev = evs[0].data["result"].t
            t = typ(ev)
            status = F(c, VRef(ev, EV), "Ev.status_code")
            return [
                ("skipped_event_is_not_a_final_head", ("C02", "C01"), z3.And(t != cid("h11.Response"), z3.Not(z3.And(t == cid("h11.InformationalResponse"), status == 101)))),
            ]

        # modular result: fresh values tied together by a ghost "head event"
        def apply(self, it, st, self_v, args, kwargs, node):
            eng = it.eng
            from pyvc.engine import Ctx, PyRaise

            req = kwargs.get("request", args[0] if args else None)
            it.suspend(st, f"call:_receive_response_headers@{node.lineno}")
            raises = [r for r in self.raises if not (r == "Cancelled" and (eng.tree != "async" or st.shield > 0))]
            names = ["returns"] + [r.rsplit(".", 1)[-1] for r in raises]
            k = eng.choose(st, len(names), f"call:_receive_response_headers@{node.lineno}", names)
            eng.havoc_heap(st, keys=set(self.modifies), keep_local=False)
            if k > 0:
                eng.raise_(st, raises[k - 1], tag={"from": "_receive_response_headers"})
            e = eng.fresh(st, "ref:" + EV, "head")
            eng.assume(st, e.t > 0)
            t = typ(e.t)
            status = eng.heap_read(st, e, "Ev.status_code")
            eng.assume(st, z3.Or(z3.And(t == cid("h11.Response"), status.t >= 200, status.t < 1000), z3.And(t == cid("h11.InformationalResponse"), status.t == 101)))
            h = eng.heap_read(st, self_v, "H11._h11_state")
            ver = VBytes(z3.Concat(bytes_lit(b"HTTP/"), eng.heap_read(st, e, "Ev.http_version").t))
            res = VTuple([ver, status, eng.heap_read(st, e, "Ev.reason"), eng.heap_read(st, e, "Ev.raw_headers"), eng.heap_read(st, h, "H.trailing")])
            # h11: a 101 switches the protocol
            their = eng.heap_read(st, h, "H.their")
            eng.assume(st, z3.Implies(status.t == 101, their.t == H_SWITCHED))
            it.emit(st, "H11.head", node, event=e, result=res)
            return res

    # ------------------------------------------------------------------ _receive_response_body (generator)
    @reg.contract
    class ReceiveResponseBody(GeneratorContract):
        key = H11 + "._receive_response_body"
        modifies = ("NS.pending", "H.their", "H.fed", "H.eof", "H.trailing")
        props = ("C02", "C16", "C15", "C14")
        raises = NET_READ_RAISES + [RPE, "Cancelled", "GeneratorExit"]
        raises_props = ("C15", "C14")

        def callsite(self, c, ev):
            if ev.name == "call:" + H11 + "._receive_event":
                a = ev.data["args"]
                kwt = ev.data["kwargs"].get("timeout", a[0] if a else NONE)
                return [("read_timeout", ("C16",), c.eng.to_val(c.st, kwt).t == timeout_of(req_ext(c, c.args["request"]), "read"))]
            return []

        def on_yield(self, c, v, node):
            evs = c.since_cut({"H11._receive_event.result", "yield"})
            ok = len(evs) == 2 and evs[0].name == "H11._receive_event.result"
            goals = [("yields_once_per_event", ("C02",), ok)]
            if ok:
                e = evs[0].data["result"]
                goals.append(("yields_only_data_events", ("C02",), typ(e.t) == cid("h11.Data")))
                goals.append(("yields_the_event_data", ("C02",), c.eng.coerce(c.st, v, "bytes").t == F(c, e, "Ev.data")))
            for label, props, goal in goals:
                c.eng.oblige(c.st, label, goal, props=props, kind="call-pre")

        def on_back_edge(self, c, ordinal):
            evs = c.since_cut({"H11._receive_event.result", "yield"})
            if not evs or evs[0].name != "H11._receive_event.result":
                return [("one_event_per_iteration", ("C02",), False)]
            e = evs[0].data["result"]
            yielded = len(evs) == 2 and evs[1].name == "yield"
            t = typ(e.t)
            return [
                ("every_data_event_is_yielded", ("C02",), z3.Implies(t == cid("h11.Data"), yielded)),
                # going round again after PAUSED polls the parser for ever without reading (C15: never hangs)
                ("body_continues_only_before_end", ("C02", "C15"), z3.And(t != cid("h11.EndOfMessage"), t != cid("h11.PAUSED"))),
            ]

        def checks(self, c):
            evs = c.since_cut({"H11._receive_event.result", "yield"})
            ok = len(evs) == 1 and evs[0].name == "H11._receive_event.result"
            if not ok:
                return [("ends_after_an_event", ("C02",), False)]
            t = typ(evs[0].data["result"].t)
            return [("body_ends_only_on_end_of_message_or_paused", ("C02",), z3.Or(t == cid("h11.EndOfMessage"), t == cid("h11.PAUSED")))]

    # ------------------------------------------------------------------ handle_async_request
    @reg.contract
    class HandleRequest(Contract):
        key = H11 + ".handle_async_request"
        props = ("C01", "C03", "C05", "C14", "C15", "C16", "C17", "C09", "C10", "C08")
        # documented classes only; WriteError cannot escape (it is swallowed while sending)
        raises = NET_READ_RAISES + [EXC + "WriteTimeout", CNA, LPE, RPE, "RuntimeError", "Cancelled"]
        raises_props = ("C15",)
        max_paths = 20000

        def setup(self, c):
            interest(c.st, F(c, c.self, "H11._network_stream"))

        def requires(self, c):
            from .m_models import default_port_of, DEFAULT_PORT_TABLE

            req = c.args["request"]
            v = F(c, req, "Request.stream")
            f = z3.Function("isinst_typing_AsyncIterable", ValS, BoolS)
            g = z3.Function("isinst_typing_Iterable", ValS, BoolS)
            known, _ = default_port_of(F(c, c.new(req, "Request.url"), "URL.scheme"), DEFAULT_PORT_TABLE)
            return [
                ("body_is_iterable", z3.And(f(v), g(v))),  # API precondition (Request() guarantees it)
                ("scheme_supported", known),  # guaranteed by the pool's UnsupportedProtocol guard
            ]

        def on_field_write(self, c, obj, key, v, node):
            out = []
            if key == "H11._state":
                # the ACTIVE gate
                reads = [i for i, e in enumerate(c.trace) if e.name == "field.read" and e.data["key"] == "H11._state"]
                susp = [i for i, e in enumerate(c.trace) if e.name == "suspend"]
                last_read = reads[-1] if reads else -1
                atomic = bool(reads) and not any(i > last_read for i in susp)
                st0 = c.st.ghost.get("state_at_gate")
                lid = lock_id(c.new(c.self, "H11._state_lock"))
                out.append(("gate_is_atomic_test_and_set", ("C01",), atomic))
                out.append(("gate_sets_active", ("C01",), c.eng.coerce(c.st, v, "int").t == ACTIVE))
                out.append(("gate_only_from_new_or_idle", ("C01",), z3.Or(F(c, obj, "H11._state") == NEW, F(c, obj, "H11._state") == IDLE)))
                out.append(("gate_under_state_lock", ("C08", "C01"), lid in c.st.held))
                own(c.st, obj)
            if key == "H11._expire_at":
                out.append(("starting_a_request_clears_expiry", ("C09",), c.eng.z_bool(c.eng.is_none(c.st, v))))
            return out

        def callsite(self, c, ev):
            req = c.args["request"]
            out = []
            for callee in ("_send_request_headers", "_send_request_body", "_receive_response_headers"):
                if ev.name == "call:" + H11 + "." + callee:
                    a = ev.data["args"]
                    r = ev.data["kwargs"].get("request", a[0] if a else None)
                    out.append((f"{callee}_gets_the_request", ("C03", "C01", "C16"), r.t == req.t if r is not None else False))
                    out.append((f"{callee}_after_gate", ("C01", "C14"), any(z3.eq(x, c.self.t) for x in owned(c.st))))
            return out

        def checks(self, c):
            s = c.self
            req = c.args["request"]
            res = c.result
            out = []
            heads = c.events("H11.head")
            if not (isinstance(res, VRef) and len(heads) == 1):
                return [("returns_a_response_built_from_one_head", ("C01", "C02"), False)]
            head = heads[0].data["result"].items
            status = c.eng.coerce(c.st, head[1], "int").t
            out.append(("response_status_is_head_status", ("C01", "C02"), F(c, res, "Response.status") == status))
            out.append(("response_headers_are_head_headers", ("C01", "C02"), F(c, res, "Response.headers") == head[3].t))
            ext = c.eng.unbox(c.st, c.new(res, "Response.extensions"))
            ok_ext = isinstance(ext, VDict) and {"http_version", "reason_phrase", "network_stream"} <= set(ext.items)
            out.append(("response_extensions_present", ("C02", "C17"), ok_ext))
            if ok_ext:
                out.append(("http_version_from_head", ("C02",), c.eng.coerce(c.st, ext.items["http_version"], "bytes").t == head[0].t))
                out.append(("reason_from_head", ("C02",), c.eng.coerce(c.st, ext.items["reason_phrase"], "bytes").t == head[2].t))
                ns = ext.items["network_stream"]
                method = F(c, req, "Request.method")
                should_wrap = z3.Or(status == 101, z3.And(method == bytes_lit(b"CONNECT"), status >= 200, status < 300))
                raw = F(c, s, "H11._network_stream")
                is_wrapped = z3.And(typ(ns.t) == cid(US), F(c, ns, "US._stream") == raw, F(c, ns, "US._leading_data") == c.eng.coerce(c.st, head[4], "bytes").t)
                out.append(("upgrade_stream_iff_101_or_connect_2xx", ("C17",), z3.If(should_wrap, is_wrapped, ns.t == raw)))
            inits = c.events("call:" + BS + ".__init__")
            ok_body = len(inits) == 1
            body = inits[0].data["self"] if ok_body else None
            out.append(("body_is_this_connections_stream", ("C01", "C02"), F(c, res, "Response.stream") == val_of_ref(body.t) if ok_body else False))
            if ok_body:
                out.append(("body_stream_bound_to_connection_and_request", ("C01",), z3.And(F(c, body, "BS._connection") == s.t, F(c, body, "BS._request") == req.t, z3.Not(F(c, body, "BS._closed")))))
            out.append(("returns_while_exchange_open", ("C01", "C05"), z3.Or(F(c, s, "H11._state") == ACTIVE, F(c, s, "H11._state") == CLOSED)))
            order = [e.name.rsplit(".", 1)[-1] for e in c.trace if e.name.startswith("call:" + H11 + ".") and e.name.rsplit(".", 1)[-1] in EXCHANGE_STEPS]
            out.append(("sends_head_then_body_then_reads_head", ("C03", "C01"), order in (["_send_request_headers", "_send_request_body", "_receive_response_headers"], ["_send_request_headers", "_receive_response_headers"])))
            return out

        def exc_checks(self, c, exc):
            s = c.self
            out = []
            calls = [e for e in c.trace if e.name.startswith("call:" + H11 + ".") and e.name.rsplit(".", 1)[-1] in EXCHANGE_STEPS]
            names = [e.name.rsplit(".", 1)[-1] for e in calls]
            at_gate = not any(z3.eq(x, s.t) for x in owned(c.st)) and "_response_closed" not in names
            if exc.cls == CNA:
                out.append(("cna_only_at_the_gate", ("C14", "C01"), at_gate and not names))
                out.append(("cna_leaves_connection_untouched", ("C14", "C01"), at_gate and not c.events("field.write")))
                out.append(("cna_means_nothing_written", ("C14",), len(c.events("net.write")) == 0 and "_send_request_headers" not in names))
            elif exc.cls == "RuntimeError":
                o = c.new(s, "H11._origin")
                url = c.new(c.args["request"], "Request.url")
                out.append(("wrong_origin_guard_touches_nothing", ("C10",), not names and not c.events("field.write")))
            elif at_gate and not names:
                # cancelled while waiting for the state lock: nothing happened
                out.append(("failure_before_gate_touches_nothing", ("C05",), not c.events("field.write")))
                # from the property (C05): whatever way the call ends, the connection is busy with another request,
                # idle, or closed.  NEW is none of these: is_available/is_idle/is_closed/has_expired are all False,
                # so a connection left NEW can neither serve, expire nor be evicted
                out.append(("cancelled_first_request_does_not_leave_the_connection_new", ("C05", "C07"), F(c, s, "H11._state") != NEW))
            else:
                out.append(("failed_exchange_is_closed_exactly_once", ("C05", "C01"), names.count("_response_closed") == 1 and names[-1] == "_response_closed"))
                out.append(("failed_exchange_leaves_idle_or_closed", ("C05",), z3.Or(F(c, s, "H11._state") == IDLE, F(c, s, "H11._state") == CLOSED)))
                rc = [e for e in c.trace if e.name == "call:" + H11 + "._response_closed"]
                out.append(("cleanup_is_shielded", ("C05",), all(e.data.get("shield", 0) > 0 for e in rc) if c.eng.tree == "async" else True))
            if exc.cls in (EXC + "WriteError",):
                out.append(("write_error_during_send_is_not_raised", ("C14",), False))
            return out

    # record shield depth on call events for the check above
    def _call_shield_hook(it, st, obj, key, v, node):
        pass

    # ------------------------------------------------------------------ byte stream
    @reg.contract
    class BSInit(Contract):
        key = BS + ".__init__"
        props = ("C01",)

        def ensures(self, c):
            s = c.self
            return [
                ("binds_connection", ("C01",), F(c, s, "BS._connection") == c.args["connection"].t),
                ("binds_request", ("C01",), F(c, s, "BS._request") == c.args["request"].t),
                ("starts_open", ("C01",), z3.Not(F(c, s, "BS._closed"))),
            ]

        def apply(self, it, st, self_v, args, kwargs, node):
            eng = it.eng
            a = dict(zip(["connection", "request"], args))
            a.update(kwargs)
            eng.heap_write(st, self_v, "BS._connection", a["connection"])
            eng.heap_write(st, self_v, "BS._request", a["request"])
            eng.heap_write(st, self_v, "BS._closed", VBool(False))
            return NONE

    @reg.contract
    class BSClose(Contract):
        key = BS + ".aclose"
        props = ("C01", "C05")
        modifies = ("BS._closed", "H11._state", "H11._expire_at", "H.our", "H.their", "NS.open")
        raises = ["Cancelled"]
        call_raises = []

        def setup(self, c):
            conn = c.new(c.self, "BS._connection")
            c.eng.assume(c.st, conn.t > 0)
            # while the body stream is open its connection's exchange is in flight: this flow owns it
            # and the in-flight invariant (expiry cleared by the gate) holds
            closed = c.new(c.self, "BS._closed").t
            c.eng.assume(c.st, z3.Implies(z3.Not(closed), c.new(conn, "H11._expire_at").none))
            own(c.st, conn)

        def ensures(self, c):
            return [("marks_closed", ("C01", "C05"), F(c, c.self, "BS._closed"))]

        def checks(self, c):
            calls = [e for e in c.trace if e.name == "call:" + H11 + "._response_closed"]
            was_closed = F(c, c.self, "BS._closed", old=True)
            conn = c.new(c.self, "BS._connection")
            n = len(calls)
            on_conn = all(z3.eq(z3.simplify(e.data["self"].t), z3.simplify(conn.t)) for e in calls)
            return [
                ("response_closed_exactly_once", ("C01", "C05"), z3.If(was_closed, z3.BoolVal(n == 0), z3.BoolVal(n == 1))),
                ("closes_its_own_connection", ("C01",), on_conn),
            ]

    @reg.contract
    class BSIter(Contract):
        key = BS + ".__aiter__"
        props = ("C01", "C02", "C05", "C15", "C14")
        raises = NET_READ_RAISES + [RPE, "Cancelled", "GeneratorExit"]
        raises_props = ("C15", "C14")

        def setup(self, c):
            conn = c.new(c.self, "BS._connection")
            c.eng.assume(c.st, conn.t > 0)

        def on_yield(self, c, v, node):
            evs = c.since_cut({"iter.item", "yield"})
            ok = len(evs) == 2 and evs[0].name == "iter.item"
            goal = c.eng.coerce(c.st, v, "bytes").t == evs[0].data["value"].t if ok else False
            c.eng.oblige(c.st, "yields_exactly_the_inner_chunk", goal, props=("C02",), kind="call-pre")

        def on_back_edge(self, c, ordinal):
            evs = [e.name for e in c.since_cut({"iter.item", "yield"})]
            return [("every_inner_chunk_is_yielded_once", ("C02",), evs == ["iter.item", "yield"])]

        def callsite(self, c, ev):
            if ev.name == "call:" + H11 + "._receive_response_body":
                conn = c.new(c.self, "BS._connection")
                a = ev.data["args"]
                r = ev.data["kwargs"].get("request", a[0] if a else None)
                return [
                    ("reads_body_of_own_connection", ("C01",), ev.data["self"].t == conn.t),
                    ("reads_body_for_own_request", ("C01", "C16"), r.t == F(c, c.self, "BS._request") if r is not None else False),
                ]
            return []

        def checks(self, c):
            # C02 ("never a silently shorter body"): the iterator may end normally only because the connection's own body
            # generator ended (EndOfMessage) - never because of a flag test of its own (seed C02-w5-2: `if self._closed: return`
            # turned reading a closed response into an empty body)
            ended = [e for e in c.trace if e.name == "iter.exhausted"]
            return [("ends_normally_only_after_the_connections_body_generator_ended", ("C02", "C01"), len(ended) == 1)]

        def exc_checks(self, c, exc):
            calls = [e for e in c.trace if e.name == "call:" + BS + ".aclose"]
            return [
                ("failure_or_early_exit_closes_the_response", ("C05", "C01"), len(calls) == 1),
                ("cleanup_is_shielded", ("C05",), all(e.data.get("shield", 0) > 0 for e in calls) if c.eng.tree == "async" else True),
            ]
