"""Assumed contracts (A-runtime): locks, semaphores, events, shields, Trace, map_exceptions,
time.monotonic, ssl context helpers.  All trusted; listed in the evidence."""
from __future__ import annotations

import z3

from pyvc.values import *  # noqa: F401,F403
from pyvc.engine import Unsupported, PyRaise, Event
from pyvc.registry import CtxHandler
from pyvc.interp import VCtx

SYN = "httpcore._synchronization."
LOCK = SYN + "AsyncLock"
TLOCK = SYN + "AsyncThreadLock"
EVENT = SYN + "AsyncEvent"
SEM = SYN + "AsyncSemaphore"
SHIELD = SYN + "AsyncShieldCancellation"
TRACE = "httpcore._trace.Trace"


_LOCK_NAMES: dict = {}


def lock_id(ref) -> str:
    """stable (per process) name of a lock object: id of the simplified reference term"""
    t = z3.simplify(ref.t)
    i = t.get_id()
    n = _LOCK_NAMES.get(i)
    if n is None:
        n = _LOCK_NAMES[i] = str(t)
    return n


class LockCtx(CtxHandler):
    def __init__(self, it, st, ref, blocking=True):
        self.ref = ref
        self.blocking = blocking

    def enter(self, it, st):
        lid = lock_id(self.ref)
        it.emit(st, "lock.acquire", None, lock=self.ref, lid=lid, held=list(st.held))
        if self.blocking:
            # acquiring may wait: suspension point; a cancelled acquire does not take the lock
            it.suspend(st, f"lock.acquire:{lid}")
        st.held.append(lid)
        return self.ref

    def exit(self, it, st, exc):
        lid = lock_id(self.ref)
        if lid in st.held:
            st.held.remove(lid)
        it.emit(st, "lock.release", None, lock=self.ref, lid=lid)
        return False


class ThreadLockCtx(LockCtx):
    """AsyncThreadLock is a no-op under async (never suspends); ThreadLock is a real mutex in the
    sync tree.  Either way the region is atomic w.r.t. other users of the same lock."""

    def __init__(self, it, st, ref):
        super().__init__(it, st, ref, blocking=False)


class ShieldCtx(CtxHandler):
    def enter(self, it, st):
        st.shield += 1
        return NONE

    def exit(self, it, st, exc):
        st.shield -= 1
        return False


class MapExceptionsCtx(CtxHandler):
    def __init__(self, mapping):
        self.mapping = mapping  # list of (from_cls, to_cls)

    def exit(self, it, st, exc):
        if exc is None:
            return False
        eng = it.eng
        if not eng.classes.issub(exc.cls, "Exception"):
            return False
        for frm, to in self.mapping:
            if eng.classes.issub(exc.cls, frm):
                st.log.append(f"map_exceptions {exc.cls} -> {to}")
                raise PyRaise(VExc(to, [exc], cause=exc, tag={"mapped_from": exc.cls, **exc.tag}))
        return False


class SuppressCtx(CtxHandler):
    """contextlib.suppress(*classes): python semantics, nothing assumed"""

    def __init__(self, classes):
        self.classes = classes

    def exit(self, it, st, exc):
        return exc is not None and any(it.eng.classes.issub(exc.cls, k) for k in self.classes)


class TraceCtx(CtxHandler):
    """`async with Trace(...)`: the user's trace callback may run at entry and exit.  In the async
    tree that is a suspension point (the callback is awaited) whenever a trace extension is set;
    exceptions raised by a caller-supplied callback are excluded by precondition."""

    def __init__(self, it, st, ref):
        self.ref = ref

    def enter(self, it, st):
        name = it.eng.heap_read(st, self.ref, "Trace.name")
        it.emit(st, "trace.enter", None, trace=self.ref, trace_name=name)
        if getattr(self, "is_async", False):
            it.suspend(st, "trace.enter")
        return self.ref

    def exit(self, it, st, exc):
        it.emit(st, "trace.exit", None, trace=self.ref, exc=exc)
        if getattr(self, "is_async", False):
            it.suspend(st, "trace.exit")
        return False


def register(reg):
    for c in (LOCK, TLOCK, EVENT, SEM, SHIELD, TRACE):
        reg.ext_class(c)
    reg.trusted_notes.append(
        "A-runtime: AsyncLock/Lock give mutual exclusion, acquire is a suspension point and a cancelled acquire "
        "does not take the lock; AsyncThreadLock is a no-op; AsyncShieldCancellation blocks scope cancellation "
        "(known to be false for native asyncio Task.cancel(), recorded as a finding); Trace runs the caller's "
        "callback at entry/exit (suspension point in the async tree) and raises nothing of its own; "
        "map_exceptions re-raises the first matching mapped class for Exception subclasses only"
    )
    reg.fields(TRACE, "Trace", name="str", return_value="val")
    # handing a value to the trace callback does not make it shared state of the package
    reg.non_escaping_keys = set(getattr(reg, "non_escaping_keys", set())) | {"Trace.return_value"}
    reg.fields(SEM, "Sem", ghost=["permits", "bound"], shared=["permits"], permits="int", bound="int")
    reg.fields(EVENT, "Evt", ghost=["flag"], shared=["flag"], flag="bool")

    @reg.intrinsic(LOCK, TLOCK)
    def mk_lock(it, st, args, kwargs, node):
        # class chosen by the resolved name of the callee expression
        name = it.resolve_global_name(it.dotted(node.func))
        return it.eng.alloc(st, name, "lock")

    reg.ctx_by_class[LOCK] = lambda it, st, ref: LockCtx(it, st, ref)
    reg.ctx_by_class[TLOCK] = lambda it, st, ref: ThreadLockCtx(it, st, ref)

    @reg.intrinsic(SHIELD)
    def mk_shield(it, st, args, kwargs, node):
        return VCtx(ShieldCtx())

    @reg.intrinsic("httpcore._exceptions.map_exceptions")
    def map_exceptions(it, st, args, kwargs, node):
        m = it.eng.unbox(st, args[0] if args else kwargs["map"])
        if not isinstance(m, VDict):
            raise Unsupported(f"{it.site(node)}: map_exceptions with a non-literal mapping")
        mapping = []
        for k, v in m.items.items():
            if not (isinstance(k, tuple) and k[0] == "class" and isinstance(v, VClass)):
                raise Unsupported("map_exceptions mapping entries must be classes")
            mapping.append((k[1], v.name))
        return VCtx(MapExceptionsCtx(mapping))

    @reg.intrinsic("contextlib.suppress")
    def suppress(it, st, args, kwargs, node):
        if not all(isinstance(a, VClass) for a in args):
            raise Unsupported(f"{it.site(node)}: contextlib.suppress with non-class arguments")
        return VCtx(SuppressCtx([a.name for a in args]))

    @reg.intrinsic(TRACE)
    def mk_trace(it, st, args, kwargs, node):
        eng = it.eng
        t = eng.alloc(st, TRACE, "trace")
        name = args[0] if args else kwargs["name"]
        eng.heap_write(st, t, "Trace.name", eng.coerce(st, name, "str"))
        return t

    reg.ctx_by_class[TRACE] = lambda it, st, ref: TraceCtx(it, st, ref)

    # ---- event --------------------------------------------------------------------------
    @reg.intrinsic(EVENT)
    def mk_event(it, st, args, kwargs, node):
        e = it.eng.alloc(st, EVENT, "event")
        it.eng.heap_write(st, e, "Evt.flag", VBool(False))
        return e

    @reg.method(EVENT, "set")
    def ev_set(it, st, self_v, args, kwargs, node):
        it.emit(st, "event.set", node, event=self_v)
        it.eng.heap_write(st, self_v, "Evt.flag", VBool(True))
        return NONE

    @reg.method(EVENT, "wait")
    def ev_wait(it, st, self_v, args, kwargs, node):
        eng = it.eng
        timeout = eng.to_val(st, args[0] if args else kwargs.get("timeout", NONE))
        it.emit(st, "event.wait", node, event=self_v, timeout=timeout, held=list(st.held))
        it.suspend(st, f"event.wait@{node.lineno}")
        c = eng.choose(st, 2, f"event.wait@{node.lineno}", ["set", "PoolTimeout"])
        if c == 1:
            eng.raise_(st, "httpcore._exceptions.PoolTimeout", tag={"from": "event.wait"})
        eng.assume(st, eng.heap_read(st, self_v, "Evt.flag").t)
        h = getattr(it.contract, "after_event_wait", None)
        if h is not None and it.depth == 0:
            h(it.ctx, self_v)
        return NONE

    # ---- semaphore ------------------------------------------------------------------------
    @reg.intrinsic(SEM)
    def mk_sem(it, st, args, kwargs, node):
        eng = it.eng
        s = eng.alloc(st, SEM, "sem")
        b = eng.coerce(st, args[0] if args else kwargs["bound"], "int")
        eng.heap_write(st, s, "Sem.permits", b)
        eng.heap_write(st, s, "Sem.bound", b)
        return s

    @reg.method(SEM, "acquire")
    def sem_acquire(it, st, self_v, args, kwargs, node):
        eng = it.eng
        it.emit(st, "sem.acquire", node, sem=self_v, held=list(st.held), permits=eng.heap_read(st, self_v, "Sem.permits"))
        it.suspend(st, f"sem.acquire@{node.lineno}")
        p = eng.heap_read(st, self_v, "Sem.permits")
        eng.assume(st, p.t > 0)  # returns only once a permit is available
        eng.heap_write(st, self_v, "Sem.permits", VInt(p.t - 1))
        return NONE

    @reg.method(SEM, "release")
    def sem_release(it, st, self_v, args, kwargs, node):
        eng = it.eng
        p = eng.heap_read(st, self_v, "Sem.permits")
        b = eng.heap_read(st, self_v, "Sem.bound")
        it.emit(st, "sem.release", node, sem=self_v, permits=p, bound=b)
        eng.heap_write(st, self_v, "Sem.permits", VInt(p.t + 1))
        return NONE

    # ---- time -----------------------------------------------------------------------------
    @reg.intrinsic("time.monotonic")
    def monotonic(it, st, args, kwargs, node):
        eng = it.eng
        t = eng.fresh(st, "real", "now")
        prev = st.ghost.get("now")
        if prev is not None:
            eng.assume(st, t.t >= prev)
        st.ghost["now"] = t.t
        it.emit(st, "time.monotonic", node, value=t)
        return t

    @reg.intrinsic("time.sleep")
    def time_sleep(it, st, args, kwargs, node):
        it.emit(st, "time.sleep", node, seconds=args[0] if args else kwargs.get("secs", NONE))
        return NONE

    # ---- ssl helpers ------------------------------------------------------------------------
    @reg.intrinsic("httpcore._ssl.default_ssl_context")
    def default_ctx(it, st, args, kwargs, node):
        st.counter += 1
        v = VVal(z3.Const(f"default_ssl_ctx!{st.counter}", ValS))
        it.emit(st, "ssl.default_context", node, value=v)
        return v

    # logging
    reg.consts["logging.getLogger"] = VFunc("logging.getLogger")

    @reg.intrinsic("logging.getLogger")
    def get_logger(it, st, args, kwargs, node):
        return VVal(z3.Const("logger", ValS))

    # logging calls have no effect the properties talk about (DESIGN 2.2: payloads dropped)
    def log_noop(it, st, recv, args, kwargs, node):
        return NONE

    def log_enabled(it, st, recv, args, kwargs, node):
        st.counter += 1
        return VBool(z3.Bool(f"log_enabled!{st.counter}"))

    reg.val_methods = dict(getattr(reg, "val_methods", {}))
    for n in ("debug", "info", "warning", "error", "exception", "log"):
        reg.val_methods[n] = log_noop
    reg.val_methods["isEnabledFor"] = log_enabled
