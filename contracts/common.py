"""Shared sidecar declarations: builtin/external class table, the network stream and
backend interface contracts (assumed; A-runtime in DESIGN section 3), ghost fields.

Everything in this file that is `trusted` is an ASSUMED contract of code outside the
verified functions and is copied into the evidence's trusted_base when used.
"""
from __future__ import annotations

import z3

from pyvc.values import *  # noqa: F401,F403
from pyvc.engine import Unsupported, PyRaise, Event
from pyvc.registry import CtxHandler, IterHandler
from pyvc.interp import VCtx

NS = "httpcore._backends.base.AsyncNetworkStream"
NB = "httpcore._backends.base.AsyncNetworkBackend"
EXC = "httpcore._exceptions."

NET_READ_RAISES = [EXC + "ReadError", EXC + "ReadTimeout"]
NET_WRITE_RAISES = [EXC + "WriteError", EXC + "WriteTimeout"]
NET_CONNECT_RAISES = [EXC + "ConnectError", EXC + "ConnectTimeout"]
# representatives of "any other kind of failure" at the connect / TLS stage (a custom backend may raise them)
UNDOCUMENTED_CONNECT_FAILURES = [EXC + "ReadTimeout", "OtherException"]


def kw(args, kwargs, i, name, default=NONE):
    if len(args) > i:
        return args[i]
    return kwargs.get(name, default)


def outcome(it, st, label, raises, undocumented=()):
    """choose normal (0) or one of the exception classes; raise it if chosen.
    `undocumented`: representative classes outside the callee's documented contract; they are
    explored (so that "any other failure is not retried / not swallowed" obligations see them)
    but are assumed absent for the exception-type property (tag assumed_absent)."""
    allr = list(raises) + list(undocumented)
    names = ["ok"] + [r.rsplit(".", 1)[-1] for r in allr]
    c = it.eng.choose(st, len(names), label, names)
    if c > 0:
        tag = {"from": label}
        if c > len(raises):
            tag["assumed_absent"] = True
        it.eng.raise_(st, allr[c - 1], tag=tag)


def register(reg):
    # ---- builtin exception hierarchy -------------------------------------------------------
    reg.ext_class("BaseException")
    reg.ext_class("Exception", "BaseException")
    reg.ext_class("GeneratorExit", "BaseException")
    reg.ext_class("KeyboardInterrupt", "BaseException")
    # scope-style / task cancellation (trio.Cancelled, asyncio.CancelledError): BaseException
    reg.ext_class("Cancelled", "BaseException")
    for n, b in [
        ("RuntimeError", "Exception"),
        ("NotImplementedError", "RuntimeError"),
        ("ValueError", "Exception"),
        ("UnicodeError", "ValueError"),
        ("UnicodeEncodeError", "UnicodeError"),
        ("UnicodeDecodeError", "UnicodeError"),
        ("LookupError", "Exception"),
        ("KeyError", "LookupError"),
        ("IndexError", "LookupError"),
        ("AssertionError", "Exception"),
        ("TypeError", "Exception"),
        ("AttributeError", "Exception"),
        ("OSError", "Exception"),
        ("TimeoutError", "OSError"),
        ("socket.timeout", "OSError"),
        ("ssl.SSLError", "OSError"),
        ("BlockingIOError", "OSError"),
        ("InterruptedError", "OSError"),
        ("ConnectionError", "OSError"),
        ("BrokenPipeError", "ConnectionError"),
        ("ConnectionAbortedError", "ConnectionError"),
        ("ConnectionRefusedError", "ConnectionError"),
        ("FileNotFoundError", "OSError"),
        ("PermissionError", "OSError"),
        ("ImportError", "Exception"),
        ("StopIteration", "Exception"),
        ("StopAsyncIteration", "Exception"),
        # a representative "some other Exception / BaseException" for unknown callees
        ("OtherException", "Exception"),
    ]:
        reg.ext_class(n, b)
    reg.module_heads = {"typing", "ssl", "socket", "h11", "h2", "socksio", "anyio", "trio", "time", "itertools",
                        "logging", "base64", "urllib", "sys", "types", "enum", "contextlib", "inspect", "threading",
                        "select", "functools", "sniffio"}
    for n in ("typing.AsyncIterable", "typing.Iterable", "typing.Mapping", "typing.Sequence",
              "typing.AsyncIterator", "typing.Iterator"):
        reg.ext_class(n)

    # ---- network stream interface (assumed) ----------------------------------------------------
    reg.ext_class(NS)
    reg.ext_class(NB)
    reg.fields(
        NS,
        "NS",
        ghost=["open", "pending", "written", "wraps", "tls", "ever_opened"],
        open="bool",  # ghost: the stream is open (not yet closed)
        pending="bytes",  # ghost (prophecy): bytes the peer will deliver to future reads, in order
        written="bytes",  # ghost: every byte written so far, in order
        wraps="ref:" + NS,  # ghost: stream this one was produced from by start_tls
        tls="bool",  # ghost: TLS-wrapped
    )
    reg.trusted_notes.append(
        "A-runtime: AsyncNetworkStream/NetworkStream interface contract (read returns a prefix-chunk of the "
        "pending byte stream of length <= max_bytes, b'' only at EOF; write appends to the written stream; "
        "read raises only ReadError/ReadTimeout, write only WriteError/WriteTimeout, start_tls only "
        "ConnectError/ConnectTimeout; aclose closes) - assumed for every backend, verified for none"
    )

    @reg.method(NS, "read")
    def ns_read(it, st, self_v, args, kwargs, node):
        eng = it.eng
        max_bytes = eng.coerce(st, kw(args, kwargs, 0, "max_bytes"), "int")
        timeout = eng.to_val(st, kw(args, kwargs, 1, "timeout"))
        ev = it.emit(st, "net.read", node, stream=self_v, max_bytes=max_bytes, timeout=timeout)
        it.suspend(st, f"net.read@{node.lineno}")
        outcome(it, st, f"net.read@{node.lineno}", NET_READ_RAISES)
        pend = eng.heap_read(st, self_v, "NS.pending")
        r = eng.fresh(st, "bytes", "rd")
        rest = eng.fresh(st, "bytes", "pend")
        eng.assume(st, z3.And(pend.t == z3.Concat(r.t, rest.t), z3.Length(r.t) <= max_bytes.t))
        # b"" only at end of stream
        eng.assume(st, z3.Implies(z3.Length(r.t) == 0, z3.Length(rest.t) == 0))
        eng.heap_write(st, self_v, "NS.pending", rest)
        ev.data["result"] = r
        return r

    @reg.method(NS, "write")
    def ns_write(it, st, self_v, args, kwargs, node):
        eng = it.eng
        buf = eng.coerce(st, kw(args, kwargs, 0, "buffer"), "bytes")
        timeout = eng.to_val(st, kw(args, kwargs, 1, "timeout"))
        it.emit(st, "net.write", node, stream=self_v, buffer=buf, timeout=timeout)
        it.suspend(st, f"net.write@{node.lineno}")
        outcome(it, st, f"net.write@{node.lineno}", NET_WRITE_RAISES)
        w = eng.heap_read(st, self_v, "NS.written")
        eng.heap_write(st, self_v, "NS.written", VBytes(z3.Concat(w.t, buf.t)))
        return NONE

    # other tasks may close a stream under our feet (pool.aclose), nobody re-opens one
    reg.shared_keys.add("NS.open")

    def rely_streams(it, st, old):
        eng = it.eng
        oa = eng.old_arr(old, "NS.open", BoolS)
        na = eng.heap_arr(st, "NS.open", BoolS)
        for s in st.ghost.get("streams_of_interest", []):
            eng.assume(st, z3.Implies(z3.Not(z3.Select(oa, s)), z3.Not(z3.Select(na, s))))

    reg.rely_hooks.append(rely_streams)

    @reg.method(NS, "aclose", "close")
    def ns_aclose(it, st, self_v, args, kwargs, node):
        eng = it.eng
        stream_of_interest(st, self_v.t)
        it.emit(st, "net.close", node, stream=self_v)
        # closing is modelled as atomic and non-failing (a close that raises still releases the fd)
        eng.heap_write(st, self_v, "NS.open", VBool(False))
        it.suspend(st, f"net.close@{node.lineno}")
        return NONE

    @reg.method(NS, "start_tls")
    def ns_start_tls(it, st, self_v, args, kwargs, node):
        eng = it.eng
        ssl_context = kw(args, kwargs, 0, "ssl_context")
        server_hostname = kw(args, kwargs, 1, "server_hostname")
        timeout = eng.to_val(st, kw(args, kwargs, 2, "timeout"))
        it.emit(
            st, "net.start_tls", node, stream=self_v, ssl_context=ssl_context,
            server_hostname=server_hostname, timeout=timeout,
        )
        it.suspend(st, f"net.start_tls@{node.lineno}")  # Cancelled here leaves the raw stream open
        try:
            outcome(it, st, f"net.start_tls@{node.lineno}", NET_CONNECT_RAISES, undocumented=UNDOCUMENTED_CONNECT_FAILURES)
        except PyRaise:
            # backends close the raw stream when the handshake fails with an Exception
            eng.heap_write(st, self_v, "NS.open", VBool(False))
            raise
        new = eng.alloc(st, NS, "tls_stream")
        eng.heap_write(st, new, "NS.open", VBool(True))
        eng.heap_write(st, new, "NS.tls", VBool(True))
        eng.heap_write(st, new, "NS.wraps", self_v)
        eng.heap_write(st, new, "NS.written", VBytes(b""))
        st.ghost.setdefault("streams", []).append(new)
        stream_of_interest(st, new.t)
        stream_of_interest(st, self_v.t)
        # ownership of the raw stream moves into the TLS stream: closing the new one closes it
        st.ghost.setdefault("wrapped", []).append((new, self_v))
        return new

    @reg.method(NS, "get_extra_info")
    def ns_get_extra_info(it, st, self_v, args, kwargs, node):
        eng = it.eng
        info = eng.coerce(st, args[0], "str")
        it.emit(st, "net.get_extra_info", node, stream=self_v, info=info)
        f = z3.Function("extra_info", IntS, StrS, ValS)
        return VVal(f(self_v.t, info.t))

    # ---- backend interface (assumed) ---------------------------------------------------------
    def _connect(kind):
        def h(it, st, self_v, args, kwargs, node):
            eng = it.eng
            data = dict(kwargs)
            if kind == "tcp":
                names = ["host", "port", "timeout", "local_address", "socket_options"]
            else:
                names = ["path", "timeout", "socket_options"]
            for i, a in enumerate(args):
                data[names[i]] = a
            for n in names:
                data.setdefault(n, NONE)
            data["timeout"] = eng.to_val(st, data["timeout"])
            it.emit(st, "net.connect_" + kind, node, backend=self_v, **data)
            it.suspend(st, f"net.connect_{kind}@{node.lineno}")
            outcome(it, st, f"net.connect_{kind}@{node.lineno}", NET_CONNECT_RAISES, undocumented=UNDOCUMENTED_CONNECT_FAILURES)
            s = eng.alloc(st, NS, "stream")
            eng.heap_write(st, s, "NS.open", VBool(True))
            eng.heap_write(st, s, "NS.tls", VBool(False))
            eng.heap_write(st, s, "NS.wraps", VRef(0, NS))
            eng.heap_write(st, s, "NS.written", VBytes(b""))
            st.ghost.setdefault("streams", []).append(s)
            stream_of_interest(st, s.t)
            st.trace[-1 if st.trace[-1].name.startswith("net.connect") else -2].data["result"] = s
            return s

        return h

    reg.methods[(NB, "connect_tcp")] = _connect("tcp")
    reg.methods[(NB, "connect_unix_socket")] = _connect("unix")

    @reg.method(NB, "sleep")
    def nb_sleep(it, st, self_v, args, kwargs, node):
        secs = kw(args, kwargs, 0, "seconds")
        it.emit(st, "net.sleep", node, seconds=secs)
        it.suspend(st, f"net.sleep@{node.lineno}")
        return NONE

    # ---- opaque (caller supplied) iterables: request bodies ----------------------------------------
    class OpaqueIter(IterHandler):
        """`for x in <opaque iterable>`: any number of elements, each a fresh bytes value.
        Exceptions raised by a caller-supplied iterator are excluded by precondition."""

        def __init__(self, it, st, v):
            self.v = v

        def next(self, it, st):
            eng = it.eng
            if getattr(self, "is_async", False):
                it.suspend(st, "body-iter")
            # pulling from a caller-supplied iterator consumes it (ghost, for transparent re-sends)
            eng.heap_write(st, VRef(ref_of_val(self.v.t), "pyvc.Body"), "Body.consumed", VBool(True))
            raises = list(getattr(it.contract, "opaque_iter_raises", []) or [])
            if eng.tree != "async" or st.shield > 0:
                raises = [r for r in raises if r != "Cancelled"]
            names = ["chunk", "exhausted"] + [r.rsplit(".", 1)[-1] for r in raises]
            k = eng.choose(st, len(names), "body-iter", names)
            if k == 1:
                return None
            if k > 1:
                eng.raise_(st, raises[k - 2], tag={"from": "inner-iterator"})
            x = eng.fresh(st, "bytes", "chunk")
            it.emit(st, "iter.next", None, source=self.v, value=x)
            return x

    reg.iter_by_class["val"] = OpaqueIter
    reg.ext_class("pyvc.Body")
    reg.fields("pyvc.Body", "Body", ghost=["consumed"], shared=["consumed"], consumed="bool")


def stream_of_interest(st, s):
    lst = st.ghost.setdefault("streams_of_interest", [])
    if not any(z3.eq(x, s) for x in lst):
        lst.append(s)


def timeout_of(request_ext_val, kind: str):
    """spec: the timeout of `kind` configured by the request extensions (None if absent)"""
    timeouts = dget(request_ext_val, str_lit("timeout"), empty_dict_val)
    return dget(timeouts, str_lit(kind), none_val)
