"""Contracts for httpcore/_async/http_proxy.py (merge_headers, AsyncForwardHTTPConnection,
AsyncTunnelHTTPConnection, AsyncHTTPProxy.create_connection) and the sync twin.
C11 (what each hop sees), C10 (targets / TLS after CONNECT), C16, C05, C06, C15."""
from __future__ import annotations

import z3

from pyvc.values import *  # noqa: F401,F403
from pyvc.engine import Contract, Unsupported
from pyvc.builtins_ import exists_in, filter_map
from .common import NS, NB, EXC, NET_CONNECT_RAISES, timeout_of
from .ext_runtime import LOCK, lock_id
from .iface import CI, CONN_RAISES
from .m_models_fields import ORIGIN, REQUEST, URL, RESPONSE, origin_fields_equal
from .m_models import dec_bytes, authority_host
from .m_connection import HC, alpn_of, is_tls_scheme

MOD = "httpcore._async.http_proxy."
FWD = MOD + "AsyncForwardHTTPConnection"
TUN = MOD + "AsyncTunnelHTTPConnection"
PROXYPOOL = MOD + "AsyncHTTPProxy"
H11 = "httpcore._async.http11.AsyncHTTP11Connection"
H2 = "httpcore._async.http2.AsyncHTTP2Connection"
PE = EXC + "ProxyError"


def F(c, ref, key, old=False):
    return (c.old(ref, key) if old else c.new(ref, key)).t


def merge_spec(default_t, override_t):
    """[h in default if lower(h.k) not in {lower(o.k) for o in override}] ++ override"""
    x = z3.Const("mx", HdrS)
    o = z3.Const("mo", HdrS)
    overridden = exists_in(override_t, o, lower_b(HdrS.hk(o)) == lower_b(HdrS.hk(x)))
    kept = filter_map(default_t, x, z3.Not(overridden), x, HdrS)
    return z3.Concat(kept, override_t)


def register(reg):
    # ================================================================== merge_headers
    @reg.contract
    class MergeHeaders(Contract):
        key = MOD + "merge_headers"
        props = ("C11", "C19", "C03")
        suspends = False
        variants = [
            ("both", {"default_headers": "seq:hdr", "override_headers": "seq:hdr"}),
            ("no_default", {"default_headers": "none", "override_headers": "seq:hdr"}),
            ("no_override", {"default_headers": "seq:hdr", "override_headers": "none"}),
        ]
        result_kind = "seq:hdr"

        def spec(self, c):
            d = c.args["default_headers"]
            o = c.args["override_headers"]
            dt = d.t if isinstance(d, VSeq) else z3.Empty(HdrsS)
            ot = o.t if isinstance(o, VSeq) else z3.Empty(HdrsS)
            return merge_spec(dt, ot)

        def ensures(self, c):
            r = c.eng.coerce(c.st, c.result, "seq:hdr").t
            # C19: "header lists keep order and duplicates"
            return [("override_wins_case_insensitively_defaults_first", ("C11", "C19", "C03"), r == self.spec(c))]

        def apply(self, it, st, self_v, args, kwargs, node):
            eng = it.eng
            a = dict(zip(["default_headers", "override_headers"], args))
            a.update(kwargs)
            d = a.get("default_headers", NONE)
            o = a.get("override_headers", NONE)
            dt = z3.Empty(HdrsS) if isinstance(d, VNone) else eng.coerce(st, d, "seq:hdr").t
            ot = z3.Empty(HdrsS) if isinstance(o, VNone) else eng.coerce(st, o, "seq:hdr").t
            return VSeq(merge_spec(dt, ot), "hdr")

    # ================================================================== forwarding proxy
    reg.fields(
        FWD, "FWD",
        const=["_connection", "_proxy_origin", "_proxy_headers", "_remote_origin"],
        _connection="ref:" + CI, _proxy_origin="ref:" + ORIGIN, _proxy_headers="seq:hdr", _remote_origin="ref:" + ORIGIN,
    )

    @reg.contract
    class FwdInit(Contract):
        key = FWD + ".__init__"
        props = ("C10", "C11", "C09")
        params = {"proxy_headers": "seq:hdr", "keepalive_expiry": "opt:real", "network_backend": "ref:" + NB,
                  "socket_options": "val", "proxy_ssl_context": "val"}

        def requires(self, c):
            return [("backend_given", c.args["network_backend"].t > 0)]

        def checks(self, c):
            s = c.self
            inits = c.events("HC.__init__")
            ok = len(inits) == 1
            d = inits[0].data if ok else {}
            e, st = c.eng, c.st
            return [
                ("inner_connection_is_to_the_proxy", ("C10", "C11"), z3.And(F(c, s, "FWD._connection") == d["conn"].t, d["origin"].t == c.args["proxy_origin"].t) if ok else False),
                ("inner_connection_uses_proxy_tls_context", ("C10",), e.to_val(st, d.get("ssl_context", NONE)).t == c.args["proxy_ssl_context"].t if ok else False),
                ("inner_connection_gets_keepalive_expiry_and_backend", ("C09", "C10"), z3.And(
                    e.z_bool(e.eq(st, e.coerce(st, d.get("keepalive_expiry", NONE), "opt:real"), c.args["keepalive_expiry"])),
                    d["network_backend"].t == c.args["network_backend"].t) if ok and "network_backend" in d else False),
                ("stores_origins_and_headers", ("C10", "C11"), z3.And(F(c, s, "FWD._proxy_origin") == c.args["proxy_origin"].t, F(c, s, "FWD._remote_origin") == c.args["remote_origin"].t, F(c, s, "FWD._proxy_headers") == c.args["proxy_headers"].t)),
            ]

    @reg.contract
    class FwdHandle(Contract):
        key = FWD + ".handle_async_request"
        props = ("C11", "C10", "C03", "C15", "C14", "C19")
        raises = CONN_RAISES + ["Cancelled"]
        raises_props = ("C15",)

        def _untouched(self, c):
            # the pool re-sends the SAME Request object after ConnectionNotAvailable and re-reads request.url.origin to route
            # it: the proxy hop must build its own request, never re-address the caller's in place (seed C19-w4-2)
            w = [e for e in c.events("field.write") if e.data["key"].startswith("Request.") or e.data["key"].startswith("URL.")]
            return len(w) == 0

        def checks(self, c):
            return self._checks_main(c) + [("callers_request_object_is_not_modified", ("C19", "C03", "C14", "C10"), self._untouched(c))]

        def exc_checks(self, c, exc):
            return [("callers_request_object_is_not_modified", ("C19", "C03", "C14", "C10"), self._untouched(c))]

        def callsite(self, c, ev):
            s = c.self
            req = c.args["request"]
            if ev.name == "Request.__init__":
                d = ev.data
                e, st = c.eng, c.st
                url = d["url"]
                po = c.new(s, "FWD._proxy_origin")
                ub = reg.contracts[URL + ".__bytes__"]
                c2 = type(c)(c.eng, c.st, None, {}, c.old_heap, c.new(req, "Request.url"))
                absolute = ub.spec(c2)
                return [
                    ("forwarded_method_is_callers", ("C11", "C03"), e.coerce(st, d["method"], "bytes").t == F(c, req, "Request.method")),
                    ("forwarded_target_is_absolute_url", ("C11",), F(c, url, "URL.target") == absolute),
                    ("forwarded_to_the_proxy_origin", ("C11", "C10"), z3.And(F(c, url, "URL.scheme") == F(c, po, "Origin.scheme"), F(c, url, "URL.host") == F(c, po, "Origin.host"), c.new(url, "URL.port").val.t == F(c, po, "Origin.port"), z3.Not(c.new(url, "URL.port").none))),
                    ("proxy_headers_merged_beneath_callers", ("C11", "C03"), e.coerce(st, d["headers"], "seq:hdr").t == merge_spec(F(c, s, "FWD._proxy_headers"), F(c, req, "Request.headers"))),
                    ("forwarded_body_is_callers_stream", ("C11", "C03"), e.to_val(st, d["content"]).t == F(c, req, "Request.stream")),
                    ("forwarded_extensions_are_callers", ("C11", "C16"), e.to_val(st, d["extensions"]).t == F(c, req, "Request.extensions")),
                ]
            if ev.name == "ci.handle_request":
                inits = c.events("Request.__init__")
                return [
                    ("sent_on_the_proxy_connection", ("C10", "C11"), ev.data["conn"].t == F(c, s, "FWD._connection")),
                    ("sends_the_rewritten_request", ("C11",), ev.data["request"].t == inits[-1].data["request"].t if len(inits) == 1 else False),
                ]
            return []

        def _checks_main(self, c):
            hs = c.events("ci.handle_request")
            inits = c.events("Request.__init__")
            ok = len(hs) == 1 and "result" in hs[0].data
            out = [("returns_the_proxy_response", ("C01", "C11"), c.result.t == hs[0].data["result"].t if ok else False)]
            if len(inits) == 1:
                r = inits[0].data["request"]
                url = c.new(r, "Request.url")
                # what reaches the wire is the constructed Request's target: the absolute URL
                ub = reg.contracts[URL + ".__bytes__"]
                c2 = type(c)(c.eng, c.st, None, {}, c.old_heap, c.new(c.args["request"], "Request.url"))
                out.append(("request_line_carries_the_absolute_url", ("C11",), F(c, url, "URL.target") == ub.spec(c2)))
            return out

    def delegating_observer(cls, short, name, ci_name, props=("C05", "C09", "C01", "C06")):
        @reg.contract
        class Obs(Contract):
            key = cls + "." + name
            result_kind = "bool"
            suspends = False

            def checks(self, c):
                conn = c.new(c.self, short + "._connection")
                evs = c.events("ci." + ci_name)
                r = c.eng.z_bool(c.eng.truthy(c.st, c.result))
                ok = len(evs) == 1
                return [("returns_the_wrapped_connections_answer", props, z3.And(r == evs[0].data["result"].t, evs[0].data["conn"].t == conn.t) if ok else False)]

        Obs.props = props
        Obs.__name__ = f"Obs_{short}_{name}"
        return Obs

    for cls, short in ((FWD, "FWD"), (TUN, "TUN")):
        for n in ("is_available", "has_expired", "is_idle", "is_closed"):
            if (cls, n) == (TUN, "is_closed"):
                continue  # the tunnel has its own failed flag (below)
            delegating_observer(cls, short, n, n)

        def mk_can_handle(cls=cls, short=short):
            @reg.contract
            class CanHandle(Contract):
                key = cls + ".can_handle_request"
                props = ("C10",)
                result_kind = "bool"
                suspends = False

                def ensures(self, c):
                    o = c.new(c.self, short + "._remote_origin")
                    return [("gate_is_the_remote_origin", ("C10", "C01"), c.eng.coerce(c.st, c.result, "bool").t == origin_fields_equal(c.eng, c.st, c.args["origin"], o))]

            CanHandle.__name__ = f"CanHandle_{short}"

        mk_can_handle()

        def mk_close(cls=cls, short=short):
            @reg.contract
            class Close(Contract):
                key = cls + ".aclose"
                props = ("C06",)
                raises = ["Cancelled"]

                def checks(self, c):
                    evs = c.events("ci.aclose")
                    return [("closes_the_wrapped_connection", ("C06",), z3.And(z3.BoolVal(len(evs) == 1), evs[0].data["conn"].t == F(c, c.self, short + "._connection", old=True)) if evs else False)]

            Close.__name__ = f"Close_{short}"

        mk_close()

    # ================================================================== tunnelling proxy
    reg.fields(
        TUN, "TUN",
        const=["_proxy_origin", "_remote_origin", "_ssl_context", "_proxy_ssl_context", "_proxy_headers", "_keepalive_expiry", "_http1", "_http2", "_connect_lock"],
        shared=["_connection", "_connected", "_connect_failed"],
        _connect_failed="bool",
        _connection="ref:" + CI, _proxy_origin="ref:" + ORIGIN, _remote_origin="ref:" + ORIGIN, _ssl_context="val", _proxy_ssl_context="val",
        _proxy_headers="seq:hdr", _keepalive_expiry="opt:real", _http1="bool", _http2="bool", _connect_lock="ref:" + LOCK, _connected="bool",
    )

    def rely(it, st, old):
        eng = it.eng
        s = getattr(it.ctx, "self", None)
        if s is None or not isinstance(s, VRef) or s.cls != TUN:
            return
        lid = lock_id(eng.heap_read(st, s, "TUN._connect_lock"))
        if lid in st.held:
            for k, sort in (("TUN._connection", IntS), ("TUN._connected", BoolS)):
                o = eng.old_arr(old, k, sort)
                eng.assume(st, z3.Select(eng.heap_arr(st, k, sort), s.t) == z3.Select(o, s.t))
        else:
            o = eng.old_arr(old, "TUN._connected", BoolS)
            oc = eng.old_arr(old, "TUN._connection", IntS)
            # once connected, the inner connection is never replaced again
            eng.assume(st, z3.Implies(z3.Select(o, s.t), z3.And(z3.Select(eng.heap_arr(st, "TUN._connected", BoolS), s.t), z3.Select(eng.heap_arr(st, "TUN._connection", IntS), s.t) == z3.Select(oc, s.t))))

    reg.rely_hooks.append(rely)

    @reg.contract
    class TunIsClosed(Contract):
        key = TUN + ".is_closed"
        props = ("C05", "C09", "C01", "C06", "C04", "C07")
        result_kind = "bool"
        suspends = False

        def checks(self, c):
            s = c.self
            conn = c.new(s, "TUN._connection")
            evs = c.events("ci.is_closed")
            r = c.eng.z_bool(c.eng.truthy(c.st, c.result))
            inner = z3.And(evs[0].data["result"].t, evs[0].data["conn"].t == conn.t) if len(evs) == 1 else z3.BoolVal(False)
            asked = z3.BoolVal(len(evs) == 1)
            # closed iff establishment was given up or the wrapped connection is closed
            return [("closed_iff_given_up_or_wrapped_connection_closed", ("C05", "C07", "C06", "C01"),
                     z3.If(F(c, s, "TUN._connect_failed"), r, z3.And(asked, r == inner)))]

    def val_as_stream(it, st, v):
        return VRef(ref_of_val(v.t), NS)

    reg.val_methods = dict(getattr(reg, "val_methods", {}))

    def vm_start_tls(it, st, recv, args, kwargs, node):
        return reg.methods[(NS, "start_tls")](it, st, val_as_stream(it, st, recv), args, kwargs, node)

    def vm_get_extra_info(it, st, recv, args, kwargs, node):
        return reg.methods[(NS, "get_extra_info")](it, st, val_as_stream(it, st, recv), args, kwargs, node)

    reg.val_methods["start_tls"] = vm_start_tls
    reg.val_methods["get_extra_info"] = vm_get_extra_info

    @reg.contract
    class TunInit(Contract):
        key = TUN + ".__init__"
        props = ("C10", "C11", "C09")
        params = {"proxy_headers": "seq:hdr", "keepalive_expiry": "opt:real", "network_backend": "ref:" + NB, "socket_options": "val",
                  "proxy_ssl_context": "val", "ssl_context": "val", "http1": "bool", "http2": "bool"}

        def requires(self, c):
            return [("backend_given", c.args["network_backend"].t > 0)]

        def checks(self, c):
            s = c.self
            inits = c.events("HC.__init__")
            ok = len(inits) == 1
            d = inits[0].data if ok else {}
            e, st = c.eng, c.st
            return [
                ("inner_connection_is_to_the_proxy", ("C10", "C11"), z3.And(F(c, s, "TUN._connection") == d["conn"].t, d["origin"].t == c.args["proxy_origin"].t) if ok else False),
                ("inner_connection_uses_proxy_tls_context", ("C10",), e.to_val(st, d.get("ssl_context", NONE)).t == c.args["proxy_ssl_context"].t if ok else False),
                ("inner_connection_gets_keepalive_expiry_and_backend", ("C09", "C10"), z3.And(
                    e.z_bool(e.eq(st, e.coerce(st, d.get("keepalive_expiry", NONE), "opt:real"), c.args["keepalive_expiry"])),
                    d["network_backend"].t == c.args["network_backend"].t) if ok and "network_backend" in d else False),
                ("starts_unconnected", ("C11", "C05"), z3.And(z3.Not(F(c, s, "TUN._connected")), z3.Not(F(c, s, "TUN._connect_failed")))),
                ("stores_config", ("C10", "C11"), z3.And(
                    F(c, s, "TUN._proxy_origin") == c.args["proxy_origin"].t, F(c, s, "TUN._remote_origin") == c.args["remote_origin"].t,
                    F(c, s, "TUN._proxy_headers") == c.args["proxy_headers"].t, F(c, s, "TUN._ssl_context") == c.args["ssl_context"].t,
                    F(c, s, "TUN._http1") == c.args["http1"].t, F(c, s, "TUN._http2") == c.args["http2"].t)),
                ("stores_keepalive_expiry", ("C09",), e.z_bool(e.eq(st, c.new(s, "TUN._keepalive_expiry"), c.args["keepalive_expiry"]))),
            ]

    @reg.contract
    class TunHandle(Contract):
        key = TUN + ".handle_async_request"
        callsite_events = {'H11.__init__', 'H2.__init__', 'net.start_tls', 'Request.__init__', 'ci.aclose', 'ci.handle_request'}
        props = ("C11", "C10", "C16", "C05", "C06", "C15", "C17", "C14", "C08")
        raises = CONN_RAISES + ["Cancelled"]
        raises_props = ("C15",)
        max_paths = 30000

        def connect_target(self, c):
            ro = c.new(c.self, "TUN._remote_origin")
            # authority-form (RFC 7230 5.3.3): host ":" port with IP-literals bracketed
            return z3.Concat(authority_host(F(c, ro, "Origin.host")), bytes_lit(b":"), dec_bytes(F(c, ro, "Origin.port")))

        def on_field_write(self, c, obj, key, v, node):
            lid = lock_id(c.new(c.self, "TUN._connect_lock"))
            if key == "TUN._connect_failed":
                return [("tunnel_failed_flag_is_only_ever_set_and_only_while_unestablished", ("C05", "C06"),
                         z3.And(c.eng.z_bool(c.eng.truthy(c.st, v)), z3.Not(F(c, c.self, "TUN._connected"))))]
            if key in ("TUN._connection", "TUN._connected"):
                return [("tunnel_state_written_under_connect_lock", ("C05", "C08", "C11"), lid in c.st.held)]
            return []

        def callsite(self, c, ev):
            s = c.self
            req = c.args["request"]
            e, st = c.eng, c.st
            ext = F(c, req, "Request.extensions")
            out = []
            tv = lambda v: e.to_val(st, v).t  # noqa: E731
            if ev.name == "Request.__init__":
                d = ev.data
                url = d["url"]
                po = c.new(s, "TUN._proxy_origin")
                target = self.connect_target(c)
                base = z3.Concat(z3.Unit(HdrS.mk_hdr(bytes_lit(b"Host"), target)), z3.Unit(HdrS.mk_hdr(bytes_lit(b"Accept"), bytes_lit(b"*/*"))))
                from .m_http_proxy import merge_spec as ms

                out += [
                    ("connect_method", ("C11",), e.coerce(st, d["method"], "bytes").t == bytes_lit(b"CONNECT")),
                    ("connect_target_is_remote_host_port", ("C11", "C10"), F(c, url, "URL.target") == target),
                    ("connect_goes_to_the_proxy_origin", ("C11", "C10"), z3.And(F(c, url, "URL.scheme") == F(c, po, "Origin.scheme"), F(c, url, "URL.host") == F(c, po, "Origin.host"), z3.Not(c.new(url, "URL.port").none), c.new(url, "URL.port").val.t == F(c, po, "Origin.port"))),
                    ("connect_headers_are_host_accept_and_proxy_headers", ("C11",), e.coerce(st, d["headers"], "seq:hdr").t == ms(base, F(c, s, "TUN._proxy_headers"))),
                    ("connect_has_no_body", ("C11",), isinstance(d.get("content", NONE), VNone)),
                ]
                # from the property, on the CONNECT request as constructed (Request.__init__ applies the `target`
                # extension of whatever mapping it is given - two sub-agents reported `CONNECT /secret/path` with the
                # caller's `target` extension, which the obligation on the url ARGUMENT above could not see):
                built = d["request"]
                burl = c.new(built, "Request.url")
                bext = F(c, built, "Request.extensions")
                out += [
                    ("connect_request_line_names_exactly_remote_host_port", ("C11", "C10"), F(c, burl, "URL.target") == target),
                    ("connect_carries_callers_timeouts", ("C16",), z3.And(*[timeout_of(bext, k) == timeout_of(ext, k) for k in ("connect", "read", "write", "pool")])),
                    ("connect_carries_callers_trace_hook", ("C16", "C11"), dget(bext, str_lit("trace"), none_val) == dget(ext, str_lit("trace"), none_val)),
                    # TLS to an https proxy must name the proxy: the origin's `sni_hostname` override is not for this hop
                    ("connect_does_not_carry_the_origins_sni_override", ("C10", "C11"), z3.Not(dhas(bext, str_lit("sni_hostname")))),
                ]
            if ev.name == "ci.handle_request":
                prior = [x for x in c.events("ci.handle_request") if x is not ev]
                inits = c.events("Request.__init__")
                lid = lock_id(c.new(s, "TUN._connect_lock"))
                if lid in c.st.held:
                    out += [
                        ("connect_sent_on_the_proxy_connection", ("C11", "C10"), ev.data["conn"].t == F(c, s, "TUN._connection")),
                        ("connect_request_is_the_one_built", ("C11",), ev.data["request"].t == inits[-1].data["request"].t if len(inits) == 1 else False),
                        ("connect_only_when_not_connected", ("C11",), z3.Not(F(c, s, "TUN._connected"))),
                    ]
                else:
                    out += [
                        ("origin_request_is_the_callers_request_unchanged", ("C11", "C03"), ev.data["request"].t == req.t),
                        ("origin_request_sent_on_current_inner_connection", ("C11", "C10"), ev.data["conn"].t == F(c, s, "TUN._connection")),
                    ]
                    if prior:
                        # this flow did the CONNECT itself: it must have seen a 2xx and built the tunnel
                        resp = prior[-1].data.get("result")
                        inits2 = c.events("H11.__init__") + c.events("H2.__init__")
                        status = F(c, resp, "Response.status") if resp is not None else z3.IntVal(0)
                        out.append(("origin_request_only_after_2xx", ("C11", "C10"), z3.And(status >= 200, status <= 299) if resp is not None else False))
                        out.append(("origin_request_only_inside_the_tunnel", ("C11", "C10"), z3.And(z3.BoolVal(len(inits2) == 1), ev.data["conn"].t == inits2[-1].data["conn"].t) if len(inits2) == 1 else False))
            if ev.name == "net.start_tls":
                d = ev.data
                ro = c.new(s, "TUN._remote_origin")
                sni = dget(ext, str_lit("sni_hostname"), none_val)
                hostname = z3.If(truthy_val(sni), sni, val_of_str(decode_ascii(F(c, ro, "Origin.host"))))
                resps = [x for x in c.events("ci.handle_request") if "result" in x.data]
                alpn = c.since_cut({"ssl.set_alpn"})
                cfg = F(c, s, "TUN._ssl_context")
                defaults = c.since_cut({"ssl.default_context"})
                ctx_ok = z3.If(cfg == none_val, tv(d["ssl_context"]) == defaults[-1].data["value"].t if defaults else False, tv(d["ssl_context"]) == cfg)
                ns = dget(F(c, resps[-1].data["result"], "Response.extensions"), str_lit("network_stream"), none_val) if resps else none_val
                out += [
                    ("tunnel_tls_only_for_https_and_wss", ("C10",), is_tls_scheme(F(c, ro, "Origin.scheme"))),
                    ("tunnel_tls_server_name_is_sni_extension_or_host", ("C10",), tv(d["server_hostname"]) == hostname),
                    ("tunnel_tls_on_the_connect_responses_stream", ("C10", "C17"), d["stream"].t == ref_of_val(ns)),
                    ("tunnel_tls_connect_timeout", ("C16",), d["timeout"].t == timeout_of(ext, "connect")),
                    ("tunnel_tls_context_is_configured_or_default", ("C10",), ctx_ok),
                    ("tunnel_alpn_offers_h2_iff_http2_enabled", ("C10",), z3.If(F(c, s, "TUN._http2"), z3.BoolVal(alpn[-1].data["protocols"] == ["http/1.1", "h2"]), z3.BoolVal(alpn[-1].data["protocols"] == ["http/1.1"])) if alpn else False),
                ]
            if ev.name in ("H11.__init__", "H2.__init__"):
                d = ev.data
                tls = [x for x in c.events("net.start_tls") if True]
                f = z3.Function("extra_info", IntS, StrS, ValS)
                out += [
                    ("tunnel_connection_is_for_the_remote_origin", ("C10", "C01"), d["origin"].t == F(c, s, "TUN._remote_origin")),
                    ("tunnel_connection_gets_keepalive_expiry", ("C09",), e.z_bool(e.eq(st, e.coerce(st, d.get("keepalive_expiry", NONE), "opt:real"), c.new(s, "TUN._keepalive_expiry")))),
                ]
                # without TLS the stream is the one taken out of the CONNECT response's extensions (an opaque value)
                sref = e.coerce(st, d["stream"], "ref:" + NS) if not isinstance(d["stream"], VRef) else d["stream"]
                ro = c.new(s, "TUN._remote_origin")
                resps = [x for x in c.events("ci.handle_request") if "result" in x.data]
                ns = ref_of_val(dget(F(c, resps[-1].data["result"], "Response.extensions"), str_lit("network_stream"), none_val)) if resps else z3.IntVal(0)
                secure = is_tls_scheme(F(c, ro, "Origin.scheme"))
                out += [
                    ("tunnel_tls_iff_https_or_wss", ("C10",), z3.If(secure, z3.BoolVal(len(tls) == 1), z3.BoolVal(len(tls) == 0))),
                    ("tunnel_connection_gets_the_tunnelled_stream", ("C10", "C17", "C06"), z3.If(z3.BoolVal(len(tls) == 1), F(c, sref, "NS.wraps") == ns, sref.t == ns)),
                ]
                sslobj = f(sref.t, str_lit("ssl_object"))
                negotiated = z3.And(sslobj != none_val, alpn_of(sslobj) == val_of_str(str_lit("h2")))
                want_h2 = z3.Or(negotiated, z3.And(F(c, s, "TUN._http2"), z3.Not(F(c, s, "TUN._http1"))))
                out.append(("tunnel_http2_iff_negotiated_or_http1_disabled", ("C10",), want_h2 if ev.name == "H2.__init__" else z3.Not(want_h2)))
            if ev.name == "ci.aclose":
                out.append(("refusal_closes_the_proxy_connection", ("C06", "C05"), ev.data["conn"].t == F(c, s, "TUN._connection")))
            return out

        def checks(self, c):
            hs = [x for x in c.events("ci.handle_request") if "result" in x.data]
            return [("returns_the_origin_response", ("C01", "C11"), c.result.t == hs[-1].data["result"].t if hs else False)]

        def exc_checks(self, c, exc):
            s = c.self
            out = []
            hs = c.events("ci.handle_request")
            done = [x for x in hs if "result" in x.data]
            lid = lock_id(c.new(s, "TUN._connect_lock"))
            inside = lid in exc.tag.get("held", [])
            # from the property (C05), as for HTTPConnection / Socks5Connection: no request leaves the tunnel
            # unestablished without the connection reporting itself closed (it is neither available nor idle then)
            out.append(("unestablished_tunnel_is_given_up_when_its_request_fails", ("C05", "C07"),
                        z3.Implies(z3.Not(F(c, s, "TUN._connected")), F(c, s, "TUN._connect_failed"))))
            if exc.cls == PE and exc.tag.get("from") != "ci.handle_request":
                resp = done[-1].data["result"] if done else None
                status = F(c, resp, "Response.status") if resp is not None else z3.IntVal(200)
                closes = c.events("ci.aclose")
                n = exc.tag.get("trace_len", 0)
                later = [x for x in c.trace[n:] if x.name in ("ci.handle_request", "net.start_tls")]
                out += [
                    ("proxy_error_exactly_for_non_2xx", ("C11",), z3.Or(status < 200, status > 299)),
                    ("refused_tunnel_is_closed_before_raising", ("C06", "C05", "C11"), len(closes) == 1),
                    ("nothing_sent_after_refusal", ("C11",), len(later) == 0 and len(hs) == 1),
                ]
            elif inside and done and exc.cls != "Cancelled":
                # CONNECT succeeded, then establishing the tunnel (TLS) failed: the proxy connection,
                # whose CONNECT exchange is still open, must be closed or it stays ACTIVE forever
                closes = c.events("ci.aclose")
                out.append(("failed_tunnel_setup_closes_the_proxy_connection", ("C05", "C06"), len(closes) >= 1))
            elif inside and done and exc.cls == "Cancelled":
                closes = c.events("ci.aclose")
                out.append(("cancelled_tunnel_setup_closes_the_proxy_connection", ("C05", "C06"), len(closes) >= 1))
            return out

    # ================================================================== AsyncHTTPProxy.create_connection
    reg.fields(
        PROXYPOOL, "PP",
        const=["_proxy_url", "_proxy_headers", "_proxy_ssl_context"],
        _proxy_url="ref:" + URL, _proxy_headers="seq:hdr", _proxy_ssl_context="val",
    )
